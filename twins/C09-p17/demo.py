""" C09 / round 11 / pair 1 -- where the total enters GraphicalModel.datavector (the explicit
data vector of the model; scipy logsumexp(b=) migration).

Every answer of a model must add up to model.total, whether that total was supplied by the
caller or estimated, and must agree with the marginal of the explicit data vector.
"""
import os, sys, io, hashlib, warnings, contextlib
warnings.filterwarnings('ignore')
ROOT = os.path.dirname(os.path.dirname(os.path.dirname(os.path.abspath(__file__))))
sys.path.insert(0, os.path.join(ROOT, 'src'))

import numpy as np
import mbi
assert os.path.abspath(mbi.__file__).startswith(os.path.abspath(ROOT)), mbi.__file__
from mbi import Domain, Dataset, Factor, CliqueVector, GraphicalModel, FactoredInference

attrs, shape = ['a', 'b', 'c', 'd'], [2, 3, 4, 3]
dom = Domain(attrs, shape)
chain = [('a', 'b'), ('b', 'c'), ('c', 'd')]
queries = [(), ('a',), ('d',), ('a', 'b'), ('b', 'c'), ('a', 'c'), ('a', 'd'), ('d', 'b'),
           ('a', 'c', 'd'), ('a', 'b', 'c', 'd')]
lines, bad = [], []

def check(tag, model, expect_total):
    """ all answers add up to the total and agree with the explicit data vector """
    if not np.isclose(model.total, expect_total, rtol=1e-9):
        bad.append('%s: model.total=%r, expected %r' % (tag, model.total, expect_total))
    full = Factor(model.domain, model.datavector())
    dv = float(full.values.sum())
    lines.append('%s datavector %.8e' % (tag, dv))
    if not np.isclose(dv, model.total, rtol=1e-7):
        bad.append('%s: datavector() adds up to %.6f, total is %.6f' % (tag, dv, model.total))
    for q in queries:
        ans = model.project(q)
        s = float(np.sum(ans.values))
        lines.append('%s %s %.8e' % (tag, '-'.join(q), s))
        if not np.isclose(s, model.total, rtol=1e-7):
            bad.append('%s: project(%s) adds up to %.6f, total is %.6f' % (tag, q, s, model.total))
        ref = full.project(q) if len(q) else None
        if ref is not None and not np.allclose(ans.values, ref.values, rtol=1e-6, atol=1e-9 * model.total):
            bad.append('%s: project(%s) disagrees with the data vector marginal' % (tag, q))

rng = np.random.default_rng(911)
np.random.seed(911)
data = Dataset.synthetic(dom, 400)
N = data.records

def measurements(sigma):
    ms = []
    for cl in chain:
        x = data.project(cl).datavector()
        ms.append((None, x + sigma * rng.normal(size=x.size), max(sigma, 1.0), cl))
    return ms

# A. estimated models: supplied total / omitted total, three engines
for engine in ['MD', 'RDA', 'IG']:
    for total in [None, 1.0, 400, 1234.5]:
        for sigma in [0.0, 3.0]:
            ms = measurements(sigma)
            eng = FactoredInference(dom, iters=40)
            with contextlib.redirect_stdout(io.StringIO()):
                model = eng.estimate(ms, total=total, engine=engine, options={})
            expect = model.total if total is None else total
            if total is None and sigma == 0.0: expect = N
            check('A %s %s %.0f' % (engine, total, sigma), model, expect)

# B. models without cached marginals: no measurements yet (first call of MWEM+PGM) and a
#    measurement that the initial uniform model already matches exactly (early exit)
for total in [1.0, 250, 1000.0]:
    eng = FactoredInference(dom, iters=20, warm_start=True)
    model = eng.estimate([], total=total, options={})
    check('B empty %s' % total, model, total)
    y = np.full(6, total / 6.0)
    model = eng.estimate([(np.eye(6), y, 1.0, ('a', 'b'))], total=total, options={})
    check('B exact %s' % total, model, total)

# C. model fitted directly to data (potentials only), total = number of records
for total in [1.0, float(N)]:
    model = GraphicalModel(dom, chain, total=total)
    model.fit(data)
    check('C fit %s' % total, model, total)
    if total == N:
        for cl in chain:
            if not np.allclose(model.project(cl).datavector(), data.project(cl).datavector(), atol=1e-6):
                bad.append('C fit: project(%s) does not reproduce the fitted marginal' % (cl,))

digest = hashlib.sha256('\n'.join(lines).encode()).hexdigest()
if bad:
    print('FAIL: %d model answers do not add up to / agree with the total' % len(bad))
    for b in bad[:15]: print('  ', b)
    sys.exit(1)
print('PASS %d answers checked, digest %s' % (len(lines), digest))

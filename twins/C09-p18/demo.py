""" C09 / round 11 / pair 2 -- starting point handed to lsmr in mixture_inference.estimate_total

The unknown total must be the inverse-variance weighted combination of the MINIMUM-VARIANCE
unbiased linear estimates v^T y (v = minimum-norm solution of Q^T v = 1).  The demo compares
mbi.mixture_inference.estimate_total (and MixtureInference.estimate(total=None/known)) with an
independent pseudo-inverse oracle over many kinds of query matrices.
"""
import os, sys, types, hashlib, warnings
warnings.filterwarnings('ignore')
ROOT = os.path.dirname(os.path.dirname(os.path.dirname(os.path.abspath(__file__))))
sys.path.insert(0, os.path.join(ROOT, 'src'))

import numpy as np
from scipy import sparse
from scipy.special import softmax
from scipy.sparse.linalg import aslinearoperator

# jax is not installed: minimal stand-ins so that mbi.mixture_inference can be imported
jax = types.ModuleType('jax'); jnp = types.ModuleType('jax.numpy'); jnn = types.ModuleType('jax.nn')
jnp.array = np.array; jnp.einsum = np.einsum
jnn.softmax = softmax
def _vjp(*a, **k): raise RuntimeError('vjp stub: not needed with iters=0')
jax.vjp = _vjp; jax.numpy = jnp; jax.nn = jnn
sys.modules.update({'jax': jax, 'jax.numpy': jnp, 'jax.nn': jnn})

import mbi
assert os.path.abspath(mbi.__file__).startswith(os.path.abspath(ROOT)), mbi.__file__
from mbi import Domain
from mbi.mixture_inference import estimate_total, MixtureInference
for _m in ('jax', 'jax.numpy', 'jax.nn'): del sys.modules[_m]   # scipy probes sys.modules['jax']

def oracle(dense_measurements):
    est, var = [], []
    for Q, y, noise in dense_measurements:
        o = np.ones(Q.shape[1])
        v = np.linalg.pinv(Q.T) @ o          # minimum-norm solution of Q^T v = 1
        if np.allclose(Q.T @ v, o):
            est.append(v @ y); var.append(noise**2 * (v @ v))
    if not est: return 1
    est, var = np.array(est), np.array(var)
    return max(1, np.sum(est / var) / np.sum(1.0 / var))

def prefix(n): return np.tril(np.ones((n, n)))

def matrices(n, rng):
    R = rng.uniform(-1, 1, size=(n, n)) + n * np.eye(n)
    T = np.vstack([R, rng.uniform(0, 1, size=(n + 1, n))])   # tall, well conditioned
    D = np.eye(n)[:-1] - np.eye(n)[1:] if n > 1 else np.zeros((1, 1))
    return [('identity', np.eye(n)), ('scaled', 3.0 * np.eye(n)), ('prefix', prefix(min(n, 5)) if n <= 5 else np.eye(n) + np.eye(n, k=-1)),
            ('random', R), ('total-query', np.ones((1, n))),
            ('identity+prefix', np.vstack([np.eye(n), prefix(n)])),
            ('identity+2*identity', np.vstack([np.eye(n), 2 * np.eye(n)])),
            ('tall-random', T), ('differences(no ones)', D)]

def wrap(kind, Q):
    return {'dense': Q, 'sparse': sparse.csr_matrix(Q), 'operator': aslinearoperator(Q)}[kind]

lines, bad = [], []
rng = np.random.default_rng(1109)
for n in [1, 2, 3, 5, 8, 16, 33, 64]:
    x = rng.integers(0, 50, size=n).astype(float); x[0] += 1
    N = x.sum()
    for name, Q in matrices(n, rng):
        for kind in ['dense', 'sparse', 'operator']:
            for sigma in [0.0, 2.5]:
                y = Q @ x + sigma * rng.normal(size=Q.shape[0])
                noise = 1.0 if sigma == 0 else sigma
                got = estimate_total([(wrap(kind, Q), y, noise, ('a',))])
                want = oracle([(Q, y, noise)])
                lines.append('%d %s %s %.1f %.7e' % (n, name, kind, sigma, got))
                if not np.isclose(got, want, rtol=1e-7, atol=1e-7):
                    bad.append('n=%d Q=%s (%s) sigma=%.1f: total %.9f, best linear estimate %.9f'
                               % (n, name, kind, sigma, got, want))
                if sigma == 0 and 'no ones' not in name and not np.isclose(got, N, rtol=1e-7):
                    bad.append('n=%d Q=%s (%s) noise-free: total %.9f, N=%g' % (n, name, kind, got, N))

# several measurements with different noise scales, through MixtureInference.estimate (iters=0)
dom = Domain(['a', 'b'], [4, 6])
for trial in range(6):
    xa = rng.integers(1, 40, size=4).astype(float); xb = rng.dirichlet(np.ones(6)) * xa.sum()
    Qa = np.vstack([np.eye(4), prefix(4)]); Qb = np.vstack([prefix(6), 2 * np.eye(6), np.ones((1, 6))])
    ms, dm = [], []
    for Q, x, s, cl in [(Qa, xa, 1.5, ('a',)), (Qb, xb, 4.0, ('b',)), (np.eye(4), xa, 9.0, ('a',))]:
        y = Q @ x + s * rng.normal(size=Q.shape[0])
        ms.append((sparse.csr_matrix(Q), y, s, cl)); dm.append((Q, y, s))
    np.random.seed(trial)
    model = MixtureInference(dom, components=3, iters=0).estimate(ms, total=None)
    want = oracle(dm)
    lines.append('mix %d %.7e %.7e' % (trial, model.total, model.project(('a',)).datavector().sum()))
    if not np.isclose(model.total, want, rtol=1e-7):
        bad.append('MixtureInference trial %d: total %.9f, best linear estimate %.9f' % (trial, model.total, want))
    if not np.isclose(model.datavector().sum(), want, rtol=1e-6):
        bad.append('MixtureInference trial %d: answers sum to %.9f' % (trial, model.datavector().sum()))
    known = MixtureInference(dom, components=3, iters=0).estimate(ms, total=1234.5)
    if known.total != 1234.5: bad.append('supplied total not used exactly: %r' % known.total)

digest = hashlib.sha256('\n'.join(lines).encode()).hexdigest()
if bad:
    print('FAIL: the omitted total is not the minimum-variance (best) linear estimate in %d cases' % len(bad))
    for b in bad[:60]: print('  ', b)
    sys.exit(1)
print('PASS %d checks, digest %s' % (len(lines), digest))

""" C09 / round 12 / pair 1 -- "use lsmr's stop code to skip the row-space product"
(FactoredInference._setup, total estimator).

For noise-free measurements y = Q x of a dataset with N records the estimated
total must be N for every well-conditioned Q whose rows span the ones vector,
and 1 when no measurement can express the count.  With heterogeneous noisy
measurements it must be the inverse-variance weighted combination (checked
against a dense pseudo-inverse oracle).
"""
import os, sys, hashlib, warnings
ROOT = os.path.dirname(os.path.dirname(os.path.dirname(os.path.abspath(__file__))))
sys.path.insert(0, os.path.join(ROOT, 'src'))
warnings.filterwarnings('ignore')
import numpy as np
from scipy import sparse
from scipy.sparse.linalg import aslinearoperator
import mbi
from mbi import Domain, FactoredInference

assert os.path.abspath(mbi.__file__).startswith(os.path.abspath(ROOT)), mbi.__file__


def dense(Q):
    if sparse.issparse(Q):
        return Q.toarray()
    if isinstance(Q, np.ndarray):
        return Q
    return Q @ np.eye(Q.shape[1])          # LinearOperator


def oracle(measurements):
    """ dense reference: minimum-norm v with Q^T v = 1, inverse-variance pooling """
    est, var = [], []
    for Q, y, noise, _ in measurements:
        D = dense(Q)
        o = np.ones(D.shape[1])
        v = np.linalg.pinv(D.T) @ o
        if np.allclose(D.T @ v, o):
            est.append(v @ y)
            var.append(noise**2 * (v @ v))
    if not est:
        return 1.0
    est, var = np.array(est), np.array(var)
    return max(1.0, float(np.sum(est / var) / np.sum(1.0 / var)))


def families(n):
    yield 'eye', sparse.eye(n)
    for c in (3.0, 7.0, 0.1, 1.0 / 3):
        yield '%.4g*eye' % c, c * sparse.eye(n)
    yield 'total', np.ones((1, n))
    yield 'eye+total', np.vstack([np.eye(n), np.ones((1, n))])
    yield 'op(2*eye)', aslinearoperator(2.0 * np.eye(n))
    if n % 3 == 0:
        yield 'bucket3', np.kron(np.eye(n // 3), np.ones((1, 3)))
    if n > 1:
        yield 'deficient', np.eye(n)[:n - 1]


def fit_total(domain, measurements):
    engine = FactoredInference(domain, iters=1, log=False)
    model = engine.estimate(measurements, total=None)
    return float(model.total), float(model.project(measurements[0][3]).sum())


lines, bad = [], []
rng = np.random.RandomState(12)

# 1. noise-free single measurements: total must equal N (or 1 when inexpressible)
for n in list(range(1, 25)) + [33, 36, 42, 45, 48, 49, 58, 62, 64]:
    x = rng.randint(0, 20, size=n).astype(float)
    x[rng.randint(n)] += 5                       # N >= 1
    N = x.sum()
    dom = Domain(['a'], [n])
    for name, Q in families(n):
        y = Q @ x
        got, mass = fit_total(dom, [(Q, y, 1.0, ('a',))])
        want = 1.0 if name == 'deficient' else N
        lines.append('noise-free n=%d %s total=%.6f mass=%.6f' % (n, name, got, mass))
        if abs(got - want) > 1e-6 * max(1, want) or abs(mass - got) > 1e-6 * max(1, got):
            bad.append('n=%d Q=%s: total %.6f (model mass %.6f), expected %.6f' % (n, name, got, mass, want))

# 2. a caller-supplied total is used exactly
dom = Domain(['a'], [3])
x = np.array([4.0, 0.0, 9.0])
model = FactoredInference(dom, iters=1).estimate([(3 * sparse.eye(3), 3 * x, 1.0, ('a',))], total=50.0)
lines.append('supplied total=%.6f' % model.total)
if model.total != 50.0:
    bad.append('supplied total not honoured: %r' % model.total)

# 3. heterogeneous noisy measurements: inverse-variance pooling vs dense oracle
dom = Domain(['a', 'b', 'c'], [3, 9, 6])
for trial in range(6):
    data = rng.randint(0, 30, size=(3, 9, 6)).astype(float)
    xa, xb, xc = data.sum((1, 2)), data.sum((0, 2)), data.sum((0, 1))
    Qa, Qb, Qc = 3 * sparse.eye(3), 0.1 * sparse.eye(9), sparse.eye(6)
    ms = [(Qa, Qa @ xa + rng.normal(0, 2.0, 3), 2.0, ('a',)),
          (Qb, Qb @ xb + rng.normal(0, 0.5, 9), 0.5, ('b',)),
          (Qc, Qc @ xc + rng.normal(0, 40.0, 6), 40.0, ('c',))]
    got, _ = fit_total(dom, ms)
    want = oracle(ms)
    lines.append('pooled trial=%d total=%.6f' % (trial, got))
    if abs(got - want) > 1e-6 * want:
        bad.append('pooled trial %d: total %.6f, inverse-variance oracle %.6f' % (trial, got, want))

digest = hashlib.sha256('\n'.join(lines).encode()).hexdigest()
if bad:
    print('FAIL: %d of %d checks violate C09 (a measurement that can express the count was '
          'left out of the total estimate):' % (len(bad), len(lines)))
    for b in bad:
        print('  ' + b)
    sys.exit(1)
print('PASS %d checks' % len(lines))
print('digest', digest)
for l in lines[::37]:
    print(l)
sys.exit(0)

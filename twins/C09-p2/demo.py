"""C09 / pair 2 -- an omitted total is estimated from exactly those measurements whose
query matrix can express the overall count, each with ITS OWN minimum-norm solution of
Q^T v = 1, combined by inverse variance (and floored at 1).

For a collection of measurement sets the total picked by FactoredInference.estimate(...,
total=None) is compared with an independent dense reference (pseudo-inverse instead of
lsmr, computed separately for every single measurement).  The sets include
  * one query matrix per marginal (what every unit test and every bundled mechanism does),
  * the SAME matrix object reused for several marginals / several noise levels,
  * SEVERAL DIFFERENT matrices on the same marginal (identity + prefix sums, a matrix that
    cannot express the count followed by one that can, identity + the bare total query),
  * dense, scipy.sparse and LinearOperator matrices, Q=None (identity shorthand).

exit 0 + "PASS" + digest when every total agrees with the reference, exit 1 + "FAIL" otherwise.
"""
import os
import sys
import hashlib
import warnings

ROOT = os.path.dirname(os.path.dirname(os.path.dirname(os.path.abspath(__file__))))
sys.path.insert(0, os.path.join(ROOT, 'src'))
warnings.filterwarnings('ignore')

import numpy as np
from scipy import sparse
from scipy.sparse.linalg import LinearOperator, aslinearoperator
import mbi
from mbi import Domain, FactoredInference

assert os.path.abspath(mbi.__file__).startswith(os.path.join(ROOT, 'src')), mbi.__file__

DOM = Domain(['a', 'b', 'c', 'd', 'e'], [6, 4, 3, 8, 4])
N = 400
rng = np.random.RandomState(1234)
DATA = rng.randint(0, DOM.shape, size=(N, len(DOM.attrs)))


def marginal(cl):
    idx = [DOM.attrs.index(a) for a in cl]
    h = np.zeros([DOM[a] for a in cl])
    for r in DATA:
        h[tuple(r[idx])] += 1
    return h.flatten()


def dense(Q, n):
    if Q is None:
        return np.eye(n)
    if sparse.issparse(Q):
        return Q.toarray()
    if isinstance(Q, LinearOperator):
        return Q.matmat(np.eye(n))
    return np.asarray(Q, dtype=float)


def reference_total(measurements):
    """ independent re-statement of the property, one solve per measurement """
    est, var = [], []
    for Q, y, noise, proj in measurements:
        proj = (proj,) if isinstance(proj, str) else tuple(proj)
        A = dense(Q, DOM.size(proj))
        o = np.ones(A.shape[1])
        v = np.linalg.pinv(A.T) @ o
        if np.allclose(A.T @ v, o):
            est.append(v @ y)
            var.append(noise ** 2 * (v @ v))
    if not est:
        return 1.0
    est, var = np.array(est), np.array(var)
    return max(1.0, float(np.sum(est / var) / np.sum(1.0 / var)))


def prefix(n):
    return np.tril(np.ones((n, n)))


def no_count(n):
    """ n x n, rank n-1, ones vector NOT in the row space (differences of neighbours) """
    D = np.zeros((n, n))
    for i in range(n - 1):
        D[i, i], D[i, i + 1] = 1.0, -1.0
    D[n - 1] = D[0]
    return D


def noisy(Q, cl, sigma, seed):
    x = marginal(cl)
    A = dense(Q, x.size)
    return A @ x + np.random.RandomState(seed).normal(0, sigma, A.shape[0]) if sigma else A @ x


def cases():
    ans = []
    a, b, c, d, e = [(x,) for x in 'abcde']

    # 1. one matrix per marginal, noise free: total must be N
    ans.append(('one identity per marginal, exact',
                [(np.eye(DOM.size(cl)), noisy(None, cl, 0, 0), 1.0, cl) for cl in [a, b, c, d]]))
    # 2. one matrix per marginal, noisy, mixed representations
    R = np.random.RandomState(5).rand(8, 8) + np.eye(8)
    ans.append(('dense / sparse / operator / None, noisy',
                [(2.0 * np.eye(6), noisy(2.0 * np.eye(6), a, 3.0, 1), 3.0, a),
                 (sparse.csr_matrix(prefix(4)), noisy(prefix(4), b, 5.0, 2), 5.0, b),
                 (aslinearoperator(R), noisy(R, d, 2.0, 3), 2.0, d),
                 (None, noisy(None, ('a', 'c'), 4.0, 4), 4.0, ('a', 'c'))]))
    # 3. the same matrix OBJECT reused: two marginals of equal size, two noise levels
    I4 = np.eye(4)
    ans.append(('one matrix object reused for b, e and b again',
                [(I4, noisy(I4, b, 2.0, 6), 2.0, b),
                 (I4, noisy(I4, e, 6.0, 7), 6.0, e),
                 (I4, noisy(I4, b, 1.0, 8), 1.0, b)]))
    # 4. two DIFFERENT matrices on the same marginal: identity, then prefix sums
    P6 = prefix(6)
    ans.append(('identity then prefix sums on a, exact',
                [(np.eye(6), noisy(None, a, 0, 0), 1.0, a),
                 (P6, noisy(P6, a, 0, 0), 1.0, a)]))
    ans.append(('identity then prefix sums on a, noisy',
                [(np.eye(6), noisy(None, a, 4.0, 9), 4.0, a),
                 (P6, noisy(P6, a, 2.0, 10), 2.0, a),
                 (np.eye(3), noisy(None, c, 9.0, 11), 9.0, c)]))
    # 5. first matrix on d cannot express the count, the second one can
    D8 = no_count(8)
    ans.append(('difference matrix then identity on d, exact',
                [(D8, noisy(D8, d, 0, 0), 1.0, d),
                 (np.eye(8), noisy(None, d, 0, 0), 1.0, d)]))
    # 6. ... and the other way round: only the identity may contribute
    ans.append(('identity then difference matrix on d, noisy',
                [(np.eye(8), noisy(None, d, 3.0, 12), 3.0, d),
                 (D8, noisy(D8, d, 0.5, 13), 0.5, d)]))
    # 7. identity and the bare total query on the same marginal
    T = np.ones((1, 6))
    ans.append(('identity then total query on a, noisy',
                [(np.eye(6), noisy(None, a, 5.0, 14), 5.0, a),
                 (T, noisy(T, a, 1.0, 15), 1.0, a)]))
    # 8. nothing expresses the count -> 1 ;  a hopeless estimate -> floored at 1
    ans.append(('no measurement expresses the count',
                [(D8, noisy(D8, d, 1.0, 16), 1.0, d), (no_count(4), noisy(no_count(4), b, 1.0, 17), 1.0, b)]))
    ans.append(('negative estimate is floored',
                [(np.eye(3), np.array([-30.0, 2.0, 1.0]), 10.0, c)]))
    return ans


problems = []
digest = hashlib.sha256()
for name, meas in cases():
    ref = reference_total(meas)
    for supplied in [None, 123.0]:
        expected = ref if supplied is None else supplied
        engine = FactoredInference(DOM, iters=3)
        try:
            model = engine.estimate([tuple(m) for m in meas], total=supplied)
            got = float(model.total)
            mass = float(model.project(model.cliques[0]).datavector().sum())
        except Exception as ex:
            problems.append('%s [total=%s]: estimate raised %s: %s' % (name, supplied, type(ex).__name__, ex))
            print('%-50s total=%-6s -> raised %s' % (name, supplied, type(ex).__name__))
            continue
        # 1e-4: lsmr stops after min(m,n) iterations, so the library's v is only accurate to
        # about 1e-5 for some matrices; a wrong v / a wrong set of measurements is off by far more
        ok = abs(got - expected) <= 1e-4 * max(1.0, abs(expected)) and abs(mass - got) <= 1e-6 * got
        if supplied is not None and got != supplied:
            ok = False
        if not ok:
            problems.append('%s [total=%s]: model.total=%.6f (mass %.6f), reference says %.6f'
                            % (name, supplied, got, mass, expected))
        digest.update(np.round([got, mass], 6).tobytes())
        print('%-50s total=%-6s -> model.total=%.6f reference=%.6f %s'
              % (name, supplied, got, expected, 'ok' if ok else 'MISMATCH'))

print('digest', digest.hexdigest())
if problems:
    print('FAIL: %d totals are not the inverse-variance combination of the per-measurement estimates' % len(problems))
    for p in problems:
        print('  ' + p)
    sys.exit(1)
print('PASS')
sys.exit(0)

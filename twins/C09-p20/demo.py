"""C09 / round 13 / pair 1 -- per-measurement total estimates kept for diagnostics.

Checks, for FactoredInference.estimate(measurements, total=None):
  * the total is the inverse-variance weighted combination of the unbiased linear
    estimates of exactly the measurements handed to THIS call (reference computed
    independently with a dense pseudo-inverse),
  * noise-free measurements of a dataset with N records give N,
  * a supplied total is used exactly, also on an engine that estimated one before,
  * every model answer sums to model.total,
also when one engine object is used for a sequence of calls with a growing
measurement list (what mechanisms/aim.py does, with warm_start=True).
"""
import os, sys, hashlib, warnings, io, contextlib
ROOT = os.path.dirname(os.path.dirname(os.path.dirname(os.path.abspath(__file__))))
sys.path.insert(0, os.path.join(ROOT, 'src'))
warnings.simplefilter('ignore')
import numpy as np
from scipy import sparse
from scipy.sparse.linalg import aslinearoperator
import mbi
from mbi import Domain, Dataset, FactoredInference
import pandas as pd

assert os.path.abspath(mbi.__file__).startswith(ROOT), mbi.__file__

failures = []
lines = []

def check(ok, msg):
    if not ok:
        failures.append(msg)

def record(tag, value):
    lines.append('%s %.6f' % (tag, value))

def dense(Q):
    if sparse.issparse(Q):
        return Q.toarray()
    if isinstance(Q, np.ndarray):
        return Q
    return Q.dot(np.eye(Q.shape[1]))

def reference_total(measurements):
    """ inverse-variance weighted combination, dense linear algebra only """
    est, var = [], []
    for Q, y, noise, proj in measurements:
        A = dense(Q)
        o = np.ones(A.shape[1])
        v = np.linalg.pinv(A.T).dot(o)
        if np.allclose(A.T.dot(v), o):
            est.append(v.dot(y))
            var.append(noise**2 * v.dot(v))
    if not est:
        return 1
    est, var = np.array(est), np.array(var)
    return max(1, np.sum(est / var) / np.sum(1.0 / var))

def queries(kind, n, prng):
    if kind == 'identity': return sparse.eye(n, format='csr')
    if kind == 'scaled':   return 2.5 * sparse.eye(n, format='csr')
    if kind == 'prefix':   return np.tril(np.ones((n, n)))
    if kind == 'random':   return 0.1 * prng.normal(size=(n, n)) + 3 * np.eye(n)
    if kind == 'operator': return aslinearoperator(np.triu(np.ones((n, n))))
    if kind == 'deficient':  # differences of neighbouring cells: ones is not in the row space
        return (np.eye(n) - np.eye(n, k=1))[:-1]
    raise ValueError(kind)

prng = np.random.RandomState(20261004)
domain = Domain(['A', 'B', 'C', 'D'], [4, 3, 5, 1])
N = 137
data = Dataset(pd.DataFrame({a: prng.randint(0, n, N) for a, n in zip(domain.attrs, domain.shape)}), domain)

def measure(proj, kind, noise, exact=False):
    x = data.project(proj).datavector()
    Q = queries(kind, x.size, prng)
    y = Q.dot(x)
    if not exact:
        y = y + prng.normal(scale=noise, size=y.size)
    return (Q, y, noise, proj)

def run(engine, measurements, total=None, method='MD'):
    with contextlib.redirect_stdout(io.StringIO()):
        model = engine.estimate(list(measurements), total=total, engine=method)
    return model

def sums_ok(model, tag):
    for cl in model.cliques:
        s = model.project(cl).datavector().sum()
        check(np.isclose(s, model.total, rtol=1e-6), '%s: answer on %s sums to %r, total is %r' % (tag, cl, s, model.total))

# 1. single calls, fresh engine each: every kind of query matrix, noise-free and noisy
plans = [
    [(('A',), 'identity', 1.0)],
    [(('A', 'B'), 'prefix', 2.0), (('C',), 'scaled', 0.5)],
    [(('B', 'C'), 'random', 3.0), (('A',), 'deficient', 0.1), (('D',), 'identity', 7.0)],
    [(('C',), 'operator', 1.5), (('A', 'C'), 'identity', 4.0)],
    [(('A',), 'deficient', 1.0), (('C',), 'deficient', 1.0)],
]
for i, plan in enumerate(plans):
    for exact in (True, False):
        ms = [measure(p, k, s, exact) for p, k, s in plan]
        model = run(FactoredInference(domain, iters=3), ms)
        ref = reference_total(ms)
        tag = 'single[%d,%s]' % (i, 'exact' if exact else 'noisy')
        check(np.isclose(model.total, ref, rtol=1e-6), '%s: total %r, reference %r' % (tag, model.total, ref))
        if exact and i != 4:
            check(np.isclose(model.total, N, rtol=1e-6), '%s: noise-free total %r, N = %d' % (tag, model.total, N))
        sums_ok(model, tag)
        record(tag, model.total)

# 2. one engine, a growing list of noisy measurements (the way AIM drives the engine)
rounds = [
    (('A',), 'identity', 6.0), (('B',), 'identity', 6.0), (('A', 'B'), 'prefix', 1.0),
    (('C',), 'scaled', 0.7), (('B', 'C'), 'random', 2.0), (('A',), 'deficient', 0.2),
]
for warm in (False, True):
    for method in ('MD', 'RDA'):
        engine = FactoredInference(domain, iters=3, warm_start=warm)
        ms = []
        for t, (p, k, s) in enumerate(rounds):
            ms.append(measure(p, k, s))
            model = run(engine, ms, method=method)
            ref = reference_total(ms)
            tag = 'grow[warm=%s,%s,call %d]' % (warm, method, t + 1)
            check(np.isclose(model.total, ref, rtol=1e-6),
                  '%s: total %r is not the inverse-variance combination of the %d measurements of this call (%r)'
                  % (tag, model.total, len(ms), ref))
            sums_ok(model, tag)
            record(tag, model.total)

# 3. one engine, unrelated measurement sets one after the other, noise-free: always N
engine = FactoredInference(domain, iters=3)
run(engine, [measure(('A',), 'identity', 1.0)])                 # a noisy call first
for t, (p, k, s) in enumerate(rounds[:5]):
    model = run(engine, [measure(p, k, s, exact=True)])
    tag = 'reuse[call %d]' % (t + 1)
    check(np.isclose(model.total, N, rtol=1e-6), '%s: noise-free total %r, N = %d' % (tag, model.total, N))
    record(tag, model.total)

# 4. a supplied total is used exactly, before and after a call that estimated one
engine = FactoredInference(domain, iters=3, warm_start=True)
ms = [measure(('A', 'B'), 'identity', 2.0), measure(('C',), 'prefix', 1.0)]
for t, total in enumerate([1.0, None, 0.25, 1234.5, None, 7]):
    model = run(engine, ms, total=total)
    want = reference_total(ms) if total is None else total
    tag = 'given[%d]' % t
    check(model.total == total if total is not None else np.isclose(model.total, want, rtol=1e-6),
          '%s: total %r, wanted %r' % (tag, model.total, want))
    sums_ok(model, tag)
    record(tag, model.total)

# 5. nothing can express the count: 1, also after a call that could
engine = FactoredInference(domain, iters=3)
run(engine, [measure(('A',), 'identity', 1.0)])
model = run(engine, [measure(('A',), 'deficient', 1.0)])
check(model.total == 1, 'fallback: total %r, wanted 1' % model.total)
record('fallback', model.total)

digest = hashlib.sha256('\n'.join(lines).encode()).hexdigest()
if failures:
    print('FAIL: %d check(s) failed' % len(failures))
    for f in failures[:12]:
        print('  -', f)
    sys.exit(1)
print('\n'.join(lines))
print('PASS', len(lines), 'totals, digest', digest)

import os, sys, hashlib
ROOT = os.path.dirname(os.path.dirname(os.path.dirname(os.path.abspath(__file__))))
sys.path.insert(0, os.path.join(ROOT, 'src'))
import numpy as np
from scipy import sparse
from mbi import Domain, Dataset, LocalInference
from mbi.factor_graph import FactorGraph

def make_data(seed, shape, n):
    rng = np.random.RandomState(seed)
    attrs = ['a', 'b', 'c', 'd'][:len(shape)]
    dom = Domain(attrs, shape)
    import pandas as pd
    df = pd.DataFrame({a: rng.randint(0, k, n) for a, k in zip(attrs, shape)})
    return Dataset(df, dom)

def measure(data, cliques, sigma, rng):
    ms = []
    for cl in cliques:
        x = data.project(cl).datavector()
        y = x + (rng.normal(0, sigma, x.size) if sigma > 0 else 0)
        ms.append((sparse.eye(x.size), y, max(sigma, 1.0), cl))
    return ms

lines, bad = [], []

def check(tag, model, projs):
    for p in projs:
        s = float(model.project(p).datavector().sum())
        lines.append('%s %s total=%.6f sum=%.6f' % (tag, p, model.total, s))
        if abs(s - model.total) > 1e-6 * max(1, model.total):
            bad.append('%s: project(%s) sums to %.6f but model.total is %.6f' % (tag, p, s, model.total))

cliques = [('a', 'b'), ('b', 'c'), ('a', 'c')]
projs = [('a',), ('b',), ('c',), ('a', 'b'), ('c', 'b'), ('a', 'b', 'c')]
for seed, shape, n, oracle in [(0, (2, 3, 4), 57, 'pairwise'), (1, (3, 1, 2), 200, 'pairwise'), (2, (4, 4, 3), 1, 'pairwise')]:
    data = make_data(seed, shape, n)
    rng = np.random.RandomState(100 + seed)
    # 1. total estimated from noise-free measurements
    eng = LocalInference(data.domain, marginal_oracle=oracle, iters=30, log=False)
    model = eng.estimate(measure(data, cliques, 0, rng), total=None)
    lines.append('estimated total %.6f (N=%d)' % (model.total, n))
    if abs(model.total - n) > 1e-6 * n: bad.append('estimated total %r != N=%d' % (model.total, n))
    check('est/%s/%d' % (oracle, seed), model, projs)
    # 2. supplied total is used exactly
    eng = LocalInference(data.domain, marginal_oracle=oracle, iters=30, log=False)
    model = eng.estimate(measure(data, cliques, 2.0, rng), total=123.5)
    if model.total != 123.5: bad.append('supplied total not used exactly')
    check('given/%s/%d' % (oracle, seed), model, projs)
    # 3. a fitted model re-scaled to a different population size: every answer follows model.total
    model.total = 1000.0
    check('rescaled/%s/%d' % (oracle, seed), model, projs)
    # 4. a pre-built oracle object re-used by the engine (LocalInference sets oracle.total itself)
    fg = model
    eng = LocalInference(data.domain, marginal_oracle=fg, iters=1, log=False)
    try:
        m2 = eng.estimate(measure(data, cliques, 0, rng), total=None)
        check('reused/%s/%d' % (oracle, seed), m2, projs)
    except Exception as e:
        lines.append('reused/%s/%d raised %s' % (oracle, seed, type(e).__name__))

if bad:
    print('FAIL')
    for b in bad[:10]: print('  ' + b)
    sys.exit(1)
print('PASS')
print('\n'.join(lines))
print(hashlib.sha256('\n'.join(lines).encode()).hexdigest())

"""
C09 / pair 1 -- FactoredInference.estimate: how `total` travels from the public entry
point to the engines.

Checked clauses (sequence of calls in ONE process, several engine objects):
  * a supplied total is used exactly (model.total and the sum of model answers);
  * an OMITTED total is the inverse-variance weighted combination of the linear estimates
    of the measurements that can express the count, at least 1 -- independently of what an
    EARLIER call (same or different FactoredInference object, same or different options
    dict) was given as total.
"""
import os, sys, io, contextlib, hashlib, warnings
ROOT = os.path.dirname(os.path.dirname(os.path.dirname(os.path.abspath(__file__))))
sys.path.insert(0, os.path.join(ROOT, 'src'))
warnings.simplefilter('ignore')

import numpy as np
from scipy import sparse
from scipy.sparse.linalg import aslinearoperator
import mbi
from mbi import Domain, FactoredInference

assert os.path.abspath(mbi.__file__).startswith(os.path.join(ROOT, 'src')), mbi.__file__

dom = Domain(['a', 'b', 'c'], [3, 4, 2])
rng = np.random.RandomState(20240909)
N = 137
records = np.stack([rng.randint(0, n, N) for n in dom.shape], axis=1)


def hist(proj):
    idx = [dom.attrs.index(p) for p in proj]
    shape = [dom.shape[i] for i in idx]
    h = np.zeros(shape)
    for r in records:
        h[tuple(r[idx])] += 1
    return h.flatten()


def prefix(n):
    return np.tril(np.ones((n, n)))


def reference_total(measurements):
    """ independent dense re-computation of the documented estimator """
    var, est = [], []
    for Q, y, noise, proj in measurements:
        n = int(np.prod([dom.shape[dom.attrs.index(p)] for p in proj]))
        D = np.eye(n) if Q is None else (Q.toarray() if sparse.issparse(Q) else np.asarray(Q @ np.eye(n)))
        v = np.linalg.lstsq(D.T, np.ones(n), rcond=None)[0]
        if np.allclose(D.T @ v, 1):
            var.append(noise ** 2 * v @ v)
            est.append(v @ y)
    if not est:
        return 1
    var, est = np.array(var), np.array(est)
    return max(1, np.sum(est / var) / np.sum(1 / var))


rs = np.random.RandomState(7)
R = 0.2 * rs.rand(9, 8) + 2 * np.eye(9)[:, :8]                # random, full column rank
O = 3 * np.linalg.qr(rs.randn(13, 12))[0]                     # random, scaled orthonormal columns
TI = sparse.csr_matrix(np.vstack([np.ones((1, 4)), np.eye(4)]))   # total query stacked on identity
noisefree = [
    (None, hist(('a',)), 1.0, ('a',)),
    (2.5 * np.eye(12), 2.5 * hist(('a', 'b')), 4.0, ('a', 'b')),
    (sparse.csr_matrix(prefix(4)), prefix(4) @ hist(('b',)), 2.0, ('b',)),
    (R, R @ hist(('b', 'c')), 0.5, ('b', 'c')),
]
noisy = [
    (prefix(3), prefix(3) @ hist(('a',)) + rng.normal(0, 5.0, 3), 5.0, ('a',)),
    (R, R @ hist(('b', 'c')) + rng.normal(0, 1.0, 9), 1.0, ('b', 'c')),
    (TI, TI @ hist(('b',)) + rng.normal(0, 3.0, 5), 3.0, ('b',)),
    (aslinearoperator(O), O @ hist(('a', 'b')) + rng.normal(0, 20.0, 13), 20.0, ('a', 'b')),
]
deficient = [   # neither query set has the all-ones vector in its row space
    (np.array([[1.0, 0, 0], [0, 1.0, 0]]), hist(('a',))[:2], 1.0, ('a',)),
    (np.array([[1.0, -1.0]]), np.array([3.0]), 1.0, ('c',)),
]
small = [(np.eye(2), np.array([0.2, 0.1]), 1.0, ('c',))]       # estimate 0.3  ->  clamp to 1

lines, failures = [], []


def run(label, eng, measurements, expected, exact, **kw):
    with contextlib.redirect_stdout(io.StringIO()):
        model = eng.estimate(measurements, **kw)
    sums = [float(model.project(p).datavector().sum()) for p in [('a',), ('b', 'c'), ('a', 'c')]]
    lines.append('%-34s total=%.9g sums=%s' % (label, model.total, ' '.join('%.6g' % s for s in sums)))
    ok = (model.total == expected) if exact else abs(model.total - expected) <= 1e-6 * max(1, abs(expected))
    if not ok:
        failures.append('%s: model.total = %r, expected %r' % (label, float(model.total), float(expected)))
    for s in sums:
        if abs(s - model.total) > 1e-6 * max(1, abs(model.total)):
            failures.append('%s: a model answer sums to %r but model.total = %r' % (label, s, model.total))


A = FactoredInference(dom, iters=25)
B = FactoredInference(dom, iters=25, warm_start=True)
C = FactoredInference(dom, iters=25)
opts = {'stepsize': None}

# 1. fresh process, total omitted
run('A omitted/noise-free MD', A, noisefree, N, False)
run('A omitted/noisy MD', A, noisy, reference_total(noisy), False)
# 2. caller supplies totals (different engines / engine objects / an explicit options dict)
run('B supplied 500 MD', B, noisy, 500, True, total=500)
run('B supplied 0.5 RDA', B, noisefree, 0.5, True, total=0.5, engine='RDA')
run('C supplied 321 MD + own options', C, noisy, 321, True, total=321, options=opts)
# 3. ... and later calls omit it again
run('B omitted/noisy MD', B, noisy, reference_total(noisy), False)
run('A omitted/noise-free IG', A, noisefree, N, False, engine='IG')
run('C omitted/noisy MD + own options', C, noisy, reference_total(noisy), False, options=opts)
run('new omitted/noise-free RDA', FactoredInference(dom, iters=25), noisefree, N, False, engine='RDA')
run('new omitted/rank-deficient MD', FactoredInference(dom, iters=25), deficient, 1, True)
run('new omitted/estimate<1 MD', FactoredInference(dom, iters=25), small, 1, True)
# 4. supplied again after omitted
run('A supplied 64 IG', A, noisy, 64, True, total=64, engine='IG')
run('A omitted/noisy MD (again)', A, noisy + noisefree, reference_total(noisy + noisefree), False)

print('\n'.join(lines))
print('digest', hashlib.sha256('\n'.join(lines).encode()).hexdigest()[:16])
if failures:
    print('FAIL: the total used by the model is not the one the property prescribes:')
    for f in failures:
        print('  -', f)
    sys.exit(1)
print('PASS')

"""
C09 / pair 2 -- LocalInference._setup: where the "at least 1" clamp of the ESTIMATED total lives.

Checked clauses, for every marginal oracle usable without cvxopt ('convex', 'approx',
'pairwise', and a caller-built FactorGraph object):
  * a supplied total -- large, 1, 1.0, and totals BELOW one (0.999, 0.25, 1e-3: normalised
    sub-populations / fractional weights) -- is used exactly: model.total and the sum of
    every model answer;
  * an omitted total is the inverse-variance weighted linear estimate, clamped to >= 1,
    and 1 when no measurement can express the overall count.
"""
import os, sys, io, contextlib, hashlib, warnings
ROOT = os.path.dirname(os.path.dirname(os.path.dirname(os.path.abspath(__file__))))
sys.path.insert(0, os.path.join(ROOT, 'src'))
warnings.simplefilter('ignore')

import numpy as np
from scipy import sparse
from scipy.sparse.linalg import aslinearoperator
import mbi
from mbi import Domain, LocalInference, FactorGraph

assert os.path.abspath(mbi.__file__).startswith(os.path.join(ROOT, 'src')), mbi.__file__

dom = Domain(['a', 'b', 'c'], [3, 4, 2])
rng = np.random.RandomState(424242)
N = 211
records = np.stack([rng.randint(0, n, N) for n in dom.shape], axis=1)


def hist(proj):
    idx = [dom.attrs.index(p) for p in proj]
    h = np.zeros([dom.shape[i] for i in idx])
    for r in records:
        h[tuple(r[idx])] += 1
    return h.flatten()


def prefix(n):
    return np.tril(np.ones((n, n)))


def reference_total(measurements):
    """ independent dense re-computation of the documented estimator """
    var, est = [], []
    for Q, y, noise, proj in measurements:
        n = Q.shape[1]
        D = Q.toarray() if sparse.issparse(Q) else np.asarray(Q @ np.eye(n))
        v = np.linalg.lstsq(D.T, np.ones(n), rcond=None)[0]
        if np.allclose(D.T @ v, 1):
            var.append(noise ** 2 * v @ v)
            est.append(v @ y)
    if not est:
        return 1
    var, est = np.array(var), np.array(est)
    return max(1, np.sum(est / var) / np.sum(1 / var))


rs = np.random.RandomState(11)
R = 0.2 * rs.rand(9, 8) + 2 * np.eye(9)[:, :8]                # random, full column rank
O = 3 * np.linalg.qr(rs.randn(13, 12))[0]                     # random, scaled orthonormal columns
TI = sparse.csr_matrix(np.vstack([np.ones((1, 4)), np.eye(4)]))   # total query stacked on identity


def scaled(f, noise=False):
    """ measurements of the dataset re-weighted so that it has f*N 'records' """
    e = (lambda s, k: rng.normal(0, s, k)) if noise else (lambda s, k: np.zeros(k))
    return [
        (prefix(3), prefix(3) @ hist(('a',)) * f + e(2.0, 3), 2.0, ('a',)),
        (R, R @ hist(('b', 'c')) * f + e(1.0, 9), 1.0, ('b', 'c')),
        (TI, TI @ hist(('b',)) * f + e(3.0, 5), 3.0, ('b',)),
        (aslinearoperator(O), O @ hist(('a', 'b')) * f + e(8.0, 13), 8.0, ('a', 'b')),
    ]


deficient = [   # the all-ones vector is in the row space of neither query set
    (np.array([[1.0, 0, 0], [0, 1.0, 0]]), hist(('a',))[:2], 1.0, ('a',)),
    (np.array([[1.0, -1.0]]), np.array([3.0]), 1.0, ('c',)),
    (np.eye(12)[:7], hist(('a', 'b'))[:7], 1.0, ('a', 'b')),
]

lines, failures = [], []
PROJ = [('a',), ('b', 'c'), ('a', 'b'), ('c',)]


def run(label, oracle, measurements, expected, exact, total=None):
    cliques = [m[3] for m in measurements]
    if oracle == 'object':
        oracle = FactorGraph(dom, cliques, iters=3)
        oracle.potentials = mbi.CliqueVector.zeros(dom, oracle.cliques)
    eng = LocalInference(dom, iters=15, marginal_oracle=oracle, inner_iters=3)
    with contextlib.redirect_stdout(io.StringIO()):
        model = eng.estimate(measurements, total=total)
    sums = [float(model.project(p).datavector().sum()) for p in PROJ if any(set(p) <= set(c) for c in cliques)]
    lines.append('%-40s total=%.9g sums=%s' % (label, model.total, ' '.join('%.6g' % s for s in sums)))
    ok = (model.total == expected) if exact else abs(model.total - expected) <= 1e-6 * max(1, abs(expected))
    if not ok:
        failures.append('%s: model.total = %r, expected %r' % (label, float(model.total), float(expected)))
    bad = [s for s in sums if abs(s - expected) > 1e-6 * max(1, abs(expected))]
    if bad:
        failures.append('%s: %d model answers do not sum to the expected total %r, e.g. %r' % (label, len(bad), float(expected), bad[0]))


for oracle in ['convex', 'approx', 'pairwise', 'object']:
    # total omitted
    m = scaled(1.0)
    run('%s omitted noise-free' % oracle, oracle, m, N, False)
    m = scaled(1.0, noise=True)
    run('%s omitted noisy' % oracle, oracle, m, reference_total(m), False)
    m = scaled(0.002, noise=False)                     # linear estimate 0.422 -> clamped
    run('%s omitted estimate<1' % oracle, oracle, m, 1, True)
    run('%s omitted rank-deficient' % oracle, oracle, deficient, 1, True)
    # total supplied
    for t in [5000, 211.5, 1, 1.0]:
        m = scaled(t / N, noise=True)
        run('%s supplied %r' % (oracle, t), oracle, m, t, True, total=t)
    for t in [0.999, 0.25, 1e-3]:
        m = scaled(t / N)                              # exact answers of a dataset of weight t
        run('%s supplied %r' % (oracle, t), oracle, m, t, True, total=t)

print('\n'.join(lines))
print('digest', hashlib.sha256('\n'.join(lines).encode()).hexdigest()[:16])
if failures:
    print('FAIL: a total supplied by the caller / the estimated total is not what the property prescribes:')
    for f in failures:
        print('  -', f)
    sys.exit(1)
print('PASS')

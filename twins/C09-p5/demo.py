"""C09 / pair 1 -- a supplied (or estimated) total must be the mass of EVERY model answer,
also when the measured cliques do not form a connected graph.

Site: src/mbi/junction_tree.py :: JunctionTree._make_tree (edges of the clique graph that
the spanning tree is taken from).  GraphicalModel.belief_propagation normalises all clique
beliefs with the log-partition function read off ONE clique; that is only right when the
message passing order links every clique to every other one (empty separators included).

exit 0 + "PASS <digest>" when every answer carries the total, exit 1 + "FAIL ..." otherwise.
"""
import os, sys, hashlib, warnings, io, contextlib

ROOT = os.path.dirname(os.path.dirname(os.path.dirname(os.path.abspath(__file__))))
sys.path.insert(0, os.path.join(ROOT, 'src'))
sys.path.insert(1, ROOT)
warnings.simplefilter('ignore')

import numpy as np
import mbi
assert os.path.abspath(mbi.__file__).startswith(os.path.join(ROOT, 'src')), mbi.__file__
from mbi import Domain, Dataset, Factor, CliqueVector, GraphicalModel, FactoredInference

RTOL = 1e-6
lines = []      # deterministic record of everything observed
problems = []   # violations of the property


def record(tag, values):
    values = np.atleast_1d(np.asarray(values, dtype=float))
    lines.append('%s %s' % (tag, ' '.join('%.6f' % v for v in values)))


def check_mass(tag, got, want):
    record(tag, [got, want])
    if not np.isfinite(got) or abs(got - want) > RTOL * max(1.0, abs(want)):
        problems.append('%s: answer has mass %.6f but the total is %.6f' % (tag, got, want))


def answers(model, projections):
    """ every way the library offers to ask the model for a marginal """
    out = {}
    for proj in projections:
        out[proj] = model.project(proj)
    return out


def quiet(fn, *args, **kwargs):
    with contextlib.redirect_stdout(io.StringIO()):
        return fn(*args, **kwargs)


def run_inference(tag, domain, data, cliques, total, engine, projections, noise=0.0, seed=0):
    prng = np.random.RandomState(seed)
    measurements = []
    for cl in cliques:
        x = data.project(cl).datavector()
        y = x + noise * prng.normal(size=x.size)
        measurements.append((np.eye(x.size), y, 1.0, cl))
    eng = FactoredInference(domain, iters=40, log=False)
    model = quiet(eng.estimate, measurements, total=total, engine=engine)
    want = total if total is not None else data.records
    if total is not None and model.total != total:
        problems.append('%s: model.total is %r, caller supplied %r' % (tag, model.total, total))
    check_mass(tag + ' model.total', float(model.total), float(want))
    for proj, mu in answers(model, projections).items():
        check_mass('%s project%s' % (tag, ''.join(proj) or '()'), float(mu.sum()), float(model.total))
    dv = model.datavector()
    check_mass(tag + ' datavector', float(dv.sum()), float(model.total))
    record(tag + ' cells', dv[:: max(1, dv.size // 7)])


def run_model(tag, domain, cliques, total, seed):
    """ no optimisation at all: a GraphicalModel with arbitrary potentials """
    prng = np.random.RandomState(seed)
    model = GraphicalModel(domain, cliques, total=total)
    pots = {cl: Factor(domain.project(cl), 3 * prng.rand(domain.size(cl))) for cl in model.cliques}
    model.potentials = CliqueVector(pots)
    mu = model.belief_propagation(model.potentials)
    for cl in model.cliques:
        check_mass('%s bp%s' % (tag, ''.join(cl)), float(mu[cl].sum()), float(total))
    model.marginals = mu
    for a in domain.attrs:
        check_mass('%s project(%s)' % (tag, a), float(model.project((a,)).sum()), float(total))
    check_mass(tag + ' datavector', float(model.datavector().sum()), float(total))
    ones = [np.ones((1, n)) for n in domain.shape]
    check_mass(tag + ' krondot', float(np.sum(model.krondot(ones))), float(total))


def main():
    np.random.seed(20240509)
    domain = Domain(['a', 'b', 'c', 'd', 'e'], [2, 3, 4, 3, 2])
    data = Dataset.synthetic(domain, 1000)

    chain = [('a', 'b'), ('b', 'c'), ('c', 'd'), ('d', 'e')]
    split = [('a', 'b'), ('c', 'd')]                  # two components, 'e' never measured
    singles = [('a',), ('b',), ('c',), ('d',)]         # as in test_inference, but total != 1
    proj_chain = [('a', 'b'), ('c',), ('d', 'e'), ('a', 'e')]
    proj_split = [('a', 'b'), ('c', 'd'), ('c',), ('e',), ('a', 'c'), ('b', 'e')]
    proj_single = [('a',), ('b',), ('c',), ('d',), ('e',), ('a', 'd')]

    # connected measurement sets
    run_inference('chain/MD/known', domain, data, chain, 1000, 'MD', proj_chain)
    run_inference('chain/RDA/known', domain, data, chain, 640.0, 'RDA', proj_chain)
    run_inference('chain/MD/unknown', domain, data, chain, None, 'MD', proj_chain)

    # measurement sets whose cliques do NOT form a connected graph
    for engine in ['MD', 'RDA', 'IG']:
        run_inference('split/%s/known' % engine, domain, data, split, 777, engine, proj_split, noise=5.0)
    run_inference('split/MD/unknown', domain, data, split, None, 'MD', proj_split)
    run_inference('singles/MD/known', domain, data, singles, 1000.0, 'MD', proj_single, noise=2.0)
    run_inference('singles/IG/unknown', domain, data, singles, None, 'IG', proj_single)

    # plain models, arbitrary potentials
    run_model('model/chain', domain, chain, 10.0, 1)
    run_model('model/split', domain, split, 10.0, 2)
    run_model('model/singles', domain, singles, 250, 3)
    run_model('model/mixed', domain, [('a', 'b'), ('b', 'c'), ('e',)], 42.0, 4)

    digest = hashlib.sha256('\n'.join(lines).encode()).hexdigest()
    if problems:
        print('FAIL: %d model answers do not carry the total (known totals are not honoured)' % len(problems))
        for p in problems[:12]:
            print('  ' + p)
        if len(problems) > 12:
            print('  ... %d more' % (len(problems) - 12))
        print('Cause: the junction tree is a forest, so belief propagation normalises the cliques of')
        print('       one component with the partition function of another component.')
        return 1
    print('PASS %d checks, digest %s' % (len(lines), digest))
    for l in lines:
        print(l)
    return 0


if __name__ == '__main__':
    sys.exit(main())

"""C09 / pair 2 -- LocalInference must hand the total (supplied by the caller, or estimated
from the measurements when omitted) to WHATEVER marginal oracle it works with: one of the
four named oracles it builds itself, or a ready-made RegionGraph / FactorGraph object that
the caller passed as `marginal_oracle` and that is re-used, with its state, by every call.

Site: src/mbi/local_inference.py :: LocalInference._setup (choice of the marginal oracle).

exit 0 + "PASS <digest>" when model.total and the mass of every answer are right,
exit 1 + "FAIL ..." otherwise.
"""
import os, sys, hashlib, warnings, io, contextlib

ROOT = os.path.dirname(os.path.dirname(os.path.dirname(os.path.abspath(__file__))))
sys.path.insert(0, os.path.join(ROOT, 'src'))
sys.path.insert(1, ROOT)
warnings.simplefilter('ignore')

import numpy as np
import mbi
assert os.path.abspath(mbi.__file__).startswith(os.path.join(ROOT, 'src')), mbi.__file__
from mbi import Domain, Dataset, CliqueVector, RegionGraph, FactorGraph, LocalInference

RTOL = 1e-6
lines = []
problems = []

DOMAIN = Domain(['a', 'b', 'c', 'd'], [3, 4, 2, 3])
CLIQUES = [('a', 'b'), ('b', 'c'), ('c', 'd')]
PROJECTIONS = [('a', 'b'), ('b', 'c'), ('c', 'd'), ('b',), ('d',), ('a', 'c')]


def record(tag, values):
    values = np.atleast_1d(np.asarray(values, dtype=float))
    lines.append('%s %s' % (tag, ' '.join('%.6f' % v for v in values)))


def close(got, want):
    return np.isfinite(got) and abs(got - want) <= RTOL * max(1.0, abs(want))


def measure(data, noise, seed, prefix=False):
    prng = np.random.RandomState(seed)
    out = []
    for i, cl in enumerate(CLIQUES):
        x = data.project(cl).datavector()
        Q = np.eye(x.size)
        if prefix and i % 2 == 0:
            Q = np.tril(np.ones((x.size, x.size)))      # prefix sums: full rank, not the identity
        sigma = 1.0 + i
        y = Q.dot(x) + noise * sigma * prng.normal(size=x.size)
        out.append((Q, y, sigma, cl))
    return out


def blue(measurements):
    """ reference: inverse-variance combination of the per-measurement linear estimates """
    est, var = [], []
    for Q, y, sigma, _ in measurements:
        v = np.linalg.lstsq(Q.T, np.ones(Q.shape[1]), rcond=None)[0]
        est.append(v.dot(y)); var.append(sigma ** 2 * v.dot(v))
    est, var = np.array(est), np.array(var)
    return max(1.0, float(np.sum(est / var) / np.sum(1.0 / var)))


def estimate(tag, engine, measurements, total):
    with contextlib.redirect_stdout(io.StringIO()):
        model = engine.estimate(measurements, total=total)
    want = float(total) if total is not None else blue(measurements)
    record(tag + ' model.total', [float(model.total), want])
    if total is not None and model.total != total:
        problems.append('%s: caller supplied total=%r but model.total is %r' % (tag, total, model.total))
    elif not close(float(model.total), want):
        problems.append('%s: total omitted, best linear estimate is %.6f but model.total is %r'
                        % (tag, want, model.total))
    for proj in PROJECTIONS:
        mass = float(model.project(proj).sum())
        record('%s project%s' % (tag, ''.join(proj)), [mass])
        if not close(mass, want):
            problems.append('%s: answer on %s has mass %.6f, expected %.6f' % (tag, ''.join(proj), mass, want))
    return model


def ready_made(kind, total=None):
    kwargs = {} if total is None else {'total': total}
    if kind == 'region-convex':
        return RegionGraph(DOMAIN, CLIQUES, convex=True, iters=1, **kwargs)
    if kind == 'region-approx':
        return RegionGraph(DOMAIN, CLIQUES, convex=False, iters=1, **kwargs)
    oracle = FactorGraph(DOMAIN, CLIQUES, convex=False, iters=1, **kwargs)
    oracle.potentials = CliqueVector.zeros(DOMAIN, oracle.cliques)
    return oracle


def main():
    np.random.seed(977)
    data = Dataset.synthetic(DOMAIN, 1000)
    exact = measure(data, 0.0, 1)
    exact_prefix = measure(data, 0.0, 2, prefix=True)
    noisy = measure(data, 3.0, 3, prefix=True)

    # 1. the four oracles LocalInference builds itself ('pairwise-convex' needs cvxopt: skipped)
    for name in ['convex', 'approx', 'pairwise']:
        eng = LocalInference(DOMAIN, marginal_oracle=name, iters=25, log=False)
        estimate('named/%s/known-int' % name, eng, exact, 1000)
        estimate('named/%s/known-float' % name, eng, noisy, 431.5)
        estimate('named/%s/unknown-exact' % name, eng, exact_prefix, None)
        estimate('named/%s/unknown-noisy' % name, eng, noisy, None)

    # 2. ready-made oracle objects, one engine re-used for a sequence of calls
    for kind in ['region-convex', 'region-approx', 'factor']:
        oracle = ready_made(kind)
        eng = LocalInference(DOMAIN, marginal_oracle=oracle, iters=25, log=False)
        m1 = estimate('object/%s/1-known' % kind, eng, exact, 500)
        m2 = estimate('object/%s/2-unknown-exact' % kind, eng, exact_prefix, None)
        m3 = estimate('object/%s/3-known' % kind, eng, noisy, 250.0)
        m4 = estimate('object/%s/4-unknown-noisy' % kind, eng, noisy, None)
        if not (m1 is oracle and m2 is oracle and m3 is oracle and m4 is oracle):
            problems.append('object/%s: the ready-made oracle was not the model returned' % kind)

    # 3. ready-made oracle that was constructed with a total of its own
    oracle = ready_made('region-convex', total=1000)
    eng = LocalInference(DOMAIN, marginal_oracle=oracle, iters=25, log=False)
    estimate('object/own-total/same', eng, exact, 1000)
    estimate('object/own-total/other', eng, exact, 400)

    digest = hashlib.sha256('\n'.join(lines).encode()).hexdigest()
    if problems:
        print('FAIL: %d violations: the total does not reach the marginal oracle' % len(problems))
        for p in problems[:12]:
            print('  ' + p)
        if len(problems) > 12:
            print('  ... %d more' % (len(problems) - 12))
        print('Cause: a marginal oracle passed as an object keeps the total it was constructed with')
        print('       (1.0 by default) instead of the supplied / estimated one.')
        return 1
    print('PASS %d observations, digest %s' % (len(lines), digest))
    for l in lines:
        print(l)
    return 0


if __name__ == '__main__':
    sys.exit(main())

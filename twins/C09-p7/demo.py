"""C09 / pair 1 -- FactorGraph.datavector must sum to the model total.

Clause exercised: "a total supplied by the caller is used exactly" (and an
estimated total likewise), observed at "sum of any model answer": the explicit
data vector of the FactorGraph that LocalInference(marginal_oracle='pairwise')
returns has to add up to model.total, also when some attribute of the domain
is not covered by any measured clique.

exit 0 + PASS + digest  : property holds on every case
exit 1 + FAIL + reasons : property violated
"""
import os
import sys
import hashlib
import warnings

HERE = os.path.abspath(__file__)
ROOT = os.path.dirname(os.path.dirname(os.path.dirname(HERE)))
sys.path.insert(0, os.path.join(ROOT, 'src'))
sys.path.insert(1, ROOT)
warnings.filterwarnings('ignore')

import numpy as np
from scipy import sparse
import mbi
from mbi import Domain, Factor, CliqueVector, FactorGraph, LocalInference

assert os.path.abspath(mbi.__file__).startswith(os.path.join(ROOT, 'src')), mbi.__file__

RTOL = 1e-9
failures = []
digest_lines = []


def note(name, values):
    values = np.atleast_1d(np.asarray(values, dtype=float))
    txt = ' '.join('%.8e' % v for v in values)
    digest_lines.append('%s %s' % (name, txt))


def check_sum(name, got, want):
    ok = np.isfinite(got) and abs(got - want) <= RTOL * max(1.0, abs(want))
    if not ok:
        failures.append('%s: answers add up to %.10g but the model total is %.10g'
                        % (name, got, want))
    return ok


def brute_force(domain, cliques, potentials, total):
    """ reference: normalise exp(sum of potentials) over the FULL domain """
    logp = np.zeros(domain.shape)
    for cl in cliques:
        logp = logp + potentials[cl].expand(domain).values
    p = np.exp(logp - logp.max())
    return p / p.sum() * total


def measurements_for(domain, cliques, x_full, prng, sigma):
    out = []
    for cl in cliques:
        ax = tuple(i for i, a in enumerate(domain.attrs) if a not in cl)
        mu = x_full.sum(axis=ax).flatten()
        y = mu + prng.normal(0, sigma, mu.size) if sigma > 0 else mu.copy()
        out.append((sparse.eye(mu.size), y, max(sigma, 1.0), cl))
    return out


def random_table(domain, n, prng):
    idx = [prng.randint(0, k, n) for k in domain.shape]
    x = np.zeros(domain.shape)
    np.add.at(x, tuple(idx), 1.0)
    return x


# ---------------------------------------------------------------------------
# part 1: FactorGraph objects with hand-set potentials
# ---------------------------------------------------------------------------
prng = np.random.RandomState(20240909)
hand_cases = [
    # (name, attrs, shape, cliques, total)
    ('covered-chain', 'abc', (2, 3, 4), [('a', 'b'), ('b', 'c')], 10.0),
    ('covered-single', 'ab', (3, 2), [('a', 'b')], 1.0),
    ('uncovered-last', 'abcd', (2, 3, 4, 3), [('a', 'b'), ('b', 'c')], 250.0),
    ('uncovered-first', 'abcd', (5, 2, 3, 2), [('b', 'c'), ('c', 'd')], 77.0),
    ('uncovered-two', 'abcde', (2, 2, 3, 2, 4), [('b', 'c')], 1000.0),
    ('uncovered-size1', 'abc', (3, 4, 1), [('a', 'b')], 42.0),
    ('uncovered-singleton-cliques', 'abc', (3, 4, 5), [('a',), ('b',)], 5.5),
]
for name, attrs, shape, cliques, total in hand_cases:
    domain = Domain(list(attrs), shape)
    fg = FactorGraph(domain, cliques, total, convex=False, iters=3)
    pot = {cl: Factor(domain.project(cl), prng.normal(0, 1, domain.project(cl).shape))
           for cl in cliques}
    fg.potentials = CliqueVector(pot)
    x = fg.datavector()
    xs = fg.datavector(flatten=False)
    ref = brute_force(domain, cliques, pot, total)
    check_sum('hand/%s' % name, float(x.sum()), total)
    if xs.shape != domain.shape or x.size != domain.size():
        failures.append('hand/%s: wrong shape %s' % (name, xs.shape))
    elif not np.allclose(xs, ref, rtol=1e-9, atol=1e-12 * total):
        failures.append('hand/%s: data vector differs from exp(sum of potentials) '
                        'normalised to the total (max abs err %.3g)'
                        % (name, np.abs(xs - ref).max()))
    note('hand/%s' % name, [x.sum(), x.max(), x.min(), float(np.dot(x, np.arange(x.size)))])

# ---------------------------------------------------------------------------
# part 2: models estimated by LocalInference with the factor-graph oracle
# ---------------------------------------------------------------------------
est_cases = [
    # (name, attrs, shape, measured cliques, N, sigma, total passed to estimate)
    ('est-covered-known', 'abc', (3, 4, 2), [('a', 'b'), ('b', 'c')], 137, 1.0, 137),
    ('est-covered-unknown', 'abc', (3, 4, 2), [('a', 'b'), ('b', 'c')], 137, 0.0, None),
    ('est-uncovered-known', 'abcd', (3, 4, 2, 3), [('a', 'b'), ('b', 'c')], 137, 1.0, 137),
    ('est-uncovered-known-float', 'abcd', (3, 4, 2, 3), [('a', 'b')], 60, 2.0, 61.25),
    ('est-uncovered-unknown', 'abcde', (2, 3, 2, 4, 2), [('b', 'c'), ('c', 'd')], 500, 0.0, None),
    ('est-uncovered-unknown-noisy', 'abcd', (4, 2, 3, 5), [('a',), ('a', 'b')], 80, 3.0, None),
]
for k, (name, attrs, shape, cliques, N, sigma, total) in enumerate(est_cases):
    prng = np.random.RandomState(1000 + k)
    domain = Domain(list(attrs), shape)
    x_full = random_table(domain, N, prng)
    ms = measurements_for(domain, cliques, x_full, prng, sigma)
    engine = LocalInference(domain, marginal_oracle='pairwise', iters=40, inner_iters=2)
    model = engine.estimate(ms, total=total)
    if total is not None and model.total != total:
        failures.append('%s: supplied total %r, model.total %r' % (name, total, model.total))
    if total is None and sigma == 0 and abs(model.total - N) > 1e-6 * N:
        failures.append('%s: noise-free total estimate %r, records %d' % (name, model.total, N))
    x = model.datavector()
    check_sum('%s/datavector' % name, float(x.sum()), float(model.total))
    for cl in cliques:
        check_sum('%s/project%s' % (name, cl), float(model.project(cl).datavector().sum()),
                  float(model.total))
    ref = brute_force(domain, model.cliques, model.potentials, model.total)
    if not np.allclose(x.reshape(domain.shape), ref, rtol=1e-8, atol=1e-11 * model.total):
        failures.append('%s: data vector differs from the normalised product of the '
                        'fitted potentials (max abs err %.3g)'
                        % (name, np.abs(x.reshape(domain.shape) - ref).max()))
    note(name, [model.total, x.sum(), x.max(), float(np.dot(x, np.arange(x.size)))])

# ---------------------------------------------------------------------------
if failures:
    print('FAIL')
    for f in failures:
        print('  -', f)
    sys.exit(1)
print('PASS')
for line in digest_lines:
    print(line)
print('sha256', hashlib.sha256('\n'.join(digest_lines).encode()).hexdigest())
sys.exit(0)

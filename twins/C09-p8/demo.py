"""C09 / pair 2 -- public_inference.estimate_total: which measurements count, and with what weight.

Clause exercised: with total omitted, the total is the inverse-variance
weighted combination of the unbiased linear estimates available from EXACTLY
those measurements whose queries can express the overall count (and at least
1); for noise-free measurements it equals the number of records whatever
full-rank query matrix (identity, scaled, diagonal, prefix, random, operator)
was used.

Every case is compared with a dense reference (pseudo-inverse solve of
Q^T v = 1, row-space test, inverse-variance combination).

exit 0 + PASS + digest  : property holds on every case
exit 1 + FAIL + reasons : property violated
"""
import os
import sys
import hashlib
import warnings

HERE = os.path.abspath(__file__)
ROOT = os.path.dirname(os.path.dirname(os.path.dirname(HERE)))
sys.path.insert(0, os.path.join(ROOT, 'src'))
sys.path.insert(1, ROOT)
warnings.filterwarnings('ignore')

import numpy as np
from scipy import sparse
from scipy.sparse.linalg import aslinearoperator
import mbi
from mbi import Domain, Dataset, PublicInference
from mbi.public_inference import estimate_total

assert os.path.abspath(mbi.__file__).startswith(os.path.join(ROOT, 'src')), mbi.__file__

RTOL = 1e-6
failures = []
digest_lines = []


def dense(Q):
    if sparse.issparse(Q):
        return np.asarray(Q.todense(), dtype=float)
    if isinstance(Q, np.ndarray):
        return Q.astype(float)
    return np.asarray(Q @ np.eye(Q.shape[1]), dtype=float)  # LinearOperator


def reference_total(measurements):
    """ returns (total, list of flags: measurement usable?) """
    est, var, used = [], [], []
    for Q, y, noise, _ in measurements:
        A = dense(Q)
        o = np.ones(A.shape[1])
        v = np.linalg.pinv(A.T) @ o
        ok = bool(np.allclose(A.T @ v, o, rtol=0, atol=1e-7))
        used.append(ok)
        if ok:
            est.append(float(v @ y))
            var.append(float(noise) ** 2 * float(v @ v))
    if not est:
        return 1.0, used
    est, var = np.array(est), np.array(var)
    w = 1.0 / var
    return max(1.0, float((w * est).sum() / w.sum())), used


def check(name, measurements, records=None):
    got = float(estimate_total(measurements))
    want, used = reference_total(measurements)
    line = '%s got=%.8e want=%.8e used=%s' % (name, got, want, ''.join('Y' if u else 'n' for u in used))
    digest_lines.append(line)
    if not (np.isfinite(got) and abs(got - want) <= RTOL * max(1.0, abs(want))):
        failures.append('%s: estimate_total gives %.10g, the best linear estimate from the '
                        'usable measurements (%s) is %.10g'
                        % (name, got, ''.join('Y' if u else 'n' for u in used), want))
    if records is not None and abs(got - records) > RTOL * records:
        failures.append('%s: noise-free measurements of %d records, estimated total %.10g'
                        % (name, records, got))
    return got


def histogram(n, N, prng):
    return np.bincount(prng.randint(0, n, N), minlength=n).astype(float)


def prefix(n):
    return np.tril(np.ones((n, n)))


# ---------------------------------------------------------------------------
# part 1: one noise-free measurement, many matrix forms and sizes
# ---------------------------------------------------------------------------
prng = np.random.RandomState(909)
for n in [1, 2, 3, 7, 16, 33, 64]:
    N = 50 + 3 * n
    x = histogram(n, N, prng)
    d = prng.uniform(0.5, 2.0, n)
    forms = [
        ('eye-dia', sparse.eye(n)),
        ('eye-dia-int', sparse.eye(n, dtype=int)),
        ('eye-csr', sparse.eye(n, format='csr')),
        ('eye-dense', np.eye(n)),
        ('eye-diags-of-ones', sparse.diags(np.ones(n))),
        ('scaled-eye-dia', 3.0 * sparse.eye(n)),
        ('scaled-eye-csr', sparse.eye(n, format='csr') * 0.25),
        ('diag-dia', sparse.diags(d)),
        ('diag-csr', sparse.diags(d).tocsr()),
        ('diag-dense', np.diag(d)),
        ('diag-operator', aslinearoperator(sparse.diags(d).tocsr())),
        ('prefix', prefix(n)),
        ('eye+prefix', np.vstack([np.eye(n), prefix(n)])),
        ('random', np.eye(n) + 0.3 * prng.normal(size=(n, n)) / np.sqrt(n)),
    ]
    for name, Q in forms:
        y = np.asarray(Q @ x, dtype=float).ravel()
        check('single/%s/n=%d' % (name, n), [(Q, y, 1.0, ('a',))], records=N)

# ---------------------------------------------------------------------------
# part 2: measurements that can NOT express the count must be left out
# ---------------------------------------------------------------------------
for n in [3, 8, 20]:
    N = 200
    x = histogram(n, N, prng)
    z = histogram(5, N, prng)
    good = (sparse.eye(5), z + prng.normal(0, 2.0, 5), 2.0, ('b',))
    d0 = np.ones(n); d0[n // 2] = 0.0
    bad_forms = [
        ('truncated-eye', sparse.eye(n - 1, n)),
        ('shifted-dia', sparse.eye(n, k=1)),
        ('diag-with-zero-dia', sparse.diags(d0)),
        ('first-difference', (np.eye(n) - np.eye(n, k=1))[:-1]),
    ]
    for name, Q in bad_forms:
        y = np.asarray(Q @ x, dtype=float).ravel()
        check('unusable-only/%s/n=%d' % (name, n), [(Q, y, 1.0, ('a',))])
        check('unusable+good/%s/n=%d' % (name, n), [(Q, y, 0.1, ('a',)), good])
check('empty', [])
check('below-one', [(sparse.eye(4), np.array([0.1, -0.2, 0.05, 0.0]), 1.0, ('a',))])

# ---------------------------------------------------------------------------
# part 3: several noisy measurements with different noise scales and forms
# ---------------------------------------------------------------------------
for k in range(6):
    prng = np.random.RandomState(4000 + k)
    N = 300 + 40 * k
    na, nb, nc = 4 + k, 6, 3 + 2 * k
    xa, xb, xc = histogram(na, N, prng), histogram(nb, N, prng), histogram(nc, N, prng)
    da = np.ones(na); da[-1] = 1.0 / np.sqrt(2.0 + k)        # "merged last cell", as MST builds
    Qa = sparse.diags(da)
    Qb = sparse.eye(nb)
    Qc = 2.0 * sparse.eye(nc)
    sa, sb, sc = 0.7 + 0.1 * k, 6.0, 2.5
    ms = [(Qa, Qa @ xa + prng.normal(0, sa, na), sa, ('a',)),
          (Qb, Qb @ xb + prng.normal(0, sb, nb), sb, ('b',)),
          (Qc, Qc @ xc + prng.normal(0, sc, nc), sc, ('c',))]
    check('mixed/%d' % k, ms)
    check('mixed-subset/%d' % k, ms[:2])

# ---------------------------------------------------------------------------
# part 4: the measurements MST really produces (mst.measure + mst.compress_domain)
# ---------------------------------------------------------------------------
try:
    sys.path.insert(2, '/tmp/stubs')
    from mechanisms import mst
except Exception as e:  # pragma: no cover
    mst = None
    digest_lines.append('mst unavailable')
if mst is not None:
    import pandas as pd
    for k in range(3):
        np.random.seed(77 + k)
        dom = Domain(['a', 'b', 'c'], [12, 9, 4])
        N = 400
        cols = {'a': np.random.choice(12, N, p=np.r_[np.full(4, 0.24), np.full(8, 0.005)]),
                'b': np.random.choice(9, N, p=np.r_[np.full(3, 0.32), np.full(6, 0.04 / 6)]),
                'c': np.random.randint(0, 4, N)}
        data = Dataset(pd.DataFrame(cols), dom)
        sigma = 4.0 + k
        log1 = mst.measure(data, [(c,) for c in dom], sigma)
        _, log2, _ = mst.compress_domain(data, log1)
        n_scaled = sum(1 for Q, _, _, _ in log2 if not np.all(Q.diagonal() == 1))
        digest_lines.append('mst/%d compressed measurements: %d of %d' % (k, n_scaled, len(log2)))
        check('mst/%d' % k, log2)
        check('mst-compressed-only/%d' % k,
              [m for m in log2 if not np.all(m[0].diagonal() == 1)] or log2)

# ---------------------------------------------------------------------------
# part 5: PublicInference end to end -- the released weights carry the total
# ---------------------------------------------------------------------------
prng = np.random.RandomState(5150)
np.random.seed(5150)
dom = Domain(['a', 'b'], [5, 4])
pub = Dataset.synthetic(dom, 40)
N = 230
xa, xb = histogram(5, N, prng), histogram(4, N, prng)
da = np.array([1.0, 1.0, 1.0, 1.0, 0.5])
ms = [(sparse.diags(da), da * xa + prng.normal(0, 1.0, 5), 1.0, ('a',)),
      (sparse.eye(4), xb + prng.normal(0, 5.0, 4), 5.0, ('b',))]
want, _ = reference_total(ms)
engine = PublicInference(pub)
est = engine.estimate(ms)
got = float(est.weights.sum())
digest_lines.append('public/unknown got=%.8e want=%.8e' % (got, want))
if abs(got - want) > RTOL * want:
    failures.append('public/unknown: released weights add up to %.10g, best linear '
                    'estimate of the total is %.10g' % (got, want))
est = engine.estimate(ms, total=222.5)        # engine re-used, total now supplied
got = float(est.weights.sum())
digest_lines.append('public/known got=%.8e' % got)
if abs(got - 222.5) > 1e-9 * 222.5:
    failures.append('public/known: supplied total 222.5, weights add up to %.10g' % got)

# ---------------------------------------------------------------------------
if failures:
    print('FAIL')
    for f in failures:
        print('  -', f)
    sys.exit(1)
print('PASS')
for line in digest_lines:
    print(line)
print('sha256', hashlib.sha256('\n'.join(digest_lines).encode()).hexdigest())
sys.exit(0)

"""C09 / round 7 / pair 1 -- PublicInference: results of successive estimate() calls.

A total supplied by the caller (or estimated when omitted) must be the sum of every
answer of the model returned by that call -- and it has to stay that way, whatever the
caller does with the engine afterwards (PublicInference keeps its weights between calls
as a warm start, so several results of one engine are alive at the same time).

Exit 0 + PASS + digest on a correct library, exit 1 + FAIL otherwise.
"""
import os, sys, hashlib, warnings

ROOT = os.path.dirname(os.path.dirname(os.path.dirname(os.path.abspath(__file__))))
sys.path.insert(0, ROOT)
sys.path.insert(0, os.path.join(ROOT, 'src'))
warnings.simplefilter('ignore')

import numpy as np
import pandas as pd
from scipy import sparse
from mbi import Domain, Dataset
from mbi.public_inference import PublicInference, entropic_mirror_descent, estimate_total

failures = []
lines = []

def check(cond, msg):
    if not cond:
        failures.append(msg)

def close(a, b, rel=1e-9):
    return abs(a - b) <= rel * max(1.0, abs(b))

def h(arr):
    return hashlib.sha256(np.round(np.asarray(arr, dtype=float), 6).tobytes()).hexdigest()[:12]

dom = Domain(['a', 'b', 'c'], [3, 4, 5])

def make_data(n, seed):
    rng = np.random.RandomState(seed)
    p = [rng.dirichlet(np.ones(k)) for k in dom.shape]
    df = pd.DataFrame({a: rng.choice(k, size=n, p=q) for a, k, q in zip(dom.attrs, dom.shape, p)})
    return Dataset(df, dom)

private = make_data(400, 1)
public = make_data(150, 2)
N = private.records

def measure(data, cliques, sigma, seed, kind='identity'):
    rng = np.random.RandomState(seed)
    ms = []
    for cl in cliques:
        x = data.project(cl).datavector()
        n = x.size
        if kind == 'identity':
            Q = sparse.eye(n)
        elif kind == 'prefix':
            Q = np.tril(np.ones((n, n)))
        else:
            Q = 0.5 * np.eye(n)
        y = Q @ x + (rng.normal(0, sigma, size=Q.shape[0]) if sigma > 0 else 0.0)
        ms.append((Q, y, max(sigma, 1.0), cl))
    return ms

def answers(est, cliques):
    return {cl: est.project(cl).datavector() for cl in cliques}

CL1 = [('a',), ('b',)]
CL2 = [('a', 'b'), ('c',)]
ALL = [('a',), ('b',), ('c',), ('a', 'b'), ('b', 'c')]

# ---------------------------------------------------------------- single calls
for name, ms, total in [
        ('supplied-250', measure(private, CL1, 2.0, 10), 250.0),
        ('supplied-N', measure(private, CL2, 2.0, 11), float(N)),
        ('supplied-0.5', measure(private, CL1, 2.0, 12), 0.5),
        ('omitted-noisefree', measure(private, CL1, 0.0, 13), None),
        ('omitted-noisy-scaled', measure(private, CL2, 3.0, 14, kind='scaled'), None),
        ('omitted-noisefree-prefix', measure(private, [('c',), ('b',)], 0.0, 15, kind='prefix'), None)]:
    eng = PublicInference(public)
    est = eng.estimate(ms, total=total)
    want = total if total is not None else estimate_total(ms)
    if total is None and 'noisefree' in name:
        check(close(want, N, 1e-6), '%s: noise-free estimate of the total is %r, expected %d' % (name, want, N))
    for cl, v in answers(est, ALL).items():
        check(close(v.sum(), want), '%s: answer on %s sums to %.6f, total is %.6f' % (name, cl, v.sum(), want))
    lines.append('single %-26s total=%.6f weights=%s' % (name, want, h(est.weights)))

# ------------------------------------------ several results of one engine alive
# the analyst first fits with the total left to the library, keeps that result, then
# measures more and re-fits with a total obtained elsewhere (and once more with None).
eng = PublicInference(public)
steps = [
    ('first/omitted', measure(private, CL1, 2.0, 20), None),
    ('second/supplied-300', measure(private, CL1, 2.0, 20) + measure(private, [('c',)], 2.0, 21), 300.0),
    ('third/supplied-N', measure(private, CL2, 1.0, 22), float(N)),
    ('fourth/omitted', measure(private, CL2, 1.0, 22) + measure(private, [('b', 'c')], 4.0, 23), None),
]
kept = []   # (name, result, total that call used, answers observed right after the call)
for name, ms, total in steps:
    est = eng.estimate(ms, total=total)
    want = total if total is not None else estimate_total(ms)
    now = answers(est, ALL)
    for cl, v in now.items():
        check(close(v.sum(), want), '%s: answer on %s sums to %.6f, total is %.6f' % (name, cl, v.sum(), want))
    kept.append((name, est, want, now))
    lines.append('chain  %-26s total=%.6f weights=%s' % (name, want, h(est.weights)))
    # every result handed out earlier must still describe the total of ITS call
    for name0, est0, want0, then in kept[:-1]:
        later = answers(est0, ALL)
        for cl in ALL:
            check(close(later[cl].sum(), want0),
                  'result of call %s: after the later call %s its answer on %s sums to %.6f, '
                  'but that call used total %.6f' % (name0, name, cl, later[cl].sum(), want0))
            check(np.array_equal(later[cl], then[cl]),
                  'result of call %s: its answer on %s changed when %s ran' % (name0, cl, name))
for name0, est0, want0, then in kept:
    lines.append('final  %-26s total=%.6f sum(a)=%.6f weights=%s' % (
        name0, want0, est0.project(('a',)).datavector().sum(), h(est0.weights)))

# ---------------------------------------------- the optimiser as a plain function
rng = np.random.RandomState(5)
target = rng.rand(12) * 10
def quad(w):
    d = w - target
    return 0.5 * float(d @ d), d
for total, iters in [(40.0, 250), (7.5, 30), (3.0, 0)]:
    x0 = rng.rand(12) + 0.1
    x0_before = x0.copy()
    out = entropic_mirror_descent(quad, x0, total, iters=iters)
    check(close(out.sum(), total), 'entropic_mirror_descent(total=%r, iters=%d): result sums to %.9f' % (total, iters, out.sum()))
    check(np.array_equal(x0, x0_before), 'entropic_mirror_descent(total=%r, iters=%d) overwrote the start point x0 of its caller' % (total, iters))
    lines.append('emd    total=%-6g iters=%-3d sum=%.6f out=%s' % (total, iters, out.sum(), h(out)))

if failures:
    print('FAIL (%d violations)' % len(failures))
    for f in failures[:12]:
        print('  -', f)
    if len(failures) > 12:
        print('  ... and %d more' % (len(failures) - 12))
    sys.exit(1)
print('PASS')
for l in lines:
    print(l)
print('digest', hashlib.sha256('\n'.join(lines).encode()).hexdigest()[:16])
sys.exit(0)

"""Equivalence demo for refactoring 2 (LocalInference._setup total estimation).

Prints a deterministic digest; must be byte-identical before/after the patch.
Run:  PYTHONPATH=<root>/src /venv/bin/python out/refactor2/demo.py
"""
import os
import sys
import warnings

ROOT = os.path.abspath(os.path.join(os.path.dirname(os.path.abspath(__file__)), '..', '..'))
sys.path.insert(0, os.path.join(ROOT, 'src'))
warnings.filterwarnings('ignore')

import numpy as np
from scipy import sparse
from scipy.sparse.linalg import aslinearoperator

import mbi
from mbi import Domain, Dataset, LocalInference, FactorGraph, RegionGraph

assert os.path.realpath(mbi.__file__).startswith(os.path.realpath(ROOT)), mbi.__file__


def query_matrices(n, rng):
    """name -> Q for a marginal with n cells"""
    qs = {}
    qs['identity'] = np.eye(n)
    qs['sparse_identity'] = sparse.eye(n, format='csr')
    qs['scaled'] = 3.5 * np.eye(n)
    qs['prefix'] = np.tril(np.ones((n, n)))
    qs['sparse_prefix'] = sparse.csr_matrix(np.tril(np.ones((n, n))))
    qs['random_square'] = rng.normal(size=(n, n))
    qs['random_tall'] = rng.normal(size=(2 * n + 1, n))
    qs['total_only'] = np.ones((1, n))
    qs['total_plus_cell'] = np.vstack([np.ones(n), np.eye(n)[0]])
    qs['op_identity'] = aslinearoperator(np.eye(n))
    qs['op_prefix'] = aslinearoperator(np.tril(np.ones((n, n))))
    qs['op_random'] = aslinearoperator(rng.normal(size=(n, n)))
    if n >= 2:
        # row space orthogonal to the ones vector
        qs['differences'] = np.eye(n)[:-1] - np.eye(n)[1:]
        qs['op_differences'] = aslinearoperator(np.eye(n)[:-1] - np.eye(n)[1:])
        qs['first_cell'] = np.eye(n)[:1]
    if n >= 3:
        qs['random_wide'] = rng.normal(size=(n // 2, n))
    return qs


def fmt(x):
    return '%s:%r' % (type(x).__name__, float(x))


# 'pairwise-convex' needs cvxopt, which is not installed
ORACLES = ['convex', 'approx', 'pairwise']


def main():
    rng = np.random.RandomState(777)
    np.random.seed(4321)
    attrs = ['a', 'b', 'c', 'd', 'e']
    shape = [1, 2, 3, 8, 4]
    domain = Domain(attrs, shape)
    data = Dataset.synthetic(domain, 211)

    projs = [('a',), ('b',), ('c',), ('d',), ('d', 'b'), ('c', 'e'), ('e', 'd'),
             ('d', 'c', 'b'), ('a', 'd'), ('e', 'b', 'd')]

    print('== 1. single measurement, every query family, noise-free and noisy')
    count = 0
    for proj in projs:
        x = data.project(proj).datavector()
        n = x.size
        for name, Q in sorted(query_matrices(n, rng).items()):
            for sigma, noisy in [(1.0, False), (0.25, False), (7.0, True)]:
                y = Q @ x
                if noisy:
                    y = y + sigma * rng.normal(size=y.size)
                oracle = ORACLES[count % 3]
                count += 1
                engine = LocalInference(domain, iters=1, marginal_oracle=oracle)
                engine._setup([(Q, y, sigma, proj)], None)
                print(proj, n, name, sigma, noisy, oracle, fmt(engine.model.total))

    print('== 2. heterogeneous noise, several measurements combined')
    for trial in range(12):
        measurements = []
        k = rng.randint(2, 6)
        for j in range(k):
            proj = projs[rng.randint(len(projs))]
            x = data.project(proj).datavector()
            qs = query_matrices(x.size, rng)
            name = sorted(qs)[rng.randint(len(qs))]
            Q = qs[name]
            sigma = float(10.0 ** rng.uniform(-2, 2))
            y = Q @ x + sigma * rng.normal(size=Q.shape[0])
            measurements.append((Q, y, sigma, proj))
        engine = LocalInference(domain, iters=1, marginal_oracle=ORACLES[trial % 3])
        engine._setup(measurements, None)
        print(trial, [(m[3], m[0].shape, round(m[2], 4)) for m in measurements], fmt(engine.model.total))
        engine._setup(measurements[::-1], None)
        print(trial, 'reversed', fmt(engine.model.total))

    print('== 3. tiny / negative estimates are clipped at 1; nothing usable gives 1')
    x = data.project(('d',)).datavector()
    D = np.eye(8)[:-1] - np.eye(8)[1:]
    cases = {
        'only_differences': [(D, D @ x, 1.0, ('d',))],
        'differences_then_identity': [(D, D @ x, 1.0, ('d',)), (np.eye(8), x + 1.0, 3.0, ('d',))],
        'identity_then_differences': [(np.eye(8), x + 1.0, 3.0, ('d',)), (D, D @ x, 1.0, ('d',))],
        'all_zero_answers': [(np.eye(8), np.zeros(8), 1.0, ('d',))],
        'negative_answers': [(np.eye(8), -x, 2.0, ('d',))],
        'fractional': [(np.eye(8), x / 1000.0, 2.0, ('d',))],
        'integer_y': [(np.eye(8), x.astype(int), 2.0, ('d',))],
        'integer_noise': [(np.eye(8), x, 2, ('d',)), (np.ones((1, 2)), np.array([100.0]), 3, ('b',))],
        'numpy_scalar_noise': [(np.eye(8), x, np.float32(1.5), ('d',)), (np.ones((1, 2)), np.array([100.0]), np.float64(3), ('b',))],
    }
    for name in sorted(cases):
        engine = LocalInference(domain, iters=1)
        engine._setup(cases[name], None)
        print(name, fmt(engine.model.total))

    print('== 4. supplied totals are used as given (string oracles and a pre-built oracle object)')
    for total in [1, 1.0, 7, 123.5, 0.5, 10 ** 6]:
        engine = LocalInference(domain, iters=1)
        engine._setup([(np.eye(8), x, 1.0, ('d',))], total)
        print(repr(total), type(engine.model.total).__name__, repr(engine.model.total))
    for cls, convex in [(FactorGraph, False), (RegionGraph, True), (RegionGraph, False)]:
        oracle = cls(domain, [('d',), ('d', 'b')], 1.0, convex=convex, iters=1)
        engine = LocalInference(domain, iters=1, marginal_oracle=oracle)
        engine._setup([(np.eye(8), x, 1.0, ('d',))], 42.5)
        print(cls.__name__, 'given', repr(engine.model.total), engine.model is oracle)
        engine._setup([(np.eye(8), x, 1.0, ('d',)), (D, D @ x, 0.1, ('d',))], None)
        print(cls.__name__, 'estimated', fmt(engine.model.total), engine.model is oracle)

    print('== 5. full estimate() with total=None, answers sum to the total')
    xb = data.project(('d', 'b')).datavector()
    xc = data.project(('c', 'e')).datavector()
    P = np.tril(np.ones((16, 16)))
    R = rng.normal(size=(12, 12))
    measurements = [
        (P, P @ xb + 2.0 * rng.normal(size=16), 2.0, ('d', 'b')),
        (aslinearoperator(R), R @ xc + 0.5 * rng.normal(size=12), 0.5, ('c', 'e')),
        (sparse.eye(8, format='csr'), x + 5.0 * rng.normal(size=8), 5.0, ('d',)),
        (D, D @ x, 1.0, ('d',)),
    ]
    for oracle in ORACLES:
        engine = LocalInference(domain, iters=20, marginal_oracle=oracle)
        model = engine.estimate(measurements)
        print(oracle, fmt(model.total))
        for cl in [('d', 'b'), ('c', 'e'), ('d',)]:
            ans = model.project(cl).datavector()
            print('  ', cl, '%.6f' % ans.sum(), np.round(ans[:4], 6).tolist())
        model = engine.estimate(measurements, total=55.0)
        print(oracle, 'given', repr(model.total), '%.6f' % model.project(('d',)).datavector().sum())


if __name__ == '__main__':
    main()

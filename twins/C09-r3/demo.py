"""Equivalence demo for refactoring 3 (public_inference.estimate_total / PublicInference.estimate).

Prints a deterministic digest; must be byte-identical before/after the patch.
Run:  PYTHONPATH=<root>/src /venv/bin/python out/refactor3/demo.py
"""
import os
import sys
import warnings

ROOT = os.path.abspath(os.path.join(os.path.dirname(os.path.abspath(__file__)), '..', '..'))
sys.path.insert(0, os.path.join(ROOT, 'src'))
warnings.filterwarnings('ignore')

import numpy as np
from scipy import sparse
from scipy.sparse.linalg import aslinearoperator

import mbi
from mbi import Domain, Dataset
from mbi import public_inference
from mbi.public_inference import PublicInference, estimate_total

assert os.path.realpath(public_inference.__file__).startswith(os.path.realpath(ROOT))
assert os.path.realpath(mbi.__file__).startswith(os.path.realpath(ROOT)), mbi.__file__


def query_matrices(n, rng):
    """name -> Q for a marginal with n cells"""
    qs = {}
    qs['identity'] = np.eye(n)
    qs['sparse_identity'] = sparse.eye(n, format='csr')
    qs['scaled'] = 3.5 * np.eye(n)
    qs['prefix'] = np.tril(np.ones((n, n)))
    qs['sparse_prefix'] = sparse.csr_matrix(np.tril(np.ones((n, n))))
    qs['random_square'] = rng.normal(size=(n, n))
    qs['random_tall'] = rng.normal(size=(2 * n + 1, n))
    qs['total_only'] = np.ones((1, n))
    qs['total_plus_cell'] = np.vstack([np.ones(n), np.eye(n)[0]])
    qs['op_identity'] = aslinearoperator(np.eye(n))
    qs['op_prefix'] = aslinearoperator(np.tril(np.ones((n, n))))
    qs['op_random'] = aslinearoperator(rng.normal(size=(n, n)))
    if n >= 2:
        # row space orthogonal to the ones vector
        qs['differences'] = np.eye(n)[:-1] - np.eye(n)[1:]
        qs['op_differences'] = aslinearoperator(np.eye(n)[:-1] - np.eye(n)[1:])
        qs['first_cell'] = np.eye(n)[:1]
    if n >= 3:
        qs['random_wide'] = rng.normal(size=(n // 2, n))
    return qs


def fmt(x):
    return '%s:%r' % (type(x).__name__, float(x))


def main():
    rng = np.random.RandomState(99)
    np.random.seed(2468)
    attrs = ['a', 'b', 'c', 'd', 'e']
    shape = [1, 2, 3, 8, 4]
    domain = Domain(attrs, shape)
    data = Dataset.synthetic(domain, 173)
    public = Dataset.synthetic(domain, 40)

    projs = [('a',), ('b',), ('c',), ('d',), ('d', 'b'), ('c', 'e'), ('e', 'd'),
             ('d', 'c', 'b'), ('a', 'd'), ('e', 'b', 'd')]

    print('== 1. single measurement, every query family, noise-free and noisy')
    for proj in projs:
        x = data.project(proj).datavector()
        n = x.size
        for name, Q in sorted(query_matrices(n, rng).items()):
            for sigma, noisy in [(1.0, False), (0.25, False), (7.0, True)]:
                y = Q @ x
                if noisy:
                    y = y + sigma * rng.normal(size=y.size)
                print(proj, n, name, sigma, noisy, fmt(estimate_total([(Q, y, sigma, proj)])))

    print('== 2. heterogeneous noise, several measurements combined')
    for trial in range(20):
        measurements = []
        k = rng.randint(2, 7)
        for j in range(k):
            proj = projs[rng.randint(len(projs))]
            x = data.project(proj).datavector()
            qs = query_matrices(x.size, rng)
            name = sorted(qs)[rng.randint(len(qs))]
            Q = qs[name]
            sigma = float(10.0 ** rng.uniform(-2, 2))
            y = Q @ x + sigma * rng.normal(size=Q.shape[0])
            measurements.append((Q, y, sigma, proj))
        print(trial, [(m[3], m[0].shape, round(m[2], 4)) for m in measurements], fmt(estimate_total(measurements)))
        print(trial, 'reversed', fmt(estimate_total(measurements[::-1])))

    print('== 3. estimates around the clipping threshold; nothing usable gives 1')
    x = data.project(('d',)).datavector()
    D = np.eye(8)[:-1] - np.eye(8)[1:]
    I = np.eye(8)
    one = np.ones((1, 8))
    cases = {
        'no_measurements': [],
        'only_differences': [(D, D @ x, 1.0, ('d',))],
        'differences_then_identity': [(D, D @ x, 1.0, ('d',)), (I, x + 1.0, 3.0, ('d',))],
        'all_zero_answers': [(I, np.zeros(8), 1.0, ('d',))],
        'negative_answers': [(I, -x, 2.0, ('d',))],
        'fractional': [(I, x / 1000.0, 2.0, ('d',))],
        'exactly_one': [(one, np.array([1.0]), 2.0, ('d',))],
        'just_above_one': [(one, np.array([np.nextafter(1.0, 2.0)]), 2.0, ('d',))],
        'just_below_one': [(one, np.array([np.nextafter(1.0, 0.0)]), 2.0, ('d',))],
        'nan_answer': [(one, np.array([np.nan]), 2.0, ('d',))],
        'inf_answer': [(one, np.array([np.inf]), 2.0, ('d',))],
        'zero_noise': [(one, np.array([50.0]), 0.0, ('d',))],
        'integer_y': [(I, x.astype(int), 2.0, ('d',))],
        'list_y': [(one, [64.0], 2.0, ('d',))],
        'integer_noise': [(I, x, 2, ('d',)), (np.ones((1, 2)), np.array([100.0]), 3, ('b',))],
        'numpy_scalar_noise': [(I, x, np.float32(1.5), ('d',)), (np.ones((1, 2)), np.array([100.0]), np.float64(3), ('b',))],
    }
    for name in sorted(cases):
        t = estimate_total(cases[name])
        print(name, type(t).__name__, repr(float(t)))

    print('== 4. PublicInference.estimate: supplied totals used as given, omitted totals estimated')
    xb = data.project(('d', 'b')).datavector()
    xc = data.project(('c', 'e')).datavector()
    P = np.tril(np.ones((16, 16)))
    R = rng.normal(size=(12, 12))
    measurements = [
        (P, P @ xb + 2.0 * rng.normal(size=16), 2.0, ('d', 'b')),
        (aslinearoperator(R), R @ xc + 0.5 * rng.normal(size=12), 0.5, ('c', 'e')),
        (sparse.eye(8, format='csr'), x + 5.0 * rng.normal(size=8), 5.0, ('d',)),
        (D, D @ x, 1.0, ('d',)),
    ]
    print('estimate_total', fmt(estimate_total(measurements)))
    for metric in ['L2', 'L1']:
        for total in [None, 1, 55.0, 300]:
            engine = PublicInference(public, metric=metric)
            est = engine.estimate(measurements, total=total)
            w = est.weights
            print(metric, repr(total), '%.6f' % w.sum(), np.round(w[:5], 6).tolist(),
                  np.round(est.project(('d',)).datavector(), 5).tolist())
    # no measurement can express the total -> total 1
    engine = PublicInference(public)
    est = engine.estimate([(D, D @ x, 1.0, ('d',))])
    print('unidentifiable', '%.6f' % est.weights.sum())


if __name__ == '__main__':
    main()

"""C10 pair 1 -- structural zeros declared on attribute groups that no measurement covers.

Site under test: FactoredInference._setup (src/mbi/inference.py), the list of cliques
handed to GraphicalModel (measured cliques + structural-zero cliques).

For every scenario x solver (x warm-start history) the demo checks, on the returned model,
  * every declared cell has zero mass in model.project(zero clique)   (in/out-of-clique answer)
  * every declared cell has zero mass in the full data vector
  * the full vector and the projected marginal sum to the requested total
  * nothing is NaN
and prints a deterministic digest of the answers.
"""
import os, sys, io, contextlib, hashlib, warnings

ROOT = os.path.dirname(os.path.dirname(os.path.dirname(os.path.abspath(__file__))))
sys.path.insert(0, os.path.join(ROOT, 'src'))
warnings.filterwarnings('ignore')

import numpy as np
import mbi
from mbi import Domain, FactoredInference

assert os.path.abspath(mbi.__file__).startswith(os.path.join(ROOT, 'src')), mbi.__file__

TOTAL = 200.0
TOL = 1e-9 * TOTAL
DOM = Domain(['A', 'B', 'C', 'D', 'E'], [3, 4, 3, 2, 3])


def measurement(rng, cl, sigma=2.0):
    n = DOM.size(cl)
    y = rng.rand(n)
    y = y / y.sum() * TOTAL + rng.normal(0, sigma, n)
    return (None, y, sigma, cl)


# name -> (list of measurement rounds, structural zeros)
SCENARIOS = {
    # zero set exactly on a measured clique
    'on-measured-clique': ([[('A', 'B'), ('B', 'C')]],
                           {('A', 'B'): [(0, 0), (1, 2), (2, 3)]}),
    # zero set on a sub-clique of a measured clique, given in reverse attribute order
    'on-sub-clique': ([[('A', 'B', 'C'), ('C', 'D')]],
                      {('C', 'B'): [(0, 1), (2, 3)], ('D',): [(1,)]}),
    # zero set on attributes that are not measured at all
    'on-unmeasured-attrs': ([[('A',), ('B',)]],
                            {('C', 'D'): [(0, 0), (1, 1)], ('E',): [(2,)]}),
    # zero set on one measured and one unmeasured attribute
    'half-measured-group': ([[('A', 'B')], ],
                            {('B', 'E'): [(0, 0), (3, 2), (1, 1)]}),
    # zero set on a group whose attributes are all measured, but in different cliques
    'bridging-two-cliques': ([[('A', 'B'), ('B', 'C')]],
                             {('A', 'C'): [(0, 0), (1, 2), (2, 1)]}),
    # same, only one-way measurements
    'bridging-one-way': ([[('A',), ('C',), ('D',)]],
                         {('A', 'C'): [(0, 0), (1, 2)], ('C', 'D'): [(1, 0)]}),
    # same, closing a 4-cycle of measured pairs
    'bridging-chord': ([[('A', 'B'), ('B', 'C'), ('C', 'D'), ('A', 'D')]],
                       {('A', 'C'): [(2, 2), (0, 1)]}),
    # warm-start history: the bridging group only becomes "fully measured" in round 2
    'warm-history': ([[('A', 'B')], [('A', 'B'), ('C', 'D')], [('A', 'B'), ('C', 'D'), ('D', 'E')]],
                     {('B', 'C'): [(0, 0), (3, 2), (2, 1)]}),
}


def run(name, rounds, zeros, solver, seed):
    rng = np.random.RandomState(seed)
    warm = len(rounds) > 1
    engine = FactoredInference(DOM, structural_zeros=zeros, iters=40, warm_start=warm)
    problems, lines = [], []
    for r, cliques in enumerate(rounds):
        ms = [measurement(rng, cl) for cl in cliques]
        with contextlib.redirect_stdout(io.StringIO()):
            model = engine.estimate(ms, total=TOTAL, engine=solver, options={})
        full = model.datavector(flatten=False)
        tag = '%s/%s/round%d' % (name, solver, r)
        if np.isnan(full).any():
            problems.append('%s: NaN in the full vector' % tag)
        if abs(full.sum() - TOTAL) > 1e-6 * TOTAL:
            problems.append('%s: full vector sums to %r, not %r' % (tag, full.sum(), TOTAL))
        for cl, cells in zeros.items():
            marg = model.project(cl).datavector(flatten=False)
            axes = DOM.axes(cl)
            rest = tuple(i for i in range(len(DOM)) if i not in axes)
            fmarg = full.sum(axis=rest)             # axes left in domain order
            order = sorted(range(len(cl)), key=lambda i: axes[i])
            if np.isnan(marg).any():
                problems.append('%s: NaN in marginal %s' % (tag, cl))
            if abs(marg.sum() - TOTAL) > 1e-6 * TOTAL:
                problems.append('%s: marginal %s sums to %r' % (tag, cl, marg.sum()))
            for cell in cells:
                m1 = marg[tuple(cell)]
                m2 = fmarg[tuple(cell[i] for i in order)]
                if not (abs(m1) <= TOL):
                    problems.append('%s: impossible cell %s=%s has mass %.6g in project()'
                                    % (tag, cl, cell, m1))
                if not (abs(m2) <= TOL):
                    problems.append('%s: impossible cell %s=%s has mass %.6g in datavector()'
                                    % (tag, cl, cell, m2))
            lines.append('%s %s %s' % (tag, cl, np.array2string(np.round(marg.flatten(), 6) + 0.0,
                                                               separator=',', max_line_width=10**6)))
        lines.append('%s cliques=%s full=%s' % (tag, model.cliques,
                     hashlib.sha256(np.round(full.flatten(), 6).__add__(0.0).tobytes()).hexdigest()[:16]))
    return problems, lines


def main():
    problems, lines = [], []
    seed = 0
    for name, (rounds, zeros) in SCENARIOS.items():
        for solver in ['MD', 'RDA', 'IG']:
            seed += 1
            p, l = run(name, rounds, zeros, solver, seed)
            problems += p
            lines += l
    for l in lines:
        print(l)
    print('digest', hashlib.sha256('\n'.join(lines).encode()).hexdigest())
    if problems:
        print('FAIL: structurally impossible cells carry mass / answers are inconsistent:')
        for p in problems:
            print('  ' + p)
        sys.exit(1)
    print('PASS')
    sys.exit(0)


if __name__ == '__main__':
    main()

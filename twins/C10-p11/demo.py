"""C10 pair 1 - structural zeros declared on attribute groups of three or more attributes.

Runs FactoredInference with zero sets whose keys have 2, 3 and 4 attributes
(measured or unmeasured groups), for every solver and for a warm-start history,
and checks every answer of the returned model at the declared cells.
Exit 0 + PASS + digest when the property holds, exit 1 + FAIL otherwise.
"""
import os, sys, io, contextlib, hashlib, itertools, warnings
ROOT = os.path.dirname(os.path.dirname(os.path.dirname(os.path.abspath(__file__))))
sys.path.insert(0, os.path.join(ROOT, 'src'))
warnings.filterwarnings('ignore')
import numpy as np
import mbi
from mbi import Domain, FactoredInference

assert os.path.abspath(mbi.__file__).startswith(ROOT), 'wrong mbi imported: ' + mbi.__file__

TOL = 1e-8


def zero_mask(domain, zeros):
    mask = np.zeros(domain.shape, dtype=bool)
    for cl, cells in zeros.items():
        ax = domain.axes(cl)
        for cell in cells:
            idx = [slice(None)] * len(domain)
            for a, v in zip(ax, cell):
                idx[a] = v
            mask[tuple(idx)] = True
    return mask


def make_data(domain, zeros, n, seed):
    rng = np.random.RandomState(seed)
    p = rng.rand(*domain.shape) + 0.1
    p[zero_mask(domain, zeros)] = 0
    p /= p.sum()
    return rng.multinomial(n, p.flatten()).reshape(domain.shape).astype(float)


def marginal(domain, x, cl):
    """marginal of the full table x on cl, laid out in the order of cl"""
    drop = tuple(i for i, a in enumerate(domain.attrs) if a not in cl)
    m = x.sum(axis=drop)
    kept = [a for a in domain.attrs if a in cl]
    return np.transpose(m, [kept.index(a) for a in cl])


def measure(domain, x, cliques, sigma, seed):
    rng = np.random.RandomState(seed)
    out = []
    for cl in cliques:
        y = marginal(domain, x, cl).flatten()
        out.append((None, y + rng.normal(0, sigma, y.size), sigma, cl))
    return out


def check(model, domain, zeros, label, problems, digest):
    mask = zero_mask(domain, zeros)
    T = model.total
    answers = [('datavector', model.datavector(flatten=False), mask)]
    for r in range(1, len(domain) + 1):
        for attrs in itertools.combinations(domain.attrs, r):
            drop = tuple(i for i, a in enumerate(domain.attrs) if a not in attrs)
            m = mask.all(axis=drop) if drop else mask
            answers.append(('project%s' % (attrs,), model.project(attrs).values, m))
    for name, v, m in answers:
        if np.isnan(v).any():
            problems.append('%s: %s contains NaN' % (label, name))
            continue
        if abs(v.sum() - T) > 1e-6 * T:
            problems.append('%s: %s sums to %r, total is %r' % (label, name, float(v.sum()), T))
        bad = v[m].max() if m.any() else 0.0
        if bad > TOL * T:
            problems.append('%s: %s puts mass %.6g on a declared zero cell' % (label, name, bad))
        digest.update(name.encode())
        digest.update(np.round(v / T, 7).astype('<f8').tobytes())


def run(domain, zeros, histories, total, label, problems, digest, iters=150):
    for engine_name in ['MD', 'RDA', 'IG']:
        for warm in [False, True]:
            eng = FactoredInference(domain, structural_zeros=zeros, iters=iters, warm_start=warm)
            for step, ms in enumerate(histories):
                with contextlib.redirect_stdout(io.StringIO()):
                    model = eng.estimate(ms, total=total, engine=engine_name)
                lab = '%s/%s/warm=%s/call%d' % (label, engine_name, warm, step + 1)
                check(model, domain, zeros, lab, problems, digest)
                digest.update(repr(sorted(model.cliques)).encode())


def main():
    problems, digest = [], hashlib.sha256()
    dom = Domain(['a', 'b', 'c', 'd'], [2, 3, 4, 3])

    # 1. control: keys with one and two attributes
    z1 = {('a', 'b'): [(0, 1), (1, 2)], ('c',): [(3,)]}
    x1 = make_data(dom, z1, 400, 0)
    h1 = [measure(dom, x1, [('a', 'b'), ('b', 'c'), ('d',)], 4.0, 1)]
    run(dom, z1, h1, 400.0, 'two-attribute keys', problems, digest)

    # 2. a three-attribute zero set on a group that is never measured jointly
    z2 = {('a', 'b', 'c'): [(0, 1, 2), (1, 0, 0), (1, 2, 3)]}
    x2 = make_data(dom, z2, 400, 2)
    h2 = [measure(dom, x2, [('a', 'b'), ('c', 'd')], 4.0, 3),
          measure(dom, x2, [('a', 'b'), ('c', 'd'), ('b', 'd')], 4.0, 4)]
    run(dom, z2, h2, 400.0, 'unmeasured triple', problems, digest)

    # 3. a three-attribute zero set on a triple that is measured, key in non-adjacent attributes
    z3 = {('a', 'c', 'd'): [(0, 0, 0), (1, 3, 2)], ('b',): [(1,)]}
    x3 = make_data(dom, z3, 300, 5)
    h3 = [measure(dom, x3, [('a', 'c', 'd'), ('b',)], 3.0, 6)]
    run(dom, z3, h3, 300.0, 'measured triple', problems, digest)

    # 4. a zero set over the whole (four attribute) domain
    z4 = {('a', 'b', 'c', 'd'): [(0, 0, 0, 0), (1, 2, 3, 2), (0, 1, 2, 1)]}
    x4 = make_data(dom, z4, 300, 7)
    h4 = [measure(dom, x4, [('a',), ('b', 'c'), ('d',)], 3.0, 8)]
    run(dom, z4, h4, 300.0, 'full-domain key', problems, digest, iters=60)

    if problems:
        print('FAIL: structural zeros receive mass / answers are inconsistent')
        for p in problems[:12]:
            print('  ' + p)
        print('  (%d problems in total)' % len(problems))
        scen = sorted(set(p.split('/')[0] for p in problems))
        print('  affected scenarios: ' + '; '.join(scen))
        sys.exit(1)
    print('PASS')
    print('digest', digest.hexdigest())
    sys.exit(0)


if __name__ == '__main__':
    main()

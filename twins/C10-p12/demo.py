"""C10 pair 2 - potentials rebuilt from the final marginals (GraphicalModel.mle) by the
dual-averaging and interior-gradient solvers when a zero set removes a whole attribute value.

Runs every solver, cold and warm (including RDA -> MD and IG -> RDA hand-overs on one
warm-started engine), on zero sets that do / do not wipe out a complete value of an
attribute shared by two model cliques, and checks every answer of the returned model.
Exit 0 + PASS + digest when the property holds, exit 1 + FAIL otherwise.
"""
import os, sys, io, contextlib, hashlib, itertools, warnings
ROOT = os.path.dirname(os.path.dirname(os.path.dirname(os.path.abspath(__file__))))
sys.path.insert(0, os.path.join(ROOT, 'src'))
warnings.filterwarnings('ignore')
import numpy as np
import mbi
from mbi import Domain, FactoredInference

assert os.path.abspath(mbi.__file__).startswith(ROOT), 'wrong mbi imported: ' + mbi.__file__

TOL = 1e-8


def zero_mask(domain, zeros):
    mask = np.zeros(domain.shape, dtype=bool)
    for cl, cells in zeros.items():
        ax = domain.axes(cl)
        for cell in cells:
            idx = [slice(None)] * len(domain)
            for a, v in zip(ax, cell):
                idx[a] = v
            mask[tuple(idx)] = True
    return mask


def make_data(domain, zeros, n, seed):
    rng = np.random.RandomState(seed)
    p = rng.rand(*domain.shape) + 0.1
    p[zero_mask(domain, zeros)] = 0
    p /= p.sum()
    return rng.multinomial(n, p.flatten()).reshape(domain.shape).astype(float)


def marginal(domain, x, cl):
    """marginal of the full table x on cl, laid out in the order of cl"""
    drop = tuple(i for i, a in enumerate(domain.attrs) if a not in cl)
    m = x.sum(axis=drop)
    kept = [a for a in domain.attrs if a in cl]
    return np.transpose(m, [kept.index(a) for a in cl])


def measure(domain, x, cliques, sigma, seed):
    rng = np.random.RandomState(seed)
    out = []
    for cl in cliques:
        y = marginal(domain, x, cl).flatten()
        out.append((None, y + rng.normal(0, sigma, y.size), sigma, cl))
    return out


def check(model, domain, zeros, label, problems, digest):
    mask = zero_mask(domain, zeros)
    T = model.total
    answers = [('datavector', model.datavector(flatten=False), mask)]
    for r in range(1, len(domain) + 1):
        for attrs in itertools.combinations(domain.attrs, r):
            drop = tuple(i for i, a in enumerate(domain.attrs) if a not in attrs)
            m = mask.all(axis=drop) if drop else mask
            answers.append(('project%s' % (attrs,), model.project(attrs).values, m))
    for name, v, m in answers:
        if np.isnan(v).any():
            problems.append('%s: %s contains NaN' % (label, name))
            continue
        if abs(v.sum() - T) > 1e-6 * T:
            problems.append('%s: %s sums to %r, total is %r' % (label, name, float(v.sum()), T))
        bad = v[m].max() if m.any() else 0.0
        if bad > TOL * T:
            problems.append('%s: %s puts mass %.6g on a declared zero cell' % (label, name, bad))
        digest.update(name.encode())
        digest.update(np.round(v / T, 7).astype('<f8').tobytes())


def run(domain, zeros, ms_list, total, label, problems, digest, iters=120):
    # single solver, cold and warm
    for engine_name in ['MD', 'RDA', 'IG']:
        for warm in [False, True]:
            eng = FactoredInference(domain, structural_zeros=zeros, iters=iters, warm_start=warm)
            for step, ms in enumerate(ms_list):
                with contextlib.redirect_stdout(io.StringIO()):
                    model = eng.estimate(ms, total=total, engine=engine_name)
                lab = '%s/%s/warm=%s/call%d' % (label, engine_name, warm, step + 1)
                check(model, domain, zeros, lab, problems, digest)
    # one warm-started engine handed from solver to solver
    for seq in [('RDA', 'MD'), ('IG', 'RDA'), ('MD', 'IG', 'MD')]:
        eng = FactoredInference(domain, structural_zeros=zeros, iters=iters, warm_start=True)
        for step, engine_name in enumerate(seq):
            ms = ms_list[min(step, len(ms_list) - 1)]
            with contextlib.redirect_stdout(io.StringIO()):
                model = eng.estimate(ms, total=total, engine=engine_name)
            lab = '%s/%s/call%d' % (label, '->'.join(seq), step + 1)
            check(model, domain, zeros, lab, problems, digest)


def main():
    problems, digest = [], hashlib.sha256()
    dom = Domain(['a', 'b', 'c', 'd'], [2, 3, 4, 3])
    cliques = [('a', 'b'), ('b', 'c'), ('c', 'd')]

    # 1. scattered zero cells: every value of every attribute stays possible
    z1 = {('a', 'b'): [(0, 1), (1, 2)], ('c', 'd'): [(3, 0), (0, 2)], ('b', 'd'): [(0, 0)]}
    x1 = make_data(dom, z1, 400, 0)
    m1 = [measure(dom, x1, cliques, 4.0, 1), measure(dom, x1, cliques + [('a',)], 4.0, 2)]
    run(dom, z1, m1, 400.0, 'scattered cells', problems, digest)

    # 2. a one-attribute zero set: value b=1 never occurs (b links two model cliques)
    z2 = {('b',): [(1,)]}
    x2 = make_data(dom, z2, 400, 3)
    m2 = [measure(dom, x2, cliques, 4.0, 4), measure(dom, x2, cliques + [('d',)], 4.0, 5)]
    run(dom, z2, m2, 400.0, 'value b=1 impossible', problems, digest)

    # 3. the same situation spelled cell by cell on a pair: every (b, c=2) is impossible
    z3 = {('b', 'c'): [(0, 2), (1, 2), (2, 2), (0, 0)]}
    x3 = make_data(dom, z3, 300, 6)
    m3 = [measure(dom, x3, cliques, 3.0, 7)]
    run(dom, z3, m3, 300.0, 'value c=2 impossible', problems, digest)

    # 4. whole value removed on an unmeasured pair that joins two measured blocks
    z4 = {('a', 'd'): [(0, 1), (1, 1)]}
    x4 = make_data(dom, z4, 300, 8)
    m4 = [measure(dom, x4, [('a', 'b'), ('c', 'd')], 3.0, 9)]
    run(dom, z4, m4, 300.0, 'value d=1 impossible', problems, digest)

    if problems:
        print('FAIL: an answer of the returned model is NaN / leaks mass / loses the total')
        for p in problems[:12]:
            print('  ' + p)
        print('  (%d problems in total)' % len(problems))
        scen = sorted(set(p.split('/')[0] for p in problems))
        print('  affected scenarios: ' + '; '.join(scen))
        sys.exit(1)
    print('PASS')
    print('digest', digest.hexdigest())
    sys.exit(0)


if __name__ == '__main__':
    main()

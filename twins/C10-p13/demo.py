"""C10 pair 1 - belief propagation: copy the potentials up front vs. on first write.

Structural zeros must carry no mass in any answer of the returned model, for every
solver, with or without warm start, and the remaining mass must sum to the total.

The interesting configurations here are models whose junction tree has ONE maximal
clique (a zero set / measurement covering the whole domain, a one-attribute domain):
that clique never absorbs a message inside belief_propagation.
"""
import os, sys, io, contextlib, hashlib, warnings

ROOT = os.path.dirname(os.path.dirname(os.path.dirname(os.path.abspath(__file__))))
sys.path.insert(0, os.path.join(ROOT, 'src'))
warnings.filterwarnings('ignore')

import numpy as np
from scipy import sparse
import mbi
from mbi import Domain, FactoredInference

assert os.path.abspath(mbi.__file__).startswith(ROOT), 'wrong mbi imported: ' + mbi.__file__

TOL = 1e-9          # RDA / IG leave ~1e-100 at the declared cells on the unmodified code
problems = []
digest = []


def quiet(fn, *a, **kw):
    with contextlib.redirect_stdout(io.StringIO()):
        return fn(*a, **kw)


def measurements(domain, cliques, rng, mass):
    # noisy marginals of a data set holding `mass` records (mass = 1: a distribution)
    out = []
    for cl in cliques:
        n = domain.size(cl)
        y = rng.rand(n) + 0.1
        out.append((sparse.eye(n), y * mass / y.sum(), 1.0, cl))
    return out


def check(tag, model, domain, zeros, extra=()):
    """ every declared cell is empty in every answer; mass sums to total; no NaN """
    total = model.total
    answers = [tuple(cl) for cl in zeros] + [tuple(cl) for cl in model.cliques] + list(extra)
    for attrs in answers:
        mu = model.project(attrs)
        vals = mu.values
        if np.isnan(vals).any():
            problems.append('%s: NaN in project(%s)' % (tag, attrs))
        if abs(vals.sum() - total) > 1e-6 * total:
            problems.append('%s: project(%s) sums to %.6g, total is %.6g' % (tag, attrs, vals.sum(), total))
        for key, cells in zeros.items():
            if set(key) <= set(attrs):
                sub = mu.project(key).values
                for c in cells:
                    if not sub[tuple(c)] <= TOL * total:
                        problems.append('%s: project(%s) puts mass %.6g on the structural zero %s=%s'
                                        % (tag, attrs, sub[tuple(c)], key, tuple(c)))
        digest.append('%s %s %s' % (tag, attrs, ' '.join('%.6g' % v for v in vals.flatten()[:6])))
    x = model.datavector(flatten=False)
    if np.isnan(x).any():
        problems.append('%s: NaN in datavector' % tag)
    if abs(x.sum() - total) > 1e-6 * total:
        problems.append('%s: datavector sums to %.6g, total is %.6g' % (tag, x.sum(), total))
    full = mbi.Factor(domain, x)
    for key, cells in zeros.items():
        sub = full.project(key).values
        for c in cells:
            if not sub[tuple(c)] <= TOL * total:
                problems.append('%s: datavector puts mass %.6g on the structural zero %s=%s'
                                % (tag, sub[tuple(c)], key, tuple(c)))
    digest.append('%s dv %.6g %.6g' % (tag, x.sum(), x.max()))


def scenario(name, domain, zeros, rounds, extra=(), warm=False, iters=40):
    for engine in ['MD', 'RDA', 'IG']:
        rng = np.random.RandomState(7)
        eng = FactoredInference(domain, structural_zeros=zeros, iters=iters, warm_start=warm)
        for r, (cliques, total, mass) in enumerate(rounds):
            model = quiet(eng.estimate, measurements(domain, cliques, rng, mass), total=total, engine=engine)
            check('%s/%s/round%d' % (name, engine, r), model, domain, zeros, extra)


# 1. two attributes, the zero set and a measurement sit on the only maximal clique
d2 = Domain(['a', 'b'], [3, 4])
z2 = {('a', 'b'): [(0, 0), (2, 3), (1, 1)]}
scenario('pair-domain', d2, z2, [([('a', 'b'), ('a',)], 1.0, 1.0)])
scenario('pair-domain-counts', d2, z2, [([('a', 'b'), ('a',)], 200.0, 200.0)])

# 2. the same engine re-used with warm start (still one maximal clique every round)
scenario('pair-domain-warm', d2, z2, [([('a',)], 1.0, 1.0), ([('a', 'b')], None, 1.0), ([('b',), ('a', 'b')], 12.0, 12.0)], warm=True)

# 3. one attribute
d1 = Domain(['x'], [5])
z1 = {('x',): [(4,), (0,)]}
scenario('single-attribute', d1, z1, [([('x',)], 3.0, 3.0)])

# 4. a zero set over all three attributes merges two measured cliques into one
d3 = Domain(['a', 'b', 'c'], [2, 3, 2])
z3 = {('a', 'b', 'c'): [(0, 0, 0), (1, 2, 1), (1, 0, 1)], ('b',): [(1,)]}
scenario('full-domain-zero-set', d3, z3, [([('a', 'b'), ('b', 'c')], 5.0, 5.0)], extra=[('a', 'c')])

# 5. controls with several maximal cliques (in- and out-of-clique answers)
d4 = Domain(['a', 'b', 'c', 'd'], [2, 3, 4, 3])
z4 = {('a', 'b'): [(0, 0), (1, 2)], ('c',): [(3,)], ('b', 'd'): [(1, 1)]}
scenario('chain', d4, z4, [([('a', 'b'), ('b', 'c')], 1.0, 1.0), ([('a', 'b'), ('c', 'd')], None, 300.0)],
         extra=[('a', 'c'), ('a', 'd'), ('a', 'c', 'd')], warm=True)

if problems:
    print('FAIL: structural zeros received mass / answers are inconsistent (%d findings)' % len(problems))
    for p in problems[:12]:
        print('  ' + p)
    print('  explanation: with a single maximal clique no message is absorbed, so the in-place')
    print('  normalisation + exp() of belief_propagation overwrites the *potentials* it was handed;')
    print('  the -inf entries become 0.0 and the next additive update gives those cells mass.')
    sys.exit(1)

print('PASS')
print('answers checked: %d' % len(digest))
print('digest: ' + hashlib.sha256('\n'.join(digest).encode()).hexdigest())
for line in digest[::9]:
    print(line)

"""C10 pair 2 - JunctionTree.mp_order: dependency DAG + topological sort vs. two sweeps.

Structural zeros must carry no mass in any answer of the returned model (every clique
marginal, out-of-clique marginals, the full vector), for every solver, with or without
warm start, and the remaining mass must sum to the total.

A zero set on a sub-clique is merged into ONE host clique; every other clique that
contains those attributes learns about it through the messages.  The interesting
configurations are junction trees that are at least two edges deep below their centre.
"""
import os, sys, io, contextlib, hashlib, warnings

ROOT = os.path.dirname(os.path.dirname(os.path.dirname(os.path.abspath(__file__))))
sys.path.insert(0, os.path.join(ROOT, 'src'))
warnings.filterwarnings('ignore')

import numpy as np
from scipy import sparse
import mbi
from mbi import Domain, FactoredInference

assert os.path.abspath(mbi.__file__).startswith(ROOT), 'wrong mbi imported: ' + mbi.__file__

TOL = 1e-9          # RDA / IG leave ~1e-100 at the declared cells on the unmodified code
problems = []
digest = []


def quiet(fn, *a, **kw):
    with contextlib.redirect_stdout(io.StringIO()):
        return fn(*a, **kw)


def measurements(domain, cliques, rng, mass):
    # noisy marginals of a data set holding `mass` records (mass = 1: a distribution)
    out = []
    for cl in cliques:
        n = domain.size(cl)
        y = rng.rand(n) + 0.1
        out.append((sparse.eye(n), y * mass / y.sum(), 1.0, cl))
    return out


def check(tag, model, domain, zeros, extra=()):
    """ every declared cell is empty in every answer; mass sums to total; no NaN """
    total = model.total
    answers = [tuple(cl) for cl in zeros] + [tuple(cl) for cl in model.cliques] + list(extra)
    for attrs in answers:
        mu = model.project(attrs)
        vals = mu.values
        if np.isnan(vals).any():
            problems.append('%s: NaN in project(%s)' % (tag, attrs))
        if abs(vals.sum() - total) > 1e-6 * total:
            problems.append('%s: project(%s) sums to %.6g, total is %.6g' % (tag, attrs, vals.sum(), total))
        for key, cells in zeros.items():
            if set(key) <= set(attrs):
                sub = mu.project(key).values
                for c in cells:
                    if not sub[tuple(c)] <= TOL * total:
                        problems.append('%s: project(%s) puts mass %.6g on the structural zero %s=%s'
                                        % (tag, attrs, sub[tuple(c)], key, tuple(c)))
        shown = np.where(np.abs(vals) < 1e-12 * total, 0.0, vals).flatten()[:6]
        digest.append('%s %s %s' % (tag, attrs, ' '.join('%.5g' % v for v in shown)))
    x = model.datavector(flatten=False)
    if np.isnan(x).any():
        problems.append('%s: NaN in datavector' % tag)
    if abs(x.sum() - total) > 1e-6 * total:
        problems.append('%s: datavector sums to %.6g, total is %.6g' % (tag, x.sum(), total))
    full = mbi.Factor(domain, x)
    for key, cells in zeros.items():
        sub = full.project(key).values
        for c in cells:
            if not sub[tuple(c)] <= TOL * total:
                problems.append('%s: datavector puts mass %.6g on the structural zero %s=%s'
                                % (tag, sub[tuple(c)], key, tuple(c)))
    digest.append('%s dv %.5g %.5g' % (tag, x.sum(), x.max()))


def scenario(name, domain, zeros, rounds, extra=(), warm=False, iters=40):
    for engine in ['MD', 'RDA', 'IG']:
        rng = np.random.RandomState(7)
        eng = FactoredInference(domain, structural_zeros=zeros, iters=iters, warm_start=warm)
        for r, (cliques, total, mass) in enumerate(rounds):
            model = quiet(eng.estimate, measurements(domain, cliques, rng, mass), total=total, engine=engine)
            check('%s/%s/round%d' % (name, engine, r), model, domain, zeros, extra)


# 1. five cliques in a row that all share x: the tree is a path, two edges deep below its centre
dA = Domain(['x', 'a', 'b', 'c', 'd', 'e', 'f'], [3, 2, 2, 2, 2, 2, 2])
cA = [('x', 'a', 'b'), ('x', 'b', 'c'), ('x', 'c', 'd'), ('x', 'd', 'e'), ('x', 'e', 'f')]
zA = {('x',): [(0,)], ('a', 'b'): [(0, 0)], ('e', 'f'): [(1, 1)]}
scenario('path-of-5', dA, zA, [(cA, 90.0, 90.0)], extra=[('a', 'f'), ('x', 'a', 'f')])

# 2. the same engine re-used with warm start while the tree grows from shallow to deep
scenario('growing-path', dA, zA, [(cA[:2], 1.0, 1.0), (cA[:3], None, 40.0), (cA, None, 40.0)],
         extra=[('x', 'f')], warm=True)

# 3. a branching tree; zero sets on a sub-clique, a measured clique and an unmeasured pair
dB = Domain(['a', 'b', 'c', 'd', 'e', 'g', 'h', 'u', 'v'], [2, 3, 3, 2, 3, 2, 2, 2, 2])
cB = [('a', 'b', 'c'), ('b', 'c', 'd'), ('c', 'd', 'e'), ('c', 'd', 'g'), ('c', 'g', 'h')]
zB = {('c',): [(2,)], ('d', 'e'): [(0, 0), (1, 2)], ('u', 'v'): [(0, 1)]}
scenario('branching', dB, zB, [(cB, 60.0, 60.0)], extra=[('a', 'h'), ('c', 'u'), ('e', 'h')])

# 4. shallow controls (every clique next to the centre)
d4 = Domain(['a', 'b', 'c', 'd'], [2, 3, 4, 3])
z4 = {('a', 'b'): [(0, 0), (1, 2)], ('c',): [(3,)], ('b', 'd'): [(1, 1)]}
scenario('chain-of-3', d4, z4, [([('a', 'b'), ('b', 'c')], 1.0, 1.0), ([('a', 'b'), ('c', 'd')], None, 300.0)],
         extra=[('a', 'c'), ('a', 'd'), ('a', 'c', 'd')], warm=True)
scenario('independent', d4, {('c',): [(0,), (3,)]}, [([('a',), ('b',), ('c',)], 50.0, 50.0)], extra=[('a', 'c')])

if problems:
    print('FAIL: structural zeros received mass / answers are inconsistent (%d findings)' % len(problems))
    for p in problems[:12]:
        print('  ' + p)
    print('  explanation: the message order sends a clique its parent\'s message only AFTER that clique')
    print('  has already forwarded to its own children, so cliques two or more edges below the centre of')
    print('  the junction tree never hear about zero sets hosted on the other side (and are normalised')
    print('  with a partition function that does not belong to them).')
    sys.exit(1)

print('PASS')
print('answers checked: %d' % len(digest))
print('digest: ' + hashlib.sha256('\n'.join(digest).encode()).hexdigest())
for line in digest[::9]:
    print(line)

"""C10 pair 1 - synthetic records never fall in structurally impossible cells.

Site: GraphicalModel.synthetic_data (the loop that walks the elimination order
backwards and synthesises one column per attribute).

Only fully factorised models are used (zero sets on single attributes, one-way
measurements): for those synthetic_data() does not go through the pandas
groupby/apply path that is broken under pandas 3 in this environment.
"""
import os, sys, io, contextlib, hashlib, warnings
ROOT = os.path.dirname(os.path.dirname(os.path.dirname(os.path.abspath(__file__))))
sys.path.insert(0, os.path.join(ROOT, 'src'))
warnings.simplefilter('ignore')
import numpy as np
from mbi import Domain, FactoredInference

CASES = [
    # name, domain, zero sets, measured attrs, total
    ('zero on last value of a',  dict(a=3, b=4, c=2), {('a',): [(2,)]}, ['a', 'b', 'c'], 120.0),
    ('zero on value 0 of the smallest attribute', dict(a=3, b=4, c=2), {('c',): [(0,)]}, ['a', 'b', 'c'], 120.0),
    ('zeros on b and on value 0 of c, c unmeasured', dict(a=3, b=4, c=3), {('b',): [(0,), (3,)], ('c',): [(0,), (2,)]}, ['a', 'b'], 75.5),
    ('zero on value 0 of the first of two tied attributes', dict(u=2, v=2, w=5), {('u',): [(0,)], ('w',): [(4,)]}, ['u', 'w'], 200.0),
    ('single attribute domain', dict(x=6), {('x',): [(0,), (1,), (5,)]}, ['x'], 50.0),
]

def measurements(dom, attrs, total, rng):
    ans = []
    for a in attrs:
        n = dom.size((a,))
        y = rng.dirichlet(np.ones(n)) * total + rng.normal(0, 2.0, n)
        ans.append((None, y, 2.0, (a,)))
    return ans

def run():
    lines, failures = [], []
    for ci, (name, shape, zeros, attrs, total) in enumerate(CASES):
        dom = Domain(list(shape.keys()), list(shape.values()))
        for engine in ['MD', 'RDA', 'IG']:
            rng = np.random.RandomState(1000 + ci)
            eng = FactoredInference(dom, structural_zeros=zeros, iters=40)
            with contextlib.redirect_stdout(io.StringIO()):
                model = eng.estimate(measurements(dom, attrs, total, rng), total=total, engine=engine)
            for method, rows in [('round', None), ('sample', None), ('round', 333), ('sample', 57)]:
                np.random.seed(7 + ci)
                df = model.synthetic_data(rows=rows, method=method).df
                n = int(total) if rows is None else rows
                tag = '%d/%s/%s/%s' % (ci, engine, method, rows)
                if df.shape[0] != n:
                    failures.append('%s: %d records instead of %d' % (tag, df.shape[0], n))
                for cl, cells in zeros.items():
                    bad = np.zeros(df.shape[0], dtype=bool)
                    for cell in cells:
                        hit = np.ones(df.shape[0], dtype=bool)
                        for a, v in zip(cl, cell):
                            hit &= (df[a].values == v)
                        bad |= hit
                    if bad.any():
                        failures.append('%s [%s]: %d of %d synthetic records lie in the impossible cells %s of %s'
                                        % (tag, name, int(bad.sum()), df.shape[0], cells, cl))
                hist = [np.bincount(df[a].values, minlength=dom[a]).tolist() for a in dom]
                lines.append('%s %s' % (tag, hist))
    return lines, failures

if __name__ == '__main__':
    lines, failures = run()
    if failures:
        print('FAIL: structural zeros received synthetic records')
        for f in failures[:12]:
            print('  ' + f)
        print('  (%d violations in total)' % len(failures))
        sys.exit(1)
    for l in lines:
        print(l)
    print('PASS digest=' + hashlib.sha256('\n'.join(lines).encode()).hexdigest()[:16])
    sys.exit(0)

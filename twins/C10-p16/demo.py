"""C10 pair 2 - structural zeros hold for every solver, also on the solver's
"nothing to fit" exit (dual averaging returns early when the Lipschitz constant
of the loss is 0, i.e. when the measurement set carries no information).

Checks, for MD / RDA / IG, cold and warm started, with informative and with
empty measurement sets: declared cells get (numerically) zero mass in in-clique
marginals, out-of-clique marginals and the full vector; every answer sums to
the total; nothing is NaN.
"""
import os, sys, io, contextlib, hashlib, warnings
ROOT = os.path.dirname(os.path.dirname(os.path.dirname(os.path.abspath(__file__))))
sys.path.insert(0, os.path.join(ROOT, 'src'))
warnings.simplefilter('ignore')
import numpy as np
from mbi import Domain, FactoredInference

DOM = Domain(['a', 'b', 'c', 'd'], [3, 4, 2, 3])
ZEROS = [
    {('a', 'b'): [(0, 1), (2, 3), (1, 0)], ('c',): [(1,)]},
    {('b', 'a'): [(3, 0), (3, 1), (3, 2)], ('c', 'd'): [(0, 0), (1, 2)]},   # removes b=3 entirely
]
ANSWERS = [('a', 'b'), ('c',), ('b',), ('c', 'd'), ('a', 'c'), ('b', 'd'), ('a', 'b', 'c')]
TOL = 1e-80

def meas(cl, total, rng, sigma=1.5):
    n = DOM.size(cl)
    y = rng.dirichlet(np.ones(n)) * total + rng.normal(0, sigma, n)
    return (None, y, sigma, cl)

def check(model, zeros, tag, failures, lines):
    total = model.total
    tables = {cl: model.project(cl) for cl in ANSWERS}
    full = model.datavector(flatten=False)
    for cl, f in tables.items():
        v = f.values
        if np.isnan(v).any():
            failures.append('%s: NaN in marginal %s' % (tag, cl))
        if abs(v.sum() - total) > 1e-6 * total:
            failures.append('%s: marginal %s sums to %r, total is %r' % (tag, cl, float(v.sum()), total))
        for zcl, cells in zeros.items():
            if set(zcl) <= set(cl):
                g = f.project(zcl).values
                for cell in cells:
                    if not g[cell] <= TOL * total:
                        failures.append('%s: impossible cell %s=%s has mass %.6g in the answer for %s'
                                        % (tag, zcl, cell, g[cell], cl))
        lines.append('%s %s %s' % (tag, cl, np.round(v.flatten(), 6).tolist()))
    if np.isnan(full).any() or abs(full.sum() - total) > 1e-6 * total:
        failures.append('%s: full vector sums to %r' % (tag, float(full.sum())))
    for zcl, cells in zeros.items():
        ax = tuple(i for i, a in enumerate(DOM.attrs) if a not in zcl)
        g = full.sum(axis=ax)
        order = [a for a in DOM.attrs if a in zcl]
        for cell in cells:
            idx = tuple(cell[zcl.index(a)] for a in order)
            if not g[idx] <= TOL * total:
                failures.append('%s: impossible cell %s=%s has mass %.6g in the full vector' % (tag, zcl, cell, g[idx]))
    lines.append('%s full %s' % (tag, np.round(full.flatten(), 6).tolist()))

def run():
    lines, failures = [], []
    for zi, zeros in enumerate(ZEROS):
        for engine in ['MD', 'RDA', 'IG']:
            for warm in [False, True]:
                rng = np.random.RandomState(10 * zi + 3)
                total = 90.0 + 10 * zi
                eng = FactoredInference(DOM, structural_zeros=zeros, iters=40, warm_start=warm)
                M1 = [meas(('a', 'b'), total, rng), meas(('c',), total, rng)]
                M2 = M1 + [meas(('b', 'c'), total, rng), meas(('d',), total, rng)]
                histories = [('fit', M1), ('refit', M2)]
                if engine != 'IG':     # IG divides by the Lipschitz constant: no answer at all for an empty set
                    histories = [('prior', [])] + histories + [('no-new-information', [])]
                for step, M in histories:
                    with contextlib.redirect_stdout(io.StringIO()):
                        model = eng.estimate(list(M), total=total, engine=engine)
                    tag = 'z%d/%s/%s/%s' % (zi, engine, 'warm' if warm else 'cold', step)
                    check(model, zeros, tag, failures, lines)
    return lines, failures

if __name__ == '__main__':
    lines, failures = run()
    if failures:
        print('FAIL: structural zeros / total mass violated')
        for f in failures[:12]:
            print('  ' + f)
        print('  (%d violations in total)' % len(failures))
        sys.exit(1)
    print('%d answers checked' % len(lines))
    print('PASS digest=' + hashlib.sha256('\n'.join(lines).encode()).hexdigest()[:16])
    sys.exit(0)

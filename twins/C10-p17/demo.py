""" C10 pair 1 - mirror_descent epilogue: potentials re-anchored per clique.

Checks, for models returned by FactoredInference.estimate with structural zeros:
  * no answer (in-clique marginal, out-of-clique marginal, full vector) is NaN
  * declared-impossible cells carry (numerically) zero mass
  * every answer sums to model.total
for MD (cold and warm-started histories), RDA and IG.
"""
import os, sys, hashlib, itertools, io, contextlib, warnings
ROOT = os.path.dirname(os.path.dirname(os.path.dirname(os.path.dirname(os.path.abspath(__file__)))))
sys.path.insert(0, os.path.join(ROOT, 'src'))
warnings.simplefilter('ignore')
import numpy as np
from mbi import Domain, FactoredInference
import mbi
assert os.path.abspath(mbi.__file__).startswith(ROOT), mbi.__file__

TOL = 1e-9
dom = Domain(['a', 'b', 'c', 'd'], [3, 4, 3, 2])
problems, digest = [], hashlib.sha256()

def truth(seed, zeros):
    rng = np.random.RandomState(seed)
    p = rng.rand(*dom.shape) + 0.1
    for cl, cells in zeros.items():
        ax = dom.axes(cl)
        for cell in cells:
            idx = [slice(None)] * len(dom)
            for a, v in zip(ax, cell):
                idx[a] = v
            p[tuple(idx)] = 0
    return 100 * p / p.sum()

def measure(p, cliques, seed, sigma=1.0):
    rng = np.random.RandomState(seed)
    ms = []
    for cl in cliques:
        other = tuple(i for i in range(len(dom)) if dom.attrs[i] not in cl)
        y = p.sum(axis=other).flatten() + rng.normal(0, sigma, dom.size(cl))
        ms.append((None, y, sigma, cl))
    return ms

def check(tag, model, zeros):
    answers = {}
    for r in (1, 2, 3):
        for attrs in itertools.combinations(dom.attrs, r):
            answers[attrs] = model.project(attrs).datavector(flatten=False)
    answers[dom.attrs] = model.datavector(flatten=False)
    for attrs, x in answers.items():
        if np.isnan(x).any():
            problems.append('%s: answer %s contains NaN' % (tag, attrs,))
            continue
        if abs(x.sum() - model.total) > 1e-6 * model.total:
            problems.append('%s: answer %s sums to %r, total %r' % (tag, attrs, x.sum(), model.total))
        for cl, cells in zeros.items():
            if set(cl) <= set(attrs):
                ax = [attrs.index(a) for a in cl]
                for cell in cells:
                    idx = [slice(None)] * len(attrs)
                    for a, v in zip(ax, cell):
                        idx[a] = v
                    m = np.abs(x[tuple(idx)]).sum()
                    if m > TOL * model.total:
                        problems.append('%s: answer %s has mass %.3g on impossible %s=%s' % (tag, attrs, m, cl, cell))
        digest.update(np.round(x, 4).astype(np.float64).tobytes())
    print('%-34s checked %d answers, total=%.4f' % (tag, len(answers), model.total))

def run(tag, zeros, rounds, engine, warm, iters=40):
    p = truth(7, zeros)
    eng = FactoredInference(dom, structural_zeros=zeros, iters=iters, warm_start=warm)
    ms = []
    for k, cliques in enumerate(rounds):
        ms = ms + measure(p, cliques, 100 + k)
        with contextlib.redirect_stdout(io.StringIO()):
            model = eng.estimate(ms, total=100.0, engine=engine, options={})
        check('%s round %d' % (tag, k), model, zeros)

Z_none = {}
Z_measured = {('a', 'b'): [(0, 1), (2, 3)]}
Z_mixed = {('b',): [(2,)], ('a', 'd'): [(1, 0)], ('b', 'c'): [(0, 0), (3, 2)]}
chain = [[('a', 'b'), ('b', 'c')], [('c', 'd')], [('a',), ('b', 'c')]]

run('MD  no zeros   cold', Z_none, chain[:1], 'MD', False)
run('MD  no zeros   warm', Z_none, chain, 'MD', True)
run('MD  measured   cold', Z_measured, chain[:2], 'MD', False)
run('MD  measured   warm', Z_measured, chain, 'MD', True)
run('MD  mixed      warm', Z_mixed, chain, 'MD', True)
run('RDA mixed      warm', Z_mixed, chain, 'RDA', True)
run('IG  mixed      warm', Z_mixed, chain, 'IG', True)

if problems:
    print('FAIL: %d violations of the structural-zero property, first ones:' % len(problems))
    for line in problems[:12]:
        print('   ', line)
    sys.exit(1)
print('PASS digest', digest.hexdigest()[:32])

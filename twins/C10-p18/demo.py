"""C10 pair 1 - JunctionTree._triangulated: fill-in computed on one graph copy.

Structural zeros must carry no mass in ANY answer of the returned model.  A zero
set lives in exactly one model clique (CliqueVector.combine); every other clique
that shares the attribute learns about it only through belief propagation, i.e.
only if the clique tree really is a junction tree (running intersection), i.e.
only if the elimination game produced a chordal graph.
"""
import os, sys, itertools, hashlib, io, contextlib
ROOT = os.path.dirname(os.path.dirname(os.path.dirname(os.path.abspath(__file__))))
sys.path.insert(0, os.path.join(ROOT, 'src'))
import numpy as np
import networkx as nx
from mbi import Domain, FactoredInference

TOL = 1e-30          # IG / RDA store mle() potentials: zeros become ~1e-100, not 0
lines, problems = [], []

def cycle(attrs):
    return [(attrs[i], attrs[(i + 1) % len(attrs)]) for i in range(len(attrs))]

def measurements(domain, cliques, seed, total=200.0):
    prng = np.random.RandomState(seed)
    out = []
    for cl in cliques:
        n = domain.size(cl)
        y = prng.dirichlet(np.ones(n)) * total + prng.normal(0, 2.0, n)
        out.append((None, y, 2.0, cl))
    return out

def declared_mass(fac, attrs, zeros):
    """ largest mass an answer over `attrs` puts on a declared cell """
    worst = 0.0
    for key, cells in zeros.items():
        key = (key,) if isinstance(key, str) else tuple(key)
        if not set(key) <= set(attrs):
            continue
        sub = fac.project(key).values
        for c in cells:
            worst = max(worst, abs(float(sub[tuple(c)])))
    return worst

def check(name, model, zeros, total):
    dom = model.domain
    asked = [tuple(cl) for cl in model.cliques]
    asked += [c for r in (1, 2) for c in itertools.combinations(dom.attrs, r)]
    asked += [tuple(reversed(c)) for c in itertools.combinations(dom.attrs, 2)]
    worst, where, sig = 0.0, None, []
    for attrs in asked:
        fac = model.project(attrs)
        v = fac.values
        if np.isnan(v).any():
            problems.append('%s: NaN in project(%s)' % (name, attrs,))
        if not np.isclose(v.sum(), total, rtol=1e-6):
            problems.append('%s: project(%s) sums to %r, not %r' % (name, attrs, v.sum(), total))
        m = declared_mass(fac, attrs, zeros)
        if m > worst:
            worst, where = m, attrs
        sig.append(np.round(v.flatten(), 5))
    x = model.datavector(flatten=False)
    from mbi import Factor
    full = Factor(dom, x)
    m = declared_mass(full, dom.attrs, zeros)
    if m > worst:
        worst, where = m, 'datavector'
    if np.isnan(x).any() or not np.isclose(x.sum(), total, rtol=1e-6):
        problems.append('%s: datavector NaN or wrong total' % name)
    sig.append(np.round(x.flatten(), 5))
    # the clique tree itself: every attribute must induce a connected subtree
    tree = model.junction_tree.tree
    rip = all(nx.is_connected(tree.subgraph([c for c in tree.nodes() if a in c]))
              for a in dom.attrs)
    if worst > TOL:
        problems.append('%s: declared-impossible cell has mass %.6g in %s' % (name, worst, where))
    digest = hashlib.sha256(np.concatenate(sig).tobytes()).hexdigest()[:16]
    lines.append('%-34s cliques=%d rip=%s zero_ok=%s digest=%s'
                 % (name, len(model.cliques), rip, worst <= TOL, digest))

def run(name, attrs, sizes, cliques, zeros, engines, elim=None, seed=0, warm=False):
    dom = Domain(attrs, sizes)
    eng = FactoredInference(dom, structural_zeros=zeros, iters=60, warm_start=warm,
                            elim_order=elim)
    meas = measurements(dom, cliques, seed)
    for k, e in enumerate(engines):
        with contextlib.redirect_stdout(io.StringIO()):
            use = meas if not warm else meas[:len(meas) - (len(engines) - 1 - k)]
            model = eng.estimate(use, total=200.0, engine=e)
        check('%s/%s#%d' % (name, e, k), model, zeros, 200.0)

np.random.seed(0)
A5, A6 = list('abcde'), list('abcdef')
# 1. chain and 4-cycle: one level of fill-in is enough
run('chain4', list('abcd'), [2, 3, 4, 3], [('a', 'b'), ('b', 'c'), ('c', 'd')],
    {('c',): [(1,)], ('a', 'b'): [(0, 2), (1, 0)]}, ['MD', 'RDA', 'IG'])
run('cycle4', list('abcd'), [3, 3, 3, 3], cycle(list('abcd')),
    {('d',): [(0,)], ('b', 'c'): [(0, 0), (2, 1)]}, ['MD', 'RDA', 'IG'])
# 2. 5-cycle and 6-cycle: the second fill edge only exists because of the first one
z5 = {('d',): [(0,)], ('d', 'e'): [(2, 1)], ('b', 'c'): [(1, 1)]}
run('cycle5', A5, [3, 3, 3, 3, 3], cycle(A5), z5, ['MD', 'RDA', 'IG'])
run('cycle5-warm', A5, [3, 3, 3, 3, 3], cycle(A5), z5, ['MD', 'MD', 'IG'], warm=True, seed=3)
run('cycle5-elim', A5, [2, 3, 2, 3, 2], cycle(A5), {('c',): [(1,)], ('e', 'd'): [(0, 2)]},
    ['MD'], elim=['c', 'd', 'e', 'a', 'b'], seed=5)
run('cycle6', A6, [2, 3, 2, 3, 2, 3], cycle(A6), {('e',): [(0,)], 'c': [(1,)]},
    ['MD', 'RDA'], seed=7)
# 3. zero set on an attribute pair nobody measured, closing a long cycle
run('open6+zero', A6, [2, 2, 3, 2, 2, 3], cycle(A6)[:-1], {('f', 'a'): [(0, 1), (2, 0)], ('d',): [(1,)]},
    ['MD', 'IG'], seed=11)

for l in lines:
    print(l)
if problems:
    print('FAIL')
    for p in problems:
        print('  ' + p)
    sys.exit(1)
print('PASS', hashlib.sha256('\n'.join(lines).encode()).hexdigest()[:16])

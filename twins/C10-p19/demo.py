"""C10 pair 1 - belief_propagation: messages across an EMPTY separator.

Clause checked: cells declared structurally impossible get zero mass in every
answer "while the remaining mass still sums to the total" - here for zero sets
declared on an UNMEASURED attribute group that shares no attribute with the
measured cliques (its clique is a separate component of the junction tree),
for all three solvers, cold and warm start.
"""
import os, sys, io, hashlib, contextlib, warnings
ROOT = os.path.dirname(os.path.dirname(os.path.dirname(os.path.abspath(__file__))))
sys.path.insert(0, os.path.join(ROOT, 'src'))
warnings.simplefilter('ignore')
import numpy as np
from mbi import Domain, FactoredInference

lines, problems = [], []

def rec(s):
    lines.append(s)

def fmt(x):
    return ' '.join('%.6e' % (0.0 if abs(v) < 1e-30 else v) for v in np.ravel(x))

def check(tag, model, zeros, total, queries):
    for q in queries:
        f = model.project(q)
        v = f.values
        if not np.all(np.isfinite(v)):
            problems.append('%s: NaN/inf in answer %s' % (tag, q))
        s = float(v.sum())
        if abs(s - total) > 1e-6 * total:
            problems.append('%s: answer %s sums to %.6f, total is %.6f' % (tag, q, s, total))
        rec('%s %s sum=%.6e :: %s' % (tag, q, s, fmt(v)))
        for key, cells in zeros.items():
            if set(key) <= set(q):
                g = f.project(key).values
                for c in cells:
                    if abs(g[tuple(c)]) > 1e-12 * total:
                        problems.append('%s: declared zero %s=%s has mass %.3e in answer %s'
                                        % (tag, key, c, g[tuple(c)], q))
    x = model.datavector(flatten=False)
    if not np.all(np.isfinite(x)):
        problems.append('%s: NaN in datavector' % tag)
    if abs(x.sum() - total) > 1e-6 * total:
        problems.append('%s: datavector sums to %.6f, total is %.6f' % (tag, x.sum(), total))
    axes = model.domain.attrs
    for key, cells in zeros.items():
        other = tuple(i for i, a in enumerate(axes) if a not in key)
        g = x.sum(axis=other)
        order = [a for a in axes if a in key]
        for c in cells:
            idx = tuple(c[key.index(a)] for a in order)
            if abs(g[idx]) > 1e-12 * total:
                problems.append('%s: declared zero %s=%s has mass %.3e in the full vector'
                                % (tag, key, c, g[idx]))
    rec('%s datavector sum=%.6e sha=%s' % (tag, x.sum(),
        hashlib.sha256(np.round(x, 7).tobytes()).hexdigest()[:12]))

def run(tag, dom, zeros, rounds, total, engine, warm, queries, iters=60):
    eng = FactoredInference(dom, structural_zeros=zeros, iters=iters, warm_start=warm)
    for k, meas in enumerate(rounds):
        with contextlib.redirect_stdout(io.StringIO()):
            model = eng.estimate(meas, total=total, engine=engine)
        check('%s/%s/round%d' % (tag, engine, k), model, zeros, total, queries)

rng = np.random.RandomState(20140)

# A: zero set on an unmeasured pair (c,d); measurements only on (a,b)
domA = Domain(['a', 'b', 'c', 'd'], [3, 4, 2, 3])
zA = {('c', 'd'): [(0, 1), (1, 2)]}
yab = rng.rand(12) * 40
yc = np.array([70.0, 50.0])
roundsA = [[(None, yab, 1.0, ('a', 'b'))],
           [(None, yab, 1.0, ('a', 'b')), (None, yc, 1.0, ('c',))]]
qA = [('a', 'b'), ('c', 'd'), ('c',), ('d',), ('a',), ('b', 'd')]

# B: zero set on one unmeasured attribute e, next to a connected measured chain
domB = Domain(['a', 'b', 'c', 'e'], [2, 3, 2, 4])
zB = {('e',): [(1,), (3,)], ('a', 'b'): [(1, 2)]}
y1 = rng.rand(6) * 30
y2 = rng.rand(6) * 30
roundsB = [[(None, y1, 2.0, ('a', 'b')), (None, y2, 2.0, ('b', 'c'))]]
qB = [('a', 'b'), ('b', 'c'), ('e',), ('a', 'c'), ('c', 'e')]

# C: fully connected model (no empty separator anywhere): regression input
domC = Domain(['a', 'b', 'c'], [3, 3, 2])
zC = {('b',): [(0,)], ('b', 'c'): [(2, 1)]}
y3 = rng.rand(9) * 20
roundsC = [[(None, y3, 1.0, ('a', 'b'))], [(None, y3, 1.0, ('a', 'b')), (None, rng.rand(6) * 20, 1.0, ('b', 'c'))]]
qC = [('a', 'b'), ('b', 'c'), ('a', 'c'), ('c',)]

for engine in ['MD', 'RDA', 'IG']:
    for warm in [False, True]:
        w = 'warm' if warm else 'cold'
        run('A-' + w, domA, zA, roundsA, 120.0, engine, warm, qA)
        run('B-' + w, domB, zB, roundsB, 90.0, engine, warm, qB)
        run('C-' + w, domC, zC, roundsC, 75.0, engine, warm, qC)

digest = hashlib.sha256('\n'.join(lines).encode()).hexdigest()
if problems:
    print('FAIL: %d violations of C10 (zero mass on declared cells, remaining mass sums to total, no NaN)' % len(problems))
    for p in problems[:12]:
        print('  ' + p)
    sys.exit(1)
for l in lines:
    print(l)
print('PASS digest=' + digest)

"""C10 pair 2 -- out-of-clique answers from GraphicalModel.calculate_many_marginals when
structural zeros empty a whole value of a junction-tree separator.

Site under test: Factor.__truediv__ (src/mbi/factor.py), the factor / factor branch that builds
the conditionals P(Cj | Sij) = mu_Cj / mu_Sij inside calculate_many_marginals.

For every scenario x solver the demo asks the returned model for all pairwise (mostly
out-of-clique) marginals through calculate_many_marginals and also through project(), and checks
  * no answer contains NaN / inf
  * every answer sums to the requested total
  * every declared cell has zero mass in every answer that covers the declared attributes
  * calculate_many_marginals agrees with project()
and prints a deterministic digest of the answers.
"""
import os, sys, io, contextlib, hashlib, itertools, warnings

ROOT = os.path.dirname(os.path.dirname(os.path.dirname(os.path.abspath(__file__))))
sys.path.insert(0, os.path.join(ROOT, 'src'))
warnings.filterwarnings('ignore')

import numpy as np
import mbi
from mbi import Domain, FactoredInference

assert os.path.abspath(mbi.__file__).startswith(os.path.join(ROOT, 'src')), mbi.__file__

TOTAL = 150.0
TOL = 1e-9 * TOTAL
DOM = Domain(['A', 'B', 'C', 'D'], [3, 4, 3, 2])


def measurement(rng, cl, sigma=2.0):
    n = DOM.size(cl)
    y = rng.rand(n)
    y = y / y.sum() * TOTAL + rng.normal(0, sigma, n)
    return (None, y, sigma, cl)


CHAIN = [('A', 'B'), ('B', 'C'), ('C', 'D')]
SCENARIOS = {
    # no structural zeros at all
    'no-zeros': (CHAIN, {}),
    # scattered zeros, every separator value keeps some mass
    'scattered': (CHAIN, {('A', 'B'): [(0, 0), (1, 2)], ('C', 'D'): [(2, 1)]}),
    # zeros on an unmeasured bridging group
    'bridging': ([('A', 'B'), ('C', 'D')], {('B', 'C'): [(0, 0), (3, 2), (2, 1)]}),
    # one-way zero set on an attribute that is NOT a separator
    'one-way-leaf': (CHAIN, {('A',): [(1,)], ('D',): [(0,)]}),
    # one-way zero set on a separator attribute: value B=1 is impossible
    'one-way-separator': (CHAIN, {('B',): [(1,)]}),
    # the same fact spelled as a two-way zero set: every (a, B=2) is impossible
    'row-of-pair': (CHAIN, {('A', 'B'): [(0, 2), (1, 2), (2, 2)]}),
    # two separators hit, plus a scattered cell
    'two-separators': (CHAIN, {('C',): [(0,)], ('B', 'C'): [(3, 1), (3, 2)], ('A', 'B'): [(2, 0)]}),
    # star-shaped model, separator attribute A
    'star': ([('A', 'B'), ('A', 'C'), ('A', 'D')], {('A',): [(2,)], ('A', 'D'): [(0, 1)]}),
}


def zero_mass(ans, proj, zeros):
    """largest mass `ans` (a Factor over proj) puts on any declared-impossible cell"""
    worst = 0.0
    for cl, cells in zeros.items():
        if not set(cl) <= set(proj):
            continue
        marg = ans.project(cl).datavector(flatten=False)
        for cell in cells:
            v = marg[tuple(cell)]
            worst = max(worst, abs(v)) if np.isfinite(v) else np.inf
    return worst


def run(name, cliques, zeros, solver, seed):
    rng = np.random.RandomState(seed)
    engine = FactoredInference(DOM, structural_zeros=zeros, iters=40)
    ms = [measurement(rng, cl) for cl in cliques]
    with contextlib.redirect_stdout(io.StringIO()):
        model = engine.estimate(ms, total=TOTAL, engine=solver, options={})
    tag = '%s/%s' % (name, solver)
    projections = [p for r in (1, 2, 3) for p in itertools.combinations(DOM.attrs, r)]
    direct = {p: model.project(p) for p in projections}
    many = model.calculate_many_marginals(projections)
    problems, lines = [], []
    for p in projections:
        for how, ans in (('project', direct[p]), ('calculate_many_marginals', many[p])):
            x = ans.datavector()
            if not np.isfinite(x).all():
                problems.append('%s: %s(%s) contains %d NaN/inf entries out of %d'
                                % (tag, how, p, (~np.isfinite(x)).sum(), x.size))
                continue
            if abs(x.sum() - TOTAL) > 1e-6 * TOTAL:
                problems.append('%s: %s(%s) sums to %r, not %r' % (tag, how, p, x.sum(), TOTAL))
            z = zero_mass(ans, p, zeros)
            if not (z <= TOL):
                problems.append('%s: %s(%s) puts mass %.6g on an impossible cell' % (tag, how, p, z))
        a, b = direct[p].datavector(), many[p].transpose(p).datavector()
        if np.isfinite(a).all() and np.isfinite(b).all() and not np.allclose(a, b, atol=1e-7 * TOTAL):
            problems.append('%s: project and calculate_many_marginals disagree on %s' % (tag, p))
        lines.append('%s %s %s' % (tag, ''.join(p), hashlib.sha256(
            (np.round(np.nan_to_num(b, nan=-1.0), 6) + 0.0).tobytes()).hexdigest()[:12]))
    return problems, lines


def main():
    problems, lines = [], []
    seed = 100
    for name, (cliques, zeros) in SCENARIOS.items():
        for solver in ['MD', 'RDA', 'IG']:
            seed += 1
            p, l = run(name, cliques, zeros, solver, seed)
            problems += p
            lines += l
    for l in lines:
        print(l)
    print('digest', hashlib.sha256('\n'.join(lines).encode()).hexdigest())
    if problems:
        print('FAIL: answers of the returned model are not clean around structural zeros:')
        for p in problems:
            print('  ' + p)
        sys.exit(1)
    print('PASS')
    sys.exit(0)


if __name__ == '__main__':
    main()

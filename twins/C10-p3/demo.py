"""
C10 / pair 1 -- several structural-zero sets absorbed by ONE model clique.

CliqueVector.combine() is the only place where the 0/-inf indicator factors reach the
potentials (FactoredInference._setup, the RDA re-initialisation, warm start).  The property
says that EVERY declared cell has zero mass, also when two or more zero sets (a clique and one
of its sub-cliques, two single attributes of one measured pair, an unmeasured group and one of
its attributes ...) end up in the same maximal clique of the model.

The program runs a handful of such configurations through all three solvers, twice (cold and
warm-started with a grown measurement set), and checks the declared cells in
  * the in-clique marginal of the zero set itself,
  * an out-of-clique marginal (variable elimination over the potentials),
  * the full data vector,
together with "mass sums to total" and "no NaN".

exit 0 + PASS + digest : property holds           (unmodified code, keep/patch.diff)
exit 1 + FAIL          : a declared cell has mass (break/patch.diff)
"""
import os, sys

# the library iterates over sets of attribute names; pin the string hash so that the digest
# is reproducible from run to run
if os.environ.get('PYTHONHASHSEED') != '0':
    os.environ['PYTHONHASHSEED'] = '0'
    os.execv(sys.executable, [sys.executable] + sys.argv)

HERE = os.path.abspath(__file__)
ROOT = os.path.dirname(os.path.dirname(os.path.dirname(HERE)))
sys.path.insert(0, os.path.join(ROOT, 'src'))

import contextlib, hashlib, io, itertools, warnings
warnings.simplefilter('ignore')
import numpy as np
np.seterr(all='ignore')
import mbi
assert os.path.abspath(mbi.__file__).startswith(ROOT), mbi.__file__
from mbi import Domain, FactoredInference

TOTAL = 200.0
TOL = 1e-6          # RDA / IG leave ~1e-100 behind (mle uses log(x + 1e-100)); that is "zero"
DOMAIN = Domain(['a', 'b', 'c', 'd', 'e'], [3, 4, 2, 3, 2])


def measurement(rng, cl, zeros_hit):
    """ identity measurement on cl; the answers CONTRADICT the zero sets (plenty of mass is
        reported on the impossible cells), so any cell that lost its -inf is filled up """
    shape = DOMAIN.project(cl).shape
    y = rng.rand(*shape)
    for idx in zeros_hit:
        y[idx] += 3.0
    y = y / y.sum() * TOTAL + rng.randn(*shape)
    return (None, y.flatten(), 1.0, cl)


# name, zero sets, measurements of round 1, extra measurements of round 2 (warm start),
# cells of round-1 measurements that get extra (contradicting) mass
CONFIGS = [
    ('single set on a measured clique (control)',
     {('a', 'b'): [(0, 1), (2, 3)]},
     [('a', 'b'), ('b', 'c')], [('c', 'd')]),
    ('clique + one of its attributes',
     {('a', 'b'): [(0, 1), (2, 3), (1, 0)], ('b',): [(2,)]},
     [('a', 'b'), ('b', 'c')], [('c', 'd')]),
    ('attribute first, then the clique',
     {('b',): [(2,)], ('a', 'b'): [(0, 1), (2, 3), (1, 0)]},
     [('a', 'b'), ('b', 'c')], [('c', 'd')]),
    ('two single attributes of one measured pair',
     {('a',): [(1,)], ('b',): [(0,), (3,)]},
     [('a', 'b'), ('c', 'd')], [('b', 'c')]),
    ('unmeasured group + one of its attributes + a measured pair',
     {('c', 'd'): [(0, 0), (1, 2)], ('d',): [(1,)], ('a', 'b'): [(1, 1)]},
     [('a', 'b'), ('a',)], [('b', 'e')]),
    ('sets living in different cliques until the warm-started round merges them',
     {('a', 'b'): [(0, 0), (2, 1)], ('c', 'd'): [(1, 1)], ('c',): [(0,)]},
     [('a', 'b'), ('c', 'd')], [('a', 'b', 'c')]),
    ('three-way zero clique with two of its faces',
     {('a', 'b', 'c'): [(0, 0, 0), (2, 3, 1)], ('a', 'c'): [(1, 1)], ('b', 'c'): [(2, 0)]},
     [('a', 'b'), ('b', 'c'), ('a', 'c')], [('c', 'e')]),
]


def declared_mass(values, attrs, cl, cells):
    """ mass that the array `values` (axes = attrs) puts on the declared cells of zero set cl """
    worst = 0.0
    for cell in cells:
        idx = [slice(None)] * len(attrs)
        for a, v in zip(cl, cell):
            idx[attrs.index(a)] = v
        worst = max(worst, float(np.abs(values[tuple(idx)]).sum()))
    return worst


def run():
    problems = []
    lines = []
    for name, zeros, first, second in CONFIGS:
        for solver in ['MD', 'RDA', 'IG']:
            rng = np.random.RandomState(1234)
            hit = {}
            for cl in first + second:
                hit[cl] = []
                for zc, cells in zeros.items():
                    if set(zc) <= set(cl):
                        for cell in cells:
                            idx = [slice(None)] * len(cl)
                            for a, v in zip(zc, cell):
                                idx[cl.index(a)] = v
                            hit[cl].append(tuple(idx))
            m1 = [measurement(rng, cl, hit[cl]) for cl in first]
            m2 = m1 + [measurement(rng, cl, hit[cl]) for cl in second]
            engine = FactoredInference(DOMAIN, structural_zeros=zeros, iters=40, warm_start=True)
            for rnd, meas in enumerate([m1, m2]):
                with contextlib.redirect_stdout(io.StringIO()):
                    model = engine.estimate(meas, total=TOTAL, engine=solver)
                tag = '%-4s round %d  %s' % (solver, rnd + 1, name)
                full = model.datavector(flatten=False)
                attrs = list(DOMAIN.attrs)
                answers = [('datavector', attrs, full)]
                for zc, cells in zeros.items():
                    answers.append(('project%s' % (zc,), list(zc), model.project(zc).values))
                    # an out-of-clique marginal containing the zero set
                    others = [a for a in attrs if a not in zc]
                    for extra in others:
                        q = tuple(zc) + (extra,)
                        if not any(set(q) <= set(c) for c in model.cliques):
                            answers.append(('project%s' % (q,), list(q), model.project(q).values))
                            break
                for what, ax, values in answers:
                    if np.isnan(values).any():
                        problems.append('%s: NaN in %s' % (tag, what))
                    if abs(values.sum() - TOTAL) > 1e-6 * TOTAL:
                        problems.append('%s: %s sums to %r, not %r' % (tag, what, float(values.sum()), TOTAL))
                    for zc, cells in zeros.items():
                        if set(zc) <= set(ax):
                            mass = declared_mass(values, ax, zc, cells)
                            if not mass <= TOL:
                                problems.append('%s: %s puts mass %.6g on the cells declared impossible by zero set %s'
                                                % (tag, what, mass, zc))
                h = hashlib.sha256()
                for what, ax, values in answers:
                    h.update(what.encode())
                    h.update((np.round(values, 5) + 0.0).astype('<f8').tobytes())
                lines.append('%s  cliques=%d  %s' % (tag, len(model.cliques), h.hexdigest()[:16]))
    return problems, lines


if __name__ == '__main__':
    problems, lines = run()
    if problems:
        print('FAIL: structural zeros carry mass / answers are broken (%d findings)' % len(problems))
        for p in problems[:40]:
            print('  ' + p)
        sys.exit(1)
    print('PASS')
    for l in lines:
        print(l)
    print('digest', hashlib.sha256('\n'.join(lines).encode()).hexdigest())
    sys.exit(0)

"""C10 pair 1 - Factor.active (the 0/-inf indicator factor).

Declared structural zeros must carry no mass in any answer of the returned
model (in-clique marginals, out-of-clique marginals, full vector), for every
solver, while the remaining mass sums to the total and nothing is NaN.

The scenarios below differ only in HOW MANY cells are declared for a clique and
in the shape of that clique.  Scenario "coincide-*" declares exactly
|first attribute| cells on a 2-attribute clique whose second attribute is
binary, so the (k, r) array of declared cells has the same shape as the clique.
"""
import os, sys, io, contextlib, hashlib, warnings

ROOT = os.path.dirname(os.path.dirname(os.path.dirname(os.path.abspath(__file__))))
sys.path.insert(0, os.path.join(ROOT, 'src'))
warnings.simplefilter('ignore')

import numpy as np
import mbi
from mbi import Domain, FactoredInference, Factor

assert os.path.abspath(mbi.__file__).startswith(os.path.join(ROOT, 'src')), mbi.__file__

DOM = Domain(['a', 'b', 'c', 'd'], [3, 2, 4, 2])
TOTAL = 300.0
TOL = 1e-9 * TOTAL


def meas(proj, seed):
    rs = np.random.RandomState(seed)
    n = DOM.size(proj)
    y = rs.rand(n) * TOTAL / n * 2
    return (np.eye(n), y, 1.0, proj)


MEAS = [meas(('a', 'b'), 1), meas(('b', 'c'), 2), meas(('d',), 3)]

SCENARIOS = [
    # name, zero sets
    ('two-cells-ab', {('a', 'b'): [(0, 1), (2, 0)]}),
    ('coincide-ab', {('a', 'b'): [(0, 1), (2, 0), (1, 1)]}),             # 3 cells x 2 attrs, clique shape (3,2)
    ('coincide-cd-unmeasured', {('c', 'd'): [(0, 0), (1, 1), (3, 0), (2, 1)]}),  # 4 x 2, clique shape (4,2)
    ('one-attr+three-attr', {('c',): [(1,), (3,)], ('a', 'b', 'd'): [(0, 0, 0), (1, 1, 1), (2, 0, 1)]}),
    ('numpy-array-cells', {('a', 'b'): np.array([[1, 0], [2, 1], [0, 0]])}),  # same coincidence, ndarray form
]

QUERIES = [('a', 'b'), ('b', 'a'), ('c', 'd'), ('a', 'd'), ('b', 'c'), ('a', 'c', 'd'), ('c',)]

problems = []
digest = hashlib.sha256()
lines = []


def note(msg):
    problems.append(msg)


def check_factor(name, cl, cells):
    """ the indicator factor itself: -inf exactly on the declared cells, 0 elsewhere """
    dom = DOM.project(cl)
    f = Factor.active(dom, cells)
    expect = np.zeros(dom.shape)
    for cell in np.array(cells):
        expect[tuple(cell)] = -np.inf
    if not np.array_equal(f.values, expect):
        got = sorted(map(tuple, np.argwhere(f.values == -np.inf).tolist()))
        want = sorted(map(tuple, np.argwhere(expect == -np.inf).tolist()))
        note('%s: Factor.active%s marks %s, declared %s' % (name, cl, got, want))
    return f


def mass_at(answer, attrs, cl, cell):
    """ mass the answer over `attrs` gives to the declared `cell` of clique `cl` (cl subset of attrs) """
    vals = answer.values if hasattr(answer, 'values') else answer
    idx = [slice(None)] * len(attrs)
    for a, v in zip(cl, cell):
        idx[attrs.index(a)] = int(v)
    return float(np.sum(vals[tuple(idx)]))


for name, zeros in SCENARIOS:
    for cl in zeros:
        f = check_factor(name, cl, zeros[cl])
        digest.update(f.values.tobytes())
    for solver in ['MD', 'RDA', 'IG']:
        engine = FactoredInference(DOM, structural_zeros=zeros, iters=40)
        with contextlib.redirect_stdout(io.StringIO()):
            model = engine.estimate(MEAS, total=TOTAL, engine=solver)
        answers = {q: model.project(q) for q in QUERIES}
        full = model.datavector(flatten=False)
        answers[DOM.attrs] = full
        worst = 0.0
        for q, ans in answers.items():
            vals = ans.values if hasattr(ans, 'values') else ans
            if np.isnan(vals).any():
                note('%s/%s: NaN in answer %s' % (name, solver, q))
            if abs(vals.sum() - TOTAL) > 1e-6 * TOTAL:
                note('%s/%s: answer %s sums to %r, total is %r' % (name, solver, q, float(vals.sum()), TOTAL))
            for cl in zeros:
                if set(cl) <= set(q):
                    for cell in np.array(zeros[cl]):
                        m = mass_at(ans, tuple(q), cl, cell)
                        worst = max(worst, abs(m))
                        if not abs(m) <= TOL:
                            note('%s/%s: declared-impossible cell %s=%s has mass %.6g in answer %s'
                                 % (name, solver, cl, tuple(int(v) for v in cell), m, q))
            digest.update(np.round(np.asarray(vals, dtype=float), 6).tobytes())
        lines.append('%-24s %-3s cliques=%s  max mass on declared cells=%.1e  sum(full)=%.6f'
                     % (name, solver, model.cliques, worst, float(full.sum())))

for l in lines:
    print(l)
if problems:
    print('FAIL: structural zeros are not honoured (%d violations); first few:' % len(problems))
    for p in problems[:8]:
        print('  -', p)
    sys.exit(1)
print('digest', digest.hexdigest())
print('PASS')
sys.exit(0)

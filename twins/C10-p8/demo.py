"""C10 pair 2 - GraphicalModel.project, cached-marginal route, across a SEQUENCE of answers.

Property clause exercised: every answer of the returned model gives zero mass to
the declared-impossible cells "while the remaining mass still sums to the total"
- in-clique marginals, out-of-clique marginals, the full vector AND synthetic
records, i.e. also for the marginals that are asked for again after synthetic
records have been drawn from the same model.

synthetic_data() rescales the marginal it is handed IN PLACE
(`counts *= total / counts.sum()`), so project() must never hand out the
model's own cached arrays.  Only models whose cliques are all singletons can run
synthetic_data() to completion under pandas 3 (that is exactly the model AIM /
MST build from their initial one-way measurements), so those are used here; one
2-way scenario checks a caller that normalises the returned Factor in place.
"""
import os, sys, io, contextlib, hashlib, warnings

ROOT = os.path.dirname(os.path.dirname(os.path.dirname(os.path.abspath(__file__))))
sys.path.insert(0, os.path.join(ROOT, 'src'))
warnings.simplefilter('ignore')

import numpy as np
import mbi
from mbi import Domain, FactoredInference

assert os.path.abspath(mbi.__file__).startswith(os.path.join(ROOT, 'src')), mbi.__file__

DOM = Domain(['a', 'b', 'c'], [3, 4, 2])
ZEROS = {('a',): [(1,)], ('c',): [(0,)]}          # zero sets on single (measured) attributes
ZEROS2 = {('a', 'b'): [(0, 1), (2, 3)], ('c',): [(0,)]}

problems = []
lines = []
digest = hashlib.sha256()


def note(msg):
    problems.append(msg)


def meas(proj, seed, scale):
    rs = np.random.RandomState(seed)
    n = DOM.size(proj)
    y = rs.rand(n) * scale / n * 2
    return (np.eye(n), y, 2.0, proj)


def fit(zeros, measurements, total, solver, warm=False):
    engine = FactoredInference(DOM, structural_zeros=zeros, iters=40, warm_start=warm)
    with contextlib.redirect_stdout(io.StringIO()):
        model = engine.estimate(measurements, total=total, engine=solver)
        if warm:   # second, warm-started round with one more measurement
            model = engine.estimate(measurements + [meas(measurements[0][3], 99, 250.0)], total=total, engine=solver)
    return model


def snapshot(model, queries):
    ans = {q: np.array(model.project(q).values, dtype=float) for q in queries}
    ans['full'] = np.array(model.datavector(flatten=False), dtype=float)
    return ans


def check_answers(tag, ans, zeros, total):
    tol = 1e-9 * total
    for q, vals in ans.items():
        attrs = DOM.attrs if q == 'full' else tuple(q)
        if np.isnan(vals).any():
            note('%s: NaN in answer %s' % (tag, q))
        if abs(vals.sum() - total) > 1e-6 * total:
            note('%s: answer %s sums to %.6f but the model total is %.6f' % (tag, q, vals.sum(), total))
        for cl, cells in zeros.items():
            if set(cl) <= set(attrs):
                for cell in cells:
                    idx = [slice(None)] * len(attrs)
                    for a, v in zip(cl, cell):
                        idx[attrs.index(a)] = v
                    m = float(np.sum(vals[tuple(idx)]))
                    if not abs(m) <= tol:
                        note('%s: declared-impossible cell %s=%s has mass %.6g in answer %s' % (tag, cl, cell, m, q))


def compare(tag, before, after):
    for q in before:
        if not np.array_equal(before[q], after[q]):
            note('%s: answer %s changed between two identical queries (max abs change %.6g)'
                 % (tag, q, float(np.max(np.abs(before[q] - after[q])))))


ONEWAY = [meas(('a',), 1, 250.0), meas(('b',), 2, 250.0), meas(('c',), 3, 250.0)]
Q1 = [('a',), ('b',), ('c',), ('a', 'c'), ('c', 'b')]

# ---- scenarios 1-3: one-way model, records drawn, then the same questions asked again
for solver in ['MD', 'RDA', 'IG']:
    for label, total, rows, warm in [('total=250,rows=40', 250.0, 40, False),
                                     ('total=None,rows=None', None, None, False),
                                     ('warm,total=180.5,rows=None', 180.5, None, True)]:
        tag = '%s/%s' % (solver, label)
        model = fit(ZEROS, ONEWAY, total, solver, warm)
        T = float(model.total)
        before = snapshot(model, Q1)
        check_answers(tag + ' [before records]', before, ZEROS, T)
        np.random.seed(12345)
        synth = model.synthetic_data(rows=rows) if rows is not None else model.synthetic_data()
        df = synth.df
        nbad = int((df['a'] == 1).sum() + (df['c'] == 0).sum())
        if nbad:
            note('%s: %d synthetic records fall in declared-impossible cells' % (tag, nbad))
        after = snapshot(model, Q1)
        check_answers(tag + ' [after records]', after, ZEROS, T)
        compare(tag, before, after)
        hist = [np.bincount(df[c].values, minlength=DOM[c]).tolist() for c in DOM.attrs]
        for q in before:
            digest.update(np.round(before[q], 6).tobytes())
            digest.update(np.round(after[q], 6).tobytes())
        digest.update(repr(hist).encode())
        lines.append('%-34s total=%.4f rows=%d bad_records=%d  sum(a) before=%.4f after=%.4f'
                     % (tag, T, df.shape[0], nbad, before[('a',)].sum(), after[('a',)].sum()))

# ---- scenario 4: 2-way model; the caller turns a returned marginal into probabilities in place
for solver in ['MD', 'RDA', 'IG']:
    tag = '%s/two-way,caller-normalises' % solver
    M2 = [meas(('a', 'b'), 5, 250.0), meas(('c',), 6, 250.0)]
    model = fit(ZEROS2, M2, 250.0, solver)
    Q2 = [('a', 'b'), ('b', 'a'), ('c',), ('a',), ('b', 'c')]
    before = snapshot(model, Q2)
    check_answers(tag + ' [before]', before, ZEROS2, 250.0)
    for q in [('a', 'b'), ('c',)]:
        p = model.project(q)
        p.values /= p.values.sum()          # caller-side normalisation of ITS OWN copy
    after = snapshot(model, Q2)
    check_answers(tag + ' [after]', after, ZEROS2, 250.0)
    compare(tag, before, after)
    for q in before:
        digest.update(np.round(before[q], 6).tobytes())
        digest.update(np.round(after[q], 6).tobytes())
    lines.append('%-34s total=%.4f  sum(a,b) before=%.4f after=%.4f'
                 % (tag, 250.0, before[('a', 'b')].sum(), after[('a', 'b')].sum()))

for l in lines:
    print(l)
if problems:
    print('FAIL: answers of the returned model do not keep the total / change between calls (%d violations); first few:' % len(problems))
    for p in problems[:10]:
        print('  -', p)
    sys.exit(1)
print('digest', digest.hexdigest())
print('PASS')
sys.exit(0)

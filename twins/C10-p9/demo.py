#!/usr/bin/env python
"""C10 pair 1 - structural zeros in the full data vector when the clique order permutes the attributes.

Exercises FactoredInference with structural zeros for all three solvers (MD, RDA, IG),
cold and warm-started, on several model shapes, and checks every kind of answer of the
returned model (in-clique marginals, out-of-clique marginals, the full data vector):

  * cells declared structurally impossible carry (numerically) no mass,
  * every answer sums to the total,
  * no answer contains NaN / inf.

Exit 0 + "PASS" + deterministic digest when everything holds, exit 1 + "FAIL" otherwise.
"""
import os, sys

# set / dict-of-str iteration order influences floating point summation order inside the
# library (greedy elimination orders, separator tuples), so pin the hash seed.
if os.environ.get('PYTHONHASHSEED') != '0':
    env = dict(os.environ, PYTHONHASHSEED='0')
    os.execve(sys.executable, [sys.executable] + sys.argv, env)

HERE = os.path.abspath(__file__)
ROOT = os.path.dirname(os.path.dirname(os.path.dirname(HERE)))
sys.path.insert(0, os.path.join(ROOT, 'src'))

import io, itertools, hashlib, warnings, contextlib
warnings.simplefilter('ignore')
import numpy as np
import mbi
from mbi import Domain, FactoredInference

assert os.path.abspath(mbi.__file__).startswith(os.path.join(ROOT, 'src')), mbi.__file__

TOL_ZERO = 1e-30      # relative mass allowed on an impossible cell (mle leaves ~1e-100)
TOL_SUM = 1e-6
ITERS = 40

# ----------------------------------------------------------------------------------------
# cases: (name, attrs, shape, measured cliques [first batch, second batch], zero sets, queries)
# ----------------------------------------------------------------------------------------
CASES = [
    ('chain-abcd',
     'abcd', (2, 3, 4, 3),
     [[('a', 'b'), ('b', 'c')], [('c', 'd')]],
     {('b', 'c'): [(0, 1), (2, 3), (1, 0)]},
     [('a', 'c'), ('b', 'd'), ('a', 'd'), ('a', 'b', 'c')]),
    ('chain-zero-on-subclique',
     'abc', (3, 2, 4),
     [[('a', 'b'), ('b', 'c')], [('a',)]],
     {('c',): [(2,)], ('a', 'b'): [(0, 1), (2, 0)]},
     [('a', 'c'), ('a', 'b', 'c')]),
    ('zero-on-unmeasured-pair',
     'abcd', (2, 3, 2, 3),
     [[('a',), ('b',), ('c',)], [('a', 'b')]],
     {('c', 'd'): [(0, 0), (1, 2)]},
     [('a', 'd'), ('b', 'c', 'd'), ('a', 'c')]),
    ('star-centre-sorted-last',          # cliques (a,e) (c,d) (d,e): tree (a,e)-(d,e)-(c,d)
     'acde', (2, 3, 4, 3),
     [[('a', 'e'), ('c', 'd')], [('d', 'e')]],
     {('d', 'e'): [(0, 0), (1, 2), (3, 1), (2, 2)]},
     [('c', 'e'), ('a', 'd'), ('a', 'c'), ('a', 'd', 'e'), ('c', 'd', 'e')]),
    ('two-leaves-one-hub',               # cliques (a,c) (b,c): merged attribute order a,c,b
     'abc', (2, 3, 4),
     [[('a', 'c')], [('b', 'c')]],
     {('b', 'c'): [(0, 0), (1, 3), (2, 1), (2, 2)], ('a',): [(1,)]},
     [('a', 'b'), ('a', 'b', 'c')]),
    ('hub-sorted-last-5',                # (a,f) (b,f)... hub clique sorted after its leaves
     'abxyz', (2, 2, 3, 3, 2),
     [[('a', 'z'), ('b', 'y')], [('y', 'z'), ('x', 'y')]],
     {('y', 'z'): [(0, 0), (2, 1)], ('x', 'y'): [(1, 1)]},
     [('a', 'b'), ('a', 'y'), ('b', 'z'), ('x', 'z'), ('a', 'x')]),
]

HISTORIES = [            # (label, warm_start, [(solver, use_second_batch), ...])
    ('MD', False, [('MD', True)]),
    ('RDA', False, [('RDA', True)]),
    ('IG', False, [('IG', True)]),
    ('warm MD>MD', True, [('MD', False), ('MD', True)]),
    ('warm RDA>IG', True, [('RDA', False), ('IG', True)]),
    ('warm IG>MD>RDA', True, [('IG', False), ('MD', True), ('RDA', True)]),
]


def make_measurements(domain, cliques, zeros, rng, total):
    """ noisy identity measurements of a random table that respects the zero sets """
    p = rng.random(domain.shape) + 0.05
    for zcl, cells in zeros.items():
        ax = domain.axes(zcl)
        for cell in cells:
            idx = [slice(None)] * len(domain)
            for a, v in zip(ax, cell):
                idx[a] = v
            p[tuple(idx)] = 0.0
    p *= total / p.sum()
    ans = []
    for cl in cliques:
        ax = tuple(i for i, a in enumerate(domain.attrs) if a not in cl)
        marg = p.sum(axis=ax)
        order = [a for a in domain.attrs if a in cl]
        marg = np.transpose(marg, [order.index(a) for a in cl])
        y = marg.flatten() + rng.normal(0, 3.0, marg.size)
        ans.append((None, y, 3.0, cl))
    return ans


def lipschitz(domain, measurements, cliques):
    eigs = {cl: 0.0 for cl in cliques}
    for _, _, noise, proj in measurements:
        for cl in sorted(cliques, key=domain.size):
            if set(proj) <= set(cl):
                eigs[cl] += domain.size(cl) / domain.size(proj) / noise ** 2
                break
    return float(max(eigs.values()))


def zero_mask(domain_attrs, shape, zcl, cells):
    """ boolean array over `domain_attrs` marking the cells made impossible by one zero set """
    mask = np.zeros(shape, dtype=bool)
    ax = [domain_attrs.index(a) for a in zcl]
    for cell in cells:
        idx = [slice(None)] * len(shape)
        for a, v in zip(ax, cell):
            idx[a] = v
        mask[tuple(idx)] = True
    return mask


def check_answer(label, attrs, values, zeros, total, problems):
    values = np.asarray(values, dtype=float)
    if not np.all(np.isfinite(values)):
        problems.append('%s: answer contains NaN/inf' % label)
        return
    if abs(values.sum() - total) > TOL_SUM * total:
        problems.append('%s: mass %.6f != total %.6f' % (label, values.sum(), total))
    for zcl, cells in zeros.items():
        if not set(zcl) <= set(attrs):
            continue
        mask = zero_mask(list(attrs), values.shape, zcl, cells)
        bad = values[mask].max()
        if bad > TOL_ZERO * total:
            problems.append('%s: impossible cells of zero set %s carry mass (max %.3e of total %.1f)'
                            % (label, zcl, bad, total))


def run():
    problems = []
    digest = hashlib.sha256()
    lines = []
    for ci, (name, attrs, shape, batches, zeros, queries) in enumerate(CASES):
        domain = Domain(list(attrs), shape)
        total = 400.0 + 50 * ci
        rng = np.random.RandomState(1000 + ci)
        first = make_measurements(domain, batches[0], zeros, rng, total)
        second = first + make_measurements(domain, batches[1], zeros, rng, total)
        for hlabel, warm, steps in HISTORIES:
            np.random.seed(7)
            engine = FactoredInference(domain, structural_zeros=zeros, iters=ITERS,
                                       warm_start=warm)
            model = None
            for solver, use_second in steps:
                meas = second if use_second else first
                opts = {}
                if solver != 'MD':
                    cl_now = [m[3] for m in meas] + list(zeros.keys())
                    tmp = mbi.GraphicalModel(domain, cl_now, total)
                    opts['lipschitz'] = lipschitz(domain, engine.fix_measurements(meas), tmp.cliques)
                with contextlib.redirect_stdout(io.StringIO()):
                    model = engine.estimate(meas, total=total, engine=solver, options=opts)
            tag = '%s | %s' % (name, hlabel)
            answers = []
            # in-clique marginals: model cliques, measured cliques, zero cliques
            inclique = list(model.cliques) + [m[3] for m in second] + list(zeros.keys())
            seen = set()
            for cl in inclique:
                if cl in seen: continue
                seen.add(cl)
                answers.append(('in-clique %s' % (cl,), cl, model.project(cl).datavector(flatten=False)))
            for q in queries:
                answers.append(('out-of-clique %s' % (q,), q, model.project(q).datavector(flatten=False)))
            answers.append(('datavector', tuple(attrs), model.datavector(flatten=False)))
            flat = model.datavector()
            answers.append(('datavector(flat)', tuple(attrs), flat.reshape(shape)))
            for alabel, a_attrs, vals in answers:
                check_answer('%s | %s' % (tag, alabel), a_attrs, vals, zeros, total, problems)
                text = ' '.join('%.8e' % v for v in np.asarray(vals, dtype=float).flatten())
                digest.update((tag + alabel + text).encode())
            lines.append('%-44s answers=%2d  vec[0:3]=%s' % (
                tag, len(answers), ' '.join('%.6e' % v for v in flat[:3])))
    return problems, lines, digest.hexdigest()


if __name__ == '__main__':
    problems, lines, dig = run()
    if problems:
        print('FAIL: %d violated checks of "structural zeros carry no mass in any answer"' % len(problems))
        for p in problems[:25]:
            print('  -', p)
        if len(problems) > 25:
            print('  ... and %d more' % (len(problems) - 25))
        sys.exit(1)
    print('PASS')
    for l in lines:
        print(l)
    print('digest', dig)
    sys.exit(0)

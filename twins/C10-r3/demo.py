"""Equivalence demo for property C10 (structural zeros carry no mass).

Prints a deterministic digest of model answers for several domains, zero
sets, measurement sets, solvers and warm-start histories.  The output must be
byte-identical on the unmodified library and on the refactored library.

Run:  PYTHONPATH=<root>/src /venv/bin/python demo.py
"""
import contextlib
import hashlib
import io
import os
import sys
import warnings

# greedy_order() / JunctionTree break ties by iterating over sets of attribute names, so the
# elimination order (and hence the last bits of out-of-clique answers) depends on string hash
# randomisation.  Pin the hash seed so that the digest is reproducible.
if os.environ.get('PYTHONHASHSEED') != '0':
    env = dict(os.environ, PYTHONHASHSEED='0')
    os.execve(sys.executable, [sys.executable] + sys.argv, env)

ROOT = os.path.abspath(os.path.join(os.path.dirname(os.path.abspath(__file__)), '..', '..'))
sys.path.insert(0, os.path.join(ROOT, 'src'))
sys.path.insert(1, ROOT)

import numpy as np
from scipy import sparse

import mbi
from mbi import Domain, Factor, CliqueVector, FactoredInference, GraphicalModel

assert os.path.abspath(mbi.__file__).startswith(ROOT), mbi.__file__
warnings.simplefilter('ignore')

# scipy's eigsh draws its ARPACK start vector from a private, unseedable RNG, which makes
# the auto-computed Lipschitz constant differ in the last bits from run to run.  Give it a
# fixed start vector so that the digest below is reproducible (the refactorings do not touch
# FactoredInference._lipschitz).
import mbi.inference as _inference
_eigsh = _inference.eigsh
def _deterministic_eigsh(A, k, **kw):
    return _eigsh(A, k, v0=np.linspace(1.0, 2.0, A.shape[0]), **kw)
_inference.eigsh = _deterministic_eigsh
np.set_printoptions(precision=9, suppress=False, linewidth=200, threshold=100000)


def digest(arr):
    arr = np.ascontiguousarray(np.asarray(arr, dtype=float))
    return hashlib.sha256(arr.tobytes()).hexdigest()[:16]


def show(label, arr):
    arr = np.asarray(arr, dtype=float)
    print('%s shape=%s sha=%s' % (label, arr.shape, digest(arr)))
    print('   ', np.array2string(arr.flatten(), precision=9, separator=','))


def quiet(fn, *args, **kwargs):
    buf = io.StringIO()
    with contextlib.redirect_stdout(buf):
        out = fn(*args, **kwargs)
    return out, buf.getvalue()


# ---------------------------------------------------------------------------
# 1. Factor / CliqueVector level: -inf potentials through every arithmetic op
# ---------------------------------------------------------------------------
print('== section 1: factor arithmetic with -inf')
dom = Domain(['a', 'b', 'c', 'd'], [2, 3, 4, 2])
rng = np.random.RandomState(0)

zero_specs = [
    (('a', 'c'), [(0, 1), (1, 3)]),
    (('c', 'a'), [(2, 0)]),
    (('b',), [(1,)]),
    (('d', 'b', 'a'), [(0, 0, 0), (1, 2, 1), (1, 1, 0)]),
    (('b', 'd'), [(0, 0), (0, 1)]),        # a whole row impossible
]
actives = {}
for cl, cells in zero_specs:
    f = Factor.active(dom.project(cl), cells)
    actives[cl] = f
    show('active%s' % (cl,), f.values)
    print('    attrs', f.domain.attrs, 'neginf', int(np.isneginf(f.values).sum()))

# list-of-lists and ndarray spellings of the cells
show('active-listcells', Factor.active(dom.project(('a', 'c')), [[0, 1], [1, 3]]).values)
show('active-ndarray', Factor.active(dom.project(('a', 'c')), np.array([[0, 1], [1, 3]])).values)

x = Factor(dom.project(('a', 'b')), rng.randn(2, 3))
y = Factor(dom.project(('c', 'a')), rng.randn(4, 2))
z = actives[('a', 'c')]
w = actives[('b',)]
for name, f in [
    ('x+y', x + y), ('y+x', y + x), ('x+z', x + z), ('z+w', z + w), ('z+z', z + z),
    ('x-y', x - y), ('x-z', x - z), ('z-z', z - z), ('z-x', z - x), ('w-z', w - z),
    ('x*y', x * y), ('y*x', y * x), ('x.exp*z.exp', x.exp() * z.exp()),
    ('2.5*z', 2.5 * z), ('z*0.0', z * 0.0), ('-1*z', -1 * z), ('z/3', z / 3.0),
    ('3+z', 3 + z), ('z+3', z + 3), ('z-1', z - 1),
    ('x.logaddexp(z)', x.logaddexp(z)), ('z.logaddexp(w)', z.logaddexp(w)),
    ('z.logaddexp(z)', z.logaddexp(z)),
    ('(x+z).exp/proj', (x + z).exp() / (x + z).exp().project(('a',))),
]:
    show(name, f.values)
    print('    attrs', f.domain.attrs)

acc = Factor.zeros(dom.project(('c', 'a', 'b')))
acc += z
acc += w
acc += x
acc += 0.25
show('iadd-chain', acc.values)
acc2 = Factor.ones(dom.project(('a', 'c')))
acc2 *= z.exp()
acc2 *= 2.0
show('imul-chain', acc2.values)
show('lse(a)', (x + z).logsumexp(['a']).values)
show('lse(all)', (x + z).logsumexp())
show('scalar-factor-ops', (x.project([]) + z.exp().project([])).values)
show('scalar-factor-sub', (x.project([]) - z.exp().project([])).values)

print('-- CliqueVector.combine')
cv = CliqueVector.zeros(dom, [('a', 'b'), ('c', 'a'), ('b', 'c', 'd')])
other = CliqueVector({
    ('a', 'c'): actives[('a', 'c')],
    ('b',): actives[('b',)],
    ('d', 'b'): Factor(dom.project(('d', 'b')), rng.randn(2, 3)),
    ('a', 'd'): Factor(dom.project(('a', 'd')), rng.randn(2, 2)),   # not contained anywhere: ignored
    ('c', 'a'): actives[('c', 'a')],
})
cv.combine(other)
print('   keys', list(cv.keys()))
for cl in cv:
    show('combine%s' % (cl,), cv[cl].values)
cv.combine(CliqueVector({}))
cv.combine(cv * 0.5)
for cl in cv:
    show('combine-self%s' % (cl,), cv[cl].values)
show('cv-dot', cv.exp().dot(cv.exp()))
for cl, f in (cv - 2.0 * cv + 1.0).items():
    show('cv-arith%s' % (cl,), f.values)


# ---------------------------------------------------------------------------
# 2. GraphicalModel level: BP / VE / datavector on potentials with -inf
# ---------------------------------------------------------------------------
print('== section 2: graphical model answers with -inf potentials')
for cliques, total in [
    ([('a', 'b'), ('c', 'b'), ('d', 'c')], 100.0),
    ([('c', 'a'), ('b',), ('d',)], 7.5),
    ([('a', 'b', 'c'), ('c', 'd')], 1.0),
    ([('d', 'a'), ('b', 'a'), ('a', 'c')], 1234.0),
]:
    model = GraphicalModel(dom, cliques, total, elimination_order=None)
    print('model cliques', model.cliques, 'elim', model.elimination_order)
    r = np.random.RandomState(len(cliques) + int(total))
    pots = CliqueVector({cl: Factor(dom.project(cl), r.randn(*dom.project(cl).shape))
                         for cl in model.cliques})
    pots.combine(CliqueVector({cl: actives[cl] for cl in actives}))
    model.potentials = pots
    show('logZ', model.belief_propagation(pots, logZ=True))
    mu = model.belief_propagation(pots)
    for cl in model.cliques:
        show('bp%s' % (cl,), mu[cl].values)
    # out-of-clique / unmeasured projections through variable elimination (no cached marginals)
    for proj in [('a', 'd'), ('d', 'b'), ('c',), ('b', 'a', 'd'), ['c', 'a'], ('a', 'b', 'c', 'd')]:
        show('ve%s' % (tuple(proj),), model.project(proj).values)
    show('datavector', model.datavector())
    show('datavector-nd', model.datavector(flatten=False))
    model.marginals = mu
    for proj in [('a',), ('b', 'a'), ('a', 'd'), ('c', 'a')]:
        show('proj-cached%s' % (proj,), model.project(proj).values)
    many = model.calculate_many_marginals([('a', 'd'), ('b', 'd'), ('a', 'c'), ('c', 'b')])
    for k in many:
        show('many%s' % (k,), many[k].values)
    mats = [np.ones((1, n)) for n in dom.shape]
    mats[2] = np.eye(4)
    show('krondot', model.krondot(mats))
    th = model.mle(mu)
    for cl in model.cliques:
        show('mle%s' % (cl,), th[cl].values)
    mu2 = model.belief_propagation(th)
    for cl in model.cliques:
        show('bp-mle%s' % (cl,), mu2[cl].values)

# degenerate: every cell impossible -> logZ = -inf
model = GraphicalModel(Domain(['a', 'b'], [2, 2]), [('a', 'b')], 10.0)
allz = Factor.active(model.domain, [(0, 0), (0, 1), (1, 0), (1, 1)])
model.potentials = CliqueVector({('a', 'b'): allz})
with np.errstate(all='ignore'):
    show('allzero-logZ', model.belief_propagation(model.potentials, logZ=True))
    show('allzero-bp', model.belief_propagation(model.potentials)[('a', 'b')].values)
    show('allzero-dv', model.datavector())


# ---------------------------------------------------------------------------
# 3. FactoredInference: every solver, warm start, heterogeneous noise
# ---------------------------------------------------------------------------
print('== section 3: estimation with structural zeros')


def true_data(domain, seed):
    r = np.random.RandomState(seed)
    p = r.rand(*domain.shape) ** 3
    return Factor(domain, 500 * p / p.sum())


def measurements(domain, data, spec, seed):
    r = np.random.RandomState(seed)
    out = []
    for proj, noise, kind in spec:
        n = domain.size(proj)
        xv = data.project(proj).datavector()
        if kind == 'I':
            Q = None
            yv = xv + r.normal(0, noise, n)
        elif kind == 'sparse':
            Q = sparse.csr_matrix(np.vstack([np.eye(n), np.ones((1, n))]))
            yv = Q @ xv + r.normal(0, noise, n + 1)
        elif kind == 'eye':
            Q = sparse.eye(n)
            yv = xv + r.normal(0, noise, n)
        else:
            Q = np.vstack([np.eye(n)[: max(1, n // 2)], np.ones((1, n)), np.tril(np.ones((n, n)))])
            yv = Q @ xv + r.normal(0, noise, Q.shape[0])
        out.append((Q, yv, noise, proj))
    return out


def report(tag, engine_obj, zeros):
    model = engine_obj.model
    print('-- %s cliques=%s total=%.9g' % (tag, model.cliques, model.total))
    nan = False
    for cl in model.cliques:
        show('pot%s' % (cl,), model.potentials[cl].values)
        show('marg%s' % (cl,), model.marginals[cl].values)
        nan |= bool(np.isnan(model.marginals[cl].values).any())
    for cl, cells in zeros.items():
        f = model.project(cl)
        idx = tuple(np.array(cells).T)
        print('    zero-mass%s = %r  sum = %.9g' % (cl, f.values[idx].tolist(), f.sum()))
    for proj in [('a', 'd'), ('d', 'a'), ('b', 'c', 'd'), ('c',), ['b', 'a']]:
        f = model.project(proj)
        show('ans%s' % (tuple(proj),), f.values)
        nan |= bool(np.isnan(f.values).any())
    dv = model.datavector()
    nan |= bool(np.isnan(dv).any())
    show('dv', dv)
    full = model.project(model.domain.attrs) if model.domain.size() <= 64 else None
    if full is not None:
        show('full-ve', full.values)
    print('    anyNaN', nan)
    try:
        np.random.seed(11)
        df = model.synthetic_data().df
        print('    synthetic rows', df.shape, digest(df.values))
    except Exception as e:   # pandas 3 in this environment
        print('    synthetic_data raised', type(e).__name__)


dom1 = Domain(['a', 'b', 'c', 'd'], [2, 3, 4, 2])
dom2 = Domain(['d', 'c', 'b', 'a'], [2, 2, 3, 2])
cases = [
    ('measured+sub+unmeasured', dom1,
     {('a', 'c'): [(0, 1), (1, 3)], ('b',): [(1,)], ('d', 'b'): [(0, 0), (1, 2)]},
     [(('c', 'a'), 1.0, 'I'), (('b', 'c'), 4.0, 'dense'), (('d',), 0.5, 'sparse')],
     [(('a', 'b'), 2.0, 'eye'), (('c', 'a'), 3.0, 'I'), (('d', 'c'), 0.7, 'dense')]),
    ('permuted-domain', dom2,
     {('a', 'b', 'c'): [(0, 0, 0), (1, 2, 1)], ('d',): [(0,)]},
     [(('b', 'a'), 0.3, 'I'), (('c', 'd'), 5.0, 'eye'), (('a',), 1.0, 'sparse')],
     [(('c', 'b'), 1.5, 'dense'), (('d', 'a'), 2.5, 'I')]),
    ('no-zeros', dom1, {},
     [(('a', 'b'), 1.0, 'I'), (('b', 'c'), 2.0, 'I')],
     [(('c', 'd'), 1.0, 'I')]),
]

for name, domain, zeros, spec1, spec2 in cases:
    data = true_data(domain, 3)
    # make the truth respect the zeros
    for cl, cells in zeros.items():
        data = data * Factor.active(domain.project(cl), cells).exp()
    m1 = measurements(domain, data, spec1, 5)
    m2 = measurements(domain, data, spec2, 6)
    for solver, opts in [
        ('MD', {}),
        ('MD', {'stepsize': 0.002}),
        ('RDA', {'lipschitz': 3.0}),
        ('RDA', {}),
        ('IG', {'lipschitz': 3.0, 'c': 2.0, 'sigma': 0.5}),
        ('IG', {}),
    ]:
        for warm in [False, True]:
            for total in [None, 500.0]:
                if solver in ('RDA', 'IG') and not opts and (warm or total is None):
                    continue      # keep the eigsh-based variants few
                tag = '%s/%s/%s/warm=%s/total=%s' % (name, solver, sorted(opts.items()), warm, total)
                np.random.seed(1)
                eng = FactoredInference(domain, structural_zeros=zeros, iters=40,
                                        warm_start=warm, log=False)
                _, printed1 = quiet(eng.estimate, m1, total=total, engine=solver, options=dict(opts))
                report(tag + '#1', eng, zeros)
                _, printed2 = quiet(eng.estimate, m1 + m2, total=total, engine=solver, options=dict(opts))
                report(tag + '#2', eng, zeros)
                _, printed3 = quiet(eng.estimate, m2, total=total, engine=solver, options=dict(opts))
                report(tag + '#3', eng, zeros)
                if 'lipschitz' in opts:
                    print('    solver-stdout', repr(printed1 + printed2 + printed3))
                for cl in eng.structural_zeros:
                    show('engine.zeros%s' % (cl,), eng.structural_zeros[cl].values)

# list-valued clique keys are not hashable; tuple keys with list cells and a custom metric
def l2_metric_factory(engine_obj):
    def metric(marginals):
        return engine_obj._marginal_loss(marginals, metric='L2')
    return metric

zeros = {('b', 'a'): [[2, 0], [0, 1]]}
eng = FactoredInference(dom1, structural_zeros=zeros, iters=25, warm_start=True)
eng.metric = l2_metric_factory(eng)
data = true_data(dom1, 9)
m = measurements(dom1, data, [(('a', 'b'), 1.0, 'I'), (['c', 'b'], 2.0, 'eye'), ('d', 1.0, 'I')], 2)
for solver, opts in [('MD', {'stepsize': 0.001}), ('RDA', {'lipschitz': 2.0}), ('IG', {'lipschitz': 2.0})]:
    quiet(eng.estimate, m, total=300, engine=solver, options=dict(opts))
    report('custom-metric/' + solver, eng, zeros)
eng.metric = 'L1'
quiet(eng.estimate, m, total=300, engine='MD', options={'stepsize': lambda t: 0.01 / t})
report('L1/MD', eng, zeros)
print('done')

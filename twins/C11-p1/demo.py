"""C11 / pair 1 -- which generated attributes a new column is conditioned on.

Runs the library's real GraphicalModel.synthetic_data() end to end (a small
pandas-3 compatibility shim for DataFrame.groupby(...).apply(...) is installed
here, in the demo only) on several model structures, with structural zeros in
the potentials, for both methods and several row counts, and checks

  * exactly the requested number of rows, every value inside its domain,
  * no record in a cell to which the model gives zero probability,
  * method='round': |clique counts - expected counts| <= ROUND_BOUND, for every
    maximal clique, with the same bound for every row count,
  * method='sample': total-variation distance of every clique marginal of the
    records to the model marginal is small (fixed seed, large sample).

Exit 0 and print PASS + a digest of every generated table if all checks hold,
exit 1 and print FAIL + the violated checks otherwise.
"""
import os, sys

if os.environ.get('PYTHONHASHSEED') != '0':          # deterministic set/dict order
    os.environ['PYTHONHASHSEED'] = '0'
    os.execv(sys.executable, [sys.executable] + sys.argv)

ROOT = os.path.dirname(os.path.dirname(os.path.dirname(os.path.abspath(__file__))))
sys.path.insert(0, os.path.join(ROOT, 'src'))

import hashlib, itertools, warnings
warnings.filterwarnings('ignore')
import numpy as np
import pandas as pd

import mbi
assert os.path.abspath(mbi.__file__).startswith(os.path.join(ROOT, 'src')), mbi.__file__
from mbi import Domain, Factor, CliqueVector, GraphicalModel

# ---------------------------------------------------------------- pandas shim
# pandas 3 no longer hands the grouping columns to the function given to
# groupby(...).apply(...); synthetic_data() relies on the old behaviour.  The
# shim restores it (demo only; the library is not touched).
_orig_groupby = pd.DataFrame.groupby


class _GroupByProxy:
    last = None          # (frame, conditioning columns) of the most recent groupby

    def __init__(self, df, by):
        self.df, self.by = df, list(by)
        _GroupByProxy.last = (df, list(by))

    def apply(self, func):
        parts = []
        for name, grp in _orig_groupby(self.df, self.by, sort=True):
            grp = grp.copy()
            object.__setattr__(grp, 'name', name)
            parts.append(func(grp))
        return pd.concat(parts).sort_index()


def _groupby(self, by=None, *args, **kwargs):
    return _GroupByProxy(self, by)


pd.DataFrame.groupby = _groupby

# ---------------------------------------------------------------- test models
# attribute names are small integers so that every set of attributes iterates
# in one fixed order (no dependence on string hashing / insertion history)
SHAPE = [2, 3, 2, 3, 2, 2]
DOM = Domain(list(range(6)), SHAPE)

MODELS = [
    # name,                      cliques handed to GraphicalModel
    ('chain of pairs',           [(0, 1), (1, 2), (2, 3), (3, 4), (4, 5)]),
    ('star of pairs',            [(2, 0), (2, 1), (2, 3), (2, 4), (2, 5)]),
    ('band of triples',          [(0, 1, 2), (1, 2, 3), (2, 3, 4), (3, 4, 5)]),
    ('4-cycle (fill-in)',        [(0, 1), (1, 2), (2, 3), (0, 3), (4, 5)]),
    ('pair hanging off triple',  [(0, 4), (1, 4, 5)]),
    ('triples around a 4-clique', [(0, 2, 5), (1, 2, 4, 5), (2, 3, 4)]),
    ('mixed sizes',              [(2, 4, 5), (1, 4), (1, 2, 5), (0, 2)]),
    # same structure as 'pair hanging off triple', but the model additionally
    # forbids x4 == x5 (all those cells of clique (1,4,5) have probability zero)
    ('pair off triple, x4!=x5',  [(0, 4), (1, 4, 5)]),
]
FORBID_EQUAL = {'pair off triple, x4!=x5': (4, 5)}
ROWS_ROUND = [1, 7, 1000, 200000]
ROWS_SAMPLE = [200000]
ROUND_BOUND = 10.0     # the unmodified code stays below 2 on these models for every N
TV_BOUND = 0.02


def build(name, cliques, seed):
    """model with random log-potentials; roughly a fifth of the cells of every
    maximal clique are structural zeros (log-potential -inf)"""
    prng = np.random.RandomState(seed)
    model = GraphicalModel(DOM, cliques, total=12345.6)
    pots = {}
    for cl in model.cliques:
        dom = DOM.project(cl)
        vals = prng.normal(0, 1.5, size=dom.shape)
        zeros = prng.rand(*dom.shape) < 0.2
        if name in FORBID_EQUAL:                  # only the structural constraint
            zeros[...] = False
            if set(FORBID_EQUAL[name]) <= set(cl):
                i, j = (cl.index(a) for a in FORBID_EQUAL[name])
                grid = np.indices(dom.shape)
                zeros = grid[i] == grid[j]
        vals[zeros] = -np.inf
        pots[cl] = Factor(dom, vals)
    model.potentials = CliqueVector(pots)
    full = model.datavector(flatten=False)        # brute force, from the potentials
    assert np.isfinite(full).all() and full.sum() > 0
    return model, full / full.sum()


def clique_marginal(joint, cl):
    other = tuple(i for i in range(6) if i not in cl)
    return joint.sum(axis=other)                  # axes in canonical order == cl order


def main():
    problems, lines = [], []
    for k, (name, cliques) in enumerate(MODELS):
        model, joint = build(name, cliques, seed=100 + k)
        lines.append('model %-26s maximal cliques %s  generation order %s'
                     % (name, model.cliques, model.elimination_order[::-1]))
        # default row count: integer part of the total
        runs = [('round', None)] + [('round', n) for n in ROWS_ROUND] \
             + [('sample', n) for n in ROWS_SAMPLE]
        for j, (method, rows) in enumerate(runs):
            np.random.seed(1000 * k + j)
            tag = '%s / %s / rows=%s' % (name, method, rows)
            _GroupByProxy.last = None
            try:
                synth = model.synthetic_data(rows=rows, method=method)
            except Exception as e:                # a crash is a failure too
                msg = '%s: raised %s: %s' % (tag, type(e).__name__, e)
                if _GroupByProxy.last is not None:
                    # look at the partially generated table the generator was
                    # conditioning on when it died
                    part, by = _GroupByProxy.last
                    p = joint.sum(axis=tuple(i for i in range(6) if i not in by))
                    cells = tuple(part[a].values for a in sorted(by))
                    bad = int((p[cells] == 0).sum())
                    msg += (' [%d of %d partially generated records already sit in a cell of'
                            ' attributes %s that has probability zero]' % (bad, len(part), sorted(by)))
                problems.append(msg)
                continue
            df = synth.df
            want = int(model.total) if rows is None else rows
            if df.shape != (want, 6):
                problems.append('%s: shape %s, wanted %s rows' % (tag, df.shape, want))
                continue
            vals = df.values
            if (vals < 0).any() or (vals >= np.array(SHAPE)).any():
                problems.append('%s: value outside the domain' % tag)
                continue
            worst_err, worst_tv, nzero = 0.0, 0.0, 0
            for cl in model.cliques:
                p = clique_marginal(joint, cl)
                cnt = synth.project(cl).datavector(flatten=False)
                assert cnt.shape == p.shape
                nzero += int(cnt[p == 0].sum())
                worst_err = max(worst_err, float(np.abs(cnt - want * p).max()))
                worst_tv = max(worst_tv, float(0.5 * np.abs(cnt / want - p).sum()))
            if nzero:
                problems.append('%s: %d clique-cell records in cells of probability zero'
                                % (tag, nzero))
            if method == 'round' and worst_err > ROUND_BOUND:
                problems.append('%s: clique counts off by %.1f (> %.0f) from the expected counts'
                                % (tag, worst_err, ROUND_BOUND))
            if method == 'sample' and worst_tv > TV_BOUND:
                problems.append('%s: clique marginal at TV distance %.4f (> %.2f) from the model'
                                % (tag, worst_tv, TV_BOUND))
            digest = hashlib.sha256(np.ascontiguousarray(vals, dtype=np.int64).tobytes()).hexdigest()[:16]
            lines.append('  %-6s rows=%-7s -> %7d rows  max|count-expected|=%9.4f  maxTV=%.5f  zero-cell=%d  sha=%s'
                         % (method, rows, df.shape[0], worst_err, worst_tv, nzero, digest))
    print('\n'.join(lines))
    if problems:
        print('FAIL: %d violated checks' % len(problems))
        for p in problems:
            print('  - ' + p)
        sys.exit(1)
    print('PASS')
    sys.exit(0)


if __name__ == '__main__':
    main()

"""C11 pair 2 -- early exit of the greedy elimination order once one factor is left.

synthetic_data generates the columns by walking model.elimination_order backwards,
so that order has to list EVERY attribute of the domain -- also the ones that no
measured clique mentions (the model is uniform on those, and each of them is a
singleton maximal clique of the model).

For a range of models (one measured clique plus unmeasured attributes -- e.g. the
model after the first round of MWEM / AIM --, several cliques, independent
components, estimated by FactoredInference, order found with random restarts) check
  * the elimination order is a permutation of the domain's attributes,
  * round mode : row count, domain conformance, zero support, counts on every
                 model clique within an N-independent rounding error,
  * sample mode: row count, conformance, zero support, one-way means on target.
Prints PASS + digest (exit 0) or FAIL + explanation (exit 1).
"""
import os, sys

if os.environ.get('PYTHONHASHSEED') != '0':          # set iteration order -> deterministic digest
    env = dict(os.environ, PYTHONHASHSEED='0')
    os.execve(sys.executable, [sys.executable] + sys.argv, env)

ROOT = os.path.dirname(os.path.dirname(os.path.dirname(os.path.abspath(__file__))))
sys.path.insert(0, os.path.join(ROOT, 'src'))

import hashlib, warnings
warnings.simplefilter('ignore')
import numpy as np
import pandas as pd

# pandas >= 2.2 / 3 no longer hands the grouping columns to groupby.apply, which is
# what synthetic_data relies on.  Emulate the classic behaviour (groups sorted by
# key, grouping columns present, result re-aligned to the original row order).
from pandas.core.groupby.generic import DataFrameGroupBy
def _legacy_apply(self, func, *args, **kwargs):
    pieces = []
    for name, group in self:
        group = group.copy()
        object.__setattr__(group, 'name', name)
        pieces.append(func(group, *args, **kwargs))
    return pd.concat(pieces).reindex(self.obj.index)
DataFrameGroupBy.apply = _legacy_apply

import mbi
from mbi import Domain, Dataset, Factor, CliqueVector, GraphicalModel, FactoredInference
assert os.path.abspath(mbi.__file__).startswith(ROOT), mbi.__file__

failures = []
digest = hashlib.sha256()

def fail(msg):
    failures.append(msg)

def build(name, attrs, shape, cliques, total, seed, zeros=0.25, with_marginals=False, elimination_order=None):
    dom = Domain(attrs, shape)
    np.random.seed(seed)                                   # restarts draw from the global stream
    model = GraphicalModel(dom, cliques, total=total, elimination_order=elimination_order)
    prng = np.random.RandomState(seed)
    pots = {}
    for cl in model.cliques:
        d = dom.project(cl)
        measured = any(set(cl) <= set(c) for c in cliques)
        vals = prng.normal(0, 1.0, size=d.shape) if measured else np.zeros(d.shape)
        if len(cl) >= 2 and zeros > 0:                       # zero-probability cells
            mask = prng.rand(*d.shape) < zeros
            mask[(0,) * len(cl)] = False
            vals[mask] = -np.inf
        pots[cl] = Factor(d, vals)
    model.potentials = CliqueVector(pots)
    if with_marginals:
        model.marginals = model.belief_propagation(model.potentials)
    model.name = name
    return model

def estimated(name, attrs, shape, measured, seed):
    """ the model FactoredInference returns after measuring a few marginals of random data """
    dom = Domain(attrs, shape)
    np.random.seed(seed)
    data = Dataset.synthetic(dom, 2000)
    measurements = []
    for cl in measured:
        x = data.project(cl).datavector()
        y = x + np.random.normal(0, 5.0, size=x.size)
        measurements.append((None, y, 5.0, cl))
    engine = FactoredInference(dom, iters=60, log=False)
    model = engine.estimate(measurements, total=2000.0)
    model.name = name
    return model

def expected(model, cl, rows):
    p = model.project(cl).datavector()
    return p / p.sum() * rows

def basic_checks(model, synth, rows, tag):
    df = synth.df
    if df.shape[0] != rows:
        fail('%s: %d rows, requested %d' % (tag, df.shape[0], rows))
    for a in model.domain.attrs:
        v = df[a].values
        if v.min() < 0 or v.max() >= model.domain[a]:
            fail('%s: attribute %s leaves its domain' % (tag, a))
    for cl in model.cliques:
        got = synth.project(cl).datavector()
        exp = expected(model, cl, rows)
        if np.any((exp == 0) & (got > 0)):
            fail('%s: record in a zero-probability cell of %s' % (tag, cl))
    digest.update(np.ascontiguousarray(df.loc[:, list(model.domain.attrs)].values, dtype=np.int64).tobytes())

def order_check(model):
    order = list(model.elimination_order)
    if sorted(order) != sorted(model.domain.attrs):
        missing = [a for a in model.domain.attrs if a not in order]
        fail("%s: elimination order %s is not a permutation of the domain -- %s never get generated"
             % (model.name, order, missing))

def round_checks(model):
    worst = {}
    bound = 2.0 * sum(model.domain.shape)
    for rows in (1, 7, 1000, 100000):
        np.random.seed(1000 + rows)
        synth = model.synthetic_data(rows=rows, method='round')
        tag = '%s/round/N=%d' % (model.name, rows)
        basic_checks(model, synth, rows, tag)
        worst[rows] = 0.0
        for cl in model.cliques:
            err = np.abs(synth.project(cl).datavector() - expected(model, cl, rows)).max()
            worst[rows] = max(worst[rows], err)
            if err > bound:
                fail("%s: counts on model clique %s are off by %.1f records (rounding bound %.0f); distinct values "
                     "generated for %s: %s" % (tag, cl, err, bound, cl[-1], sorted(set(int(v) for v in synth.df[cl[-1]].values))[:8]))
    return worst

def sample_checks(model, rows=4000, seeds=8):
    sums = {a: np.zeros(model.domain[a]) for a in model.domain.attrs}
    for s in range(seeds):
        np.random.seed(50000 + s)
        synth = model.synthetic_data(rows=rows, method='sample')
        basic_checks(model, synth, rows, '%s/sample/seed=%d' % (model.name, s))
        for a in model.domain.attrs:
            sums[a] += np.bincount(synth.df[a].values, minlength=model.domain[a])
    worst = 0.0
    for a in model.domain.attrs:
        p = expected(model, (a,), 1.0)
        n = rows * seeds
        z = np.abs(sums[a] - n * p) / np.sqrt(np.maximum(n * p * (1 - p), 1e-9))
        z = z[p > 0].max()
        worst = max(worst, z)
        if z > 5.5:
            fail("%s/sample: one-way marginal of '%s' is %.1f standard deviations from the model" % (model.name, a, z))
    return worst

models = [
    # one measured clique + attributes that nothing mentions (model after round 1 of MWEM/AIM)
    build('one-clique+unmeasured', ['a', 'b', 'c', 'd', 'e'], [3, 4, 2, 5, 3], [('b', 'c')], 1000.0, 1),
    build('one-clique+unmeasured/marg', ['a', 'b', 'c', 'd', 'e'], [3, 4, 2, 5, 3], [('b', 'c')], 1000.0, 2,
          with_marginals=True),
    build('one-3clique+unmeasured', ['p', 'q', 'r', 's', 't'], [2, 3, 3, 4, 2], [('q', 'r', 't')], 1.0, 3),
    build('one-singleton+unmeasured', ['x', 'y', 'z'], [6, 3, 4], [('x',)], 77.7, 4),
    build('one-clique-first-attrs', ['a', 'b', 'c', 'd'], [3, 2, 4, 3], [('a', 'b')], 500.0, 5),
    estimated('estimated-one-measurement', ['a', 'b', 'c', 'd'], [3, 4, 2, 5], [('b', 'd')], 6),
    build('one-clique+unmeasured/restarts', ['a', 'b', 'c', 'd', 'e'], [3, 4, 2, 5, 3], [('c', 'e')], 640.0, 7,
          elimination_order=4),
    # controls
    build('one-clique-covers-domain', ['a', 'b', 'c'], [3, 4, 2], [('a', 'b', 'c')], 900.0, 8),
    build('chain', ['a', 'b', 'c', 'd'], [3, 4, 2, 5], [('a', 'b'), ('b', 'c'), ('c', 'd')], 1000.0, 9),
    build('two-cliques+unmeasured', ['a', 'b', 'c', 'd', 'e'], [3, 4, 2, 5, 3], [('a', 'b'), ('b', 'd')], 1000.0, 10),
    build('nested-cliques+unmeasured', ['a', 'b', 'c', 'd'], [3, 4, 2, 5], [('b',), ('b', 'c')], 1000.0, 11),
    build('no-cliques', ['a', 'b', 'c'], [3, 4, 2], [], 100.0, 12),
    estimated('estimated-two-measurements', ['a', 'b', 'c', 'd'], [3, 4, 2, 5], [('a', 'b'), ('b', 'c')], 13),
    build('cycle/restarts', ['a', 'b', 'c', 'd'], [2, 3, 2, 3], [('a', 'b'), ('b', 'c'), ('c', 'd'), ('d', 'a')], 1000.0, 14,
          elimination_order=5),
]

lines = []
for m in models:
    order_check(m)
    worst = round_checks(m)
    z = sample_checks(m)
    lines.append('%-32s order %-22s round worst |err| %s  sample max z %.2f' % (
        m.name, ''.join(map(str, m.elimination_order)),
        ' '.join('N=%d:%.3f' % (n, worst[n]) for n in sorted(worst)), z))

if failures:
    print('FAIL')
    for f in failures[:12]:
        print(' -', f)
    if len(failures) > 12:
        print(' - ... %d more' % (len(failures) - 12))
    sys.exit(1)
print('PASS')
for l in lines:
    print(l)
print('digest', digest.hexdigest())

"""C11 pair 1 -- in-place normalisation at the end of variable_elimination_logspace.

Property clause exercised: synthetic data realises THE MODEL (zero-probability cells stay
empty, clique counts are within a rounding error of the expected counts) for every call,
not just for the first call on a freshly built model.

Exit 0 + PASS + digest on correct code, exit 1 + FAIL on broken code.
"""
import os, sys, hashlib, warnings
if os.environ.get('PYTHONHASHSEED') != '0':      # set iteration order must not vary between runs
    os.environ['PYTHONHASHSEED'] = '0'
    os.execv(sys.executable, [sys.executable] + sys.argv)
ROOT = os.path.dirname(os.path.dirname(os.path.dirname(os.path.abspath(__file__))))
sys.path.insert(0, ROOT)
sys.path.insert(0, os.path.join(ROOT, 'src'))
warnings.filterwarnings('ignore')

import numpy as np
import pandas as pd
from pandas.core.groupby.generic import DataFrameGroupBy


def _apply(self, func, *args, **kwargs):
    # pandas-2 semantics of groupby(...).apply(f): f sees the whole group (grouping columns
    # included) with .name set to the key.  pandas 3 drops the grouping columns, which is why
    # synthetic_data cannot run unaided in this environment.
    pieces = []
    for key, grp in self:
        grp = grp.copy()
        object.__setattr__(grp, 'name', key)
        pieces.append(func(grp, *args, **kwargs))
    return pd.concat(pieces).sort_index()


DataFrameGroupBy.apply = _apply

import mbi
from mbi import Domain, Dataset, Factor, GraphicalModel, CliqueVector, FactoredInference
assert os.path.abspath(mbi.__file__).startswith(ROOT), 'wrong mbi on the path: ' + mbi.__file__

failures = []
digest = hashlib.sha256()
lines = []


def brute_force(domain, pots, total):
    """ reference joint distribution (total * p) from a snapshot of log-potentials """
    logp = np.zeros(domain.shape)
    for cl, vals in pots.items():
        shape = [domain[a] if a in cl else 1 for a in domain.attrs]
        order = [cl.index(a) for a in domain.attrs if a in cl]
        logp = logp + np.transpose(vals, order).reshape(shape)
    p = np.exp(logp - logp.max())
    return total * p / p.sum()


def marginal(joint, domain, cl):
    axes = tuple(i for i, a in enumerate(domain.attrs) if a not in cl)
    m = joint.sum(axis=axes)
    keep = [a for a in domain.attrs if a in cl]
    return np.transpose(m, [keep.index(a) for a in cl])


def check(tag, model, snapshot, rows, method, seed, bound):
    domain = model.domain
    np.random.seed(seed)
    synth = model.synthetic_data(rows=rows, method=method)
    df = synth.df
    n = int(model.total) if rows is None else rows
    digest.update(np.ascontiguousarray(df.values.astype(np.int64)).tobytes())
    ok = True
    if df.shape[0] != n:
        failures.append('%s: %d rows, expected %d' % (tag, df.shape[0], n)); ok = False
    hi = np.array(domain.shape)
    if (df.values < 0).any() or (df.values >= hi).any():
        failures.append('%s: value outside the domain' % tag); ok = False
    joint = brute_force(domain, snapshot, 1.0)
    worst = 0.0
    for cl in model.cliques:
        exp = marginal(joint, domain, cl) * n
        got = synth.project(cl).datavector(flatten=False)
        zero = int(got[exp == 0].sum())
        if zero:
            failures.append('%s: %d record(s) in zero-probability cells of %s' % (tag, zero, cl)); ok = False
        dev = np.abs(got - exp).max()
        worst = max(worst, dev)
        if method == 'round' and dev > bound:
            failures.append('%s: clique %s count off by %.1f (allowed %.1f, rows=%d)' % (tag, cl, dev, bound, n)); ok = False
        if method == 'sample' and dev > 6 * np.sqrt(n) + bound:
            failures.append('%s: clique %s count off by %.1f in sampling mode (rows=%d)' % (tag, cl, dev, n)); ok = False
    lines.append('%-34s rows=%-6d ok=%s' % (tag, df.shape[0], ok))


def random_pots(model, seed, zero_frac):
    prng = np.random.RandomState(seed)
    pots = {}
    for cl in model.cliques:
        vals = np.log(prng.rand(*model.domain.project(cl).shape))
        vals[prng.rand(*vals.shape) < zero_frac] = -np.inf
        pots[cl] = vals
    return pots


def scenario(name, domain, cliques, total, seed, zero_frac, rows_list):
    model = GraphicalModel(domain, cliques, total=total)
    pots = random_pots(model, seed, zero_frac)
    snapshot = {cl: v.copy() for cl, v in pots.items()}
    model.potentials = CliqueVector({cl: Factor(domain.project(cl), v) for cl, v in pots.items()})
    k = 0
    for rows in rows_list:
        for method in ['round', 'round', 'sample']:      # the SAME model object is re-used
            k += 1
            check('%s call%d %s' % (name, k, method), model, snapshot, rows, method, 100 * seed + k, 4.0)
    # the model itself must still describe the same distribution
    for cl in model.cliques:
        if not np.array_equal(model.potentials[cl].values, snapshot[cl]):
            failures.append('%s: potentials of %s changed as a side effect of generating data' % (name, cl))


# 1. one maximal clique = whole domain, default total (1.0), explicit row counts, zero cells
scenario('single(a,b) total=1', Domain(['a', 'b'], [3, 4]), [('a', 'b')], 1.0, 1, 0.3, [1, 500, 20000])
# 2. fully connected triple -> one maximal clique
scenario('single(a,b,c) total=750', Domain(['a', 'b', 'c'], [2, 3, 4]), [('a', 'b'), ('b', 'c'), ('a', 'c')], 750.0, 2, 0.2, [None, 7])
# 3. ordinary tree-structured models (several cliques)
scenario('chain a-b-c-d', Domain(['a', 'b', 'c', 'd'], [2, 3, 4, 5]), [('a', 'b'), ('b', 'c'), ('c', 'd')], 1000.0, 3, 0.15, [None, 12345])
scenario('disconnected', Domain(['a', 'b', 'c'], [3, 2, 4]), [('a', 'b'), ('c',)], 300.0, 4, 0.0, [None])
scenario('one attribute', Domain(['x'], [6]), [('x',)], 64.5, 5, 0.3, [None, 1000])

# 4. a model fitted to data with GraphicalModel.fit (potentials only, one clique)
dom = Domain(['u', 'v'], [4, 3])
prng = np.random.RandomState(7)
u = prng.randint(0, 4, 400); v = (u + prng.randint(0, 2, 400)) % 3
data = Dataset(pd.DataFrame({'u': u, 'v': v}), dom)
fitted = GraphicalModel(dom, [('u', 'v')], total=400.0)
fitted.fit(data)
snap = {cl: fitted.potentials[cl].values.copy() for cl in fitted.cliques}
for k in range(3):
    check('fit(u,v) call%d round' % (k + 1), fitted, snap, 400, 'round', 900 + k, 4.0)

# 5. a model estimated by FactoredInference (carries pre-computed marginals)
np.random.seed(11)
truth = prng.rand(3, 4); truth[0, 1] = 0; truth *= 2000 / truth.sum()
engine = FactoredInference(Domain(['a', 'b'], [3, 4]), iters=200, log=False)
est = engine.estimate([(None, truth.flatten(), 1.0, ('a', 'b'))], total=2000.0)
for k in range(2):
    np.random.seed(950 + k)
    s = est.synthetic_data()
    digest.update(s.df.values.astype(np.int64).tobytes())
    dev = np.abs(s.project(('a', 'b')).datavector() - est.project(('a', 'b')).datavector()).max()
    if s.df.shape[0] != 2000 or dev > 4.0:
        failures.append('estimated model call%d: rows=%d dev=%.1f' % (k + 1, s.df.shape[0], dev))
    lines.append('%-34s rows=%-6d ok=%s' % ('estimated call%d' % (k + 1), s.df.shape[0], dev <= 4.0))

print('\n'.join(lines))
if failures:
    print('FAIL: synthetic data does not realise the model')
    for f in failures[:25]:
        print('  -', f)
    sys.exit(1)
print('PASS digest=' + digest.hexdigest())

"""C11 pair 2 -- how the per-column generator draws a column in method='sample'.

Property clause exercised: "in sampling mode the records follow the model's distribution"
-- the whole joint distribution, i.e. also the conditional independences the model encodes
between attributes that do not share a clique (a and c in the chain a-b-c, two leaves of a star).

Rounding-mode results are hashed (the change must not touch them); sampling-mode results are
judged by statistical tests with fixed seeds and fixed tolerances, and only the verdicts are
printed, so that the output does not depend on how many random numbers a draw consumes.

Exit 0 + PASS + digest on correct code, exit 1 + FAIL on broken code.
"""
import os, sys, hashlib, itertools, warnings
if os.environ.get('PYTHONHASHSEED') != '0':      # set iteration order must not vary between runs
    os.environ['PYTHONHASHSEED'] = '0'
    os.execv(sys.executable, [sys.executable] + sys.argv)
ROOT = os.path.dirname(os.path.dirname(os.path.dirname(os.path.abspath(__file__))))
sys.path.insert(0, ROOT)
sys.path.insert(0, os.path.join(ROOT, 'src'))
warnings.filterwarnings('ignore')

import numpy as np
import pandas as pd
from pandas.core.groupby.generic import DataFrameGroupBy


def _apply(self, func, *args, **kwargs):
    # pandas-2 semantics of groupby(...).apply(f) (pandas 3 drops the grouping columns, which
    # is why synthetic_data cannot run unaided in this environment)
    pieces = []
    for key, grp in self:
        grp = grp.copy()
        object.__setattr__(grp, 'name', key)
        pieces.append(func(grp, *args, **kwargs))
    return pd.concat(pieces).sort_index()


DataFrameGroupBy.apply = _apply

import mbi
from mbi import Domain, Dataset, Factor, GraphicalModel, CliqueVector
assert os.path.abspath(mbi.__file__).startswith(ROOT), 'wrong mbi on the path: ' + mbi.__file__

failures = []
digest = hashlib.sha256()
lines = []


def brute_force(domain, pots):
    logp = np.zeros(domain.shape)
    for cl, vals in pots.items():
        shape = [domain[a] if a in cl else 1 for a in domain.attrs]
        order = [cl.index(a) for a in domain.attrs if a in cl]
        logp = logp + np.transpose(vals, order).reshape(shape)
    p = np.exp(logp - logp.max())
    return p / p.sum()


def marginal(joint, domain, attrs):
    axes = tuple(i for i, a in enumerate(domain.attrs) if a not in attrs)
    return joint.sum(axis=axes)            # axes in domain order


def basic(tag, domain, df, n):
    ok = True
    if df.shape[0] != n:
        failures.append('%s: %d rows, expected %d' % (tag, df.shape[0], n)); ok = False
    if (df.values < 0).any() or (df.values >= np.array(domain.shape)).any():
        failures.append('%s: value outside the domain' % tag); ok = False
    return ok


def run(name, domain, cliques, total, seed, zero_frac, sizes):
    model = GraphicalModel(domain, cliques, total=total)
    prng = np.random.RandomState(seed)
    pots = {}
    for cl in model.cliques:
        vals = 2.5 * prng.randn(*domain.project(cl).shape)      # strong dependencies
        vals[prng.rand(*vals.shape) < zero_frac] = -np.inf
        pots[cl] = vals
    model.potentials = CliqueVector({cl: Factor(domain.project(cl), v.copy()) for cl, v in pots.items()})
    joint = brute_force(domain, pots)
    attrs = domain.attrs
    for n in sizes:
        # ---- rounding mode: exact, hashed
        tag = '%s round n=%s' % (name, n)
        np.random.seed(1000 * seed + 1)
        synth = model.synthetic_data(rows=n, method='round')
        rows = int(total) if n is None else n
        ok = basic(tag, domain, synth.df, rows)
        digest.update(synth.df.values.astype(np.int64).tobytes())
        for cl in model.cliques:
            can = domain.canonical(cl)
            exp = marginal(joint, domain, can) * rows
            got = synth.project(can).datavector(flatten=False)
            if got[exp == 0].sum() > 0 or np.abs(got - exp).max() > 4.0:
                failures.append('%s: clique %s off by %.1f' % (tag, can, np.abs(got - exp).max())); ok = False
        lines.append('%-34s rows=%-6d ok=%s' % (tag, synth.df.shape[0], ok))

        # ---- sampling mode: statistical verdicts only
        tag = '%s sample n=%s' % (name, n)
        np.random.seed(1000 * seed + 2)
        synth = model.synthetic_data(rows=n, method='sample')
        ok = basic(tag, domain, synth.df, rows)
        subsets = [attrs] + [c for k in (1, 2) for c in itertools.combinations(attrs, k)]
        for sub in subsets:
            if len(sub) > len(attrs):
                continue
            exp = marginal(joint, domain, sub)
            got = synth.project(sub).datavector(flatten=False)
            if got[exp == 0].sum() > 0:
                failures.append('%s: %d record(s) in zero-probability cells of %s' % (tag, got[exp == 0].sum(), sub)); ok = False
            tv = 0.5 * np.abs(got / rows - exp).sum()
            tol = 1.25 * np.sqrt(exp.size / rows)       # ~3x the typical sampling fluctuation
            if rows >= 200 and tv > tol:
                failures.append('%s: marginal on %s is %.3f (total variation) away from the model, '
                                'sampling noise allows %.3f' % (tag, sub, tv, tol)); ok = False
        lines.append('%-34s rows=%-6d ok=%s' % (tag, synth.df.shape[0], ok))


run('chain a-b-c', Domain(['a', 'b', 'c'], [4, 2, 5]), [('a', 'b'), ('b', 'c')], 5000.0, 1, 0.1, [None, 1, 200, 40000])
run('star h-(x,y,z)', Domain(['h', 'x', 'y', 'z'], [2, 4, 5, 3]), [('h', 'x'), ('h', 'y'), ('h', 'z')], 800.0, 2, 0.1, [None, 40000])
run('triangle+tail', Domain(['a', 'b', 'c', 'd'], [3, 3, 2, 4]), [('a', 'b'), ('b', 'c'), ('a', 'c'), ('c', 'd')], 1000.0, 3, 0.15, [None, 40000])
run('pair a-b', Domain(['a', 'b'], [6, 5]), [('a', 'b')], 300.0, 4, 0.2, [None, 40000])
run('independent', Domain(['a', 'b', 'c'], [3, 4, 2]), [('a',), ('b',), ('c',)], 250.0, 5, 0.2, [None, 40000])

print('\n'.join(lines))
if failures:
    print('FAIL: synthetic records do not follow the model')
    for f in failures[:25]:
        print('  -', f)
    sys.exit(1)
print('PASS digest(round-mode data)=' + digest.hexdigest())

#!/usr/bin/env python
"""C11 / pair 1 -- `synthetic_col` (method='round'): turning the rounded cell counts
into a shuffled column of values.

Checks, for several models with structural zeros (some of them at value 0 of an
attribute), row counts 1 .. 20000, both methods and several seeds:
  * exactly the requested number of rows (default: integer part of model.total)
  * every value inside its attribute's domain
  * no record in a cell to which the model gives probability zero
  * method='round': |count - expected| on every model clique bounded independently of N
  * method='sample': empirical clique marginals close to the model's
Exit 0 + PASS + digest when all hold, exit 1 + FAIL otherwise.
"""
import os, sys

if os.environ.get('PYTHONHASHSEED') != '0':          # set iteration order -> reproducible digest
    env = dict(os.environ, PYTHONHASHSEED='0')
    os.execve(sys.executable, [sys.executable] + sys.argv, env)

ROOT = os.path.dirname(os.path.dirname(os.path.dirname(os.path.abspath(__file__))))
sys.path.insert(0, os.path.join(ROOT, 'src'))
import warnings
warnings.filterwarnings('ignore')
import hashlib, itertools
import numpy as np
import pandas as pd
import mbi
assert os.path.abspath(mbi.__file__).startswith(ROOT), mbi.__file__
from mbi import Domain, Factor, GraphicalModel, CliqueVector

# ---------------------------------------------------------------------------
# pandas >= 2.2/3 drops the grouping columns inside groupby.apply, which makes
# synthetic_data() die in its last line.  Emulate the pandas-1 behaviour the
# library was written for (group.name = key tuple, groups keep all columns,
# result in the original row order).
_orig_groupby = pd.DataFrame.groupby

class _LegacyGroupBy:
    def __init__(self, df, by):
        self.df, self.by = df, by
    def apply(self, func):
        pieces = []
        for name, group in _orig_groupby(self.df, self.by, sort=True):
            group = group.copy()
            object.__setattr__(group, 'name', name if isinstance(name, tuple) else (name,))
            pieces.append(func(group))
        return pd.concat(pieces).loc[self.df.index]

def _groupby(self, by=None, *args, **kwargs):
    if kwargs.get('group_keys', True) is False and isinstance(by, list) and not args:
        return _LegacyGroupBy(self, by)
    return _orig_groupby(self, by, *args, **kwargs)

pd.DataFrame.groupby = _groupby
# ---------------------------------------------------------------------------

def make_model(attrs, shape, cliques, zeros, total, seed):
    """ random log-potentials on the maximal cliques, -inf at the listed cells """
    dom = Domain(attrs, shape)
    model = GraphicalModel(dom, cliques, total=total)
    prng = np.random.RandomState(seed)
    pots = {}
    for cl in model.cliques:
        vals = prng.normal(0, 1.0, size=dom.project(cl).shape)
        for zcl, cells in zeros.items():
            if tuple(zcl) == tuple(cl):
                for cell in cells:
                    vals[cell] = -np.inf
        pots[cl] = Factor(dom.project(cl), vals)
    assert all(tuple(z) in pots for z in zeros), (list(zeros), model.cliques)
    model.potentials = CliqueVector(pots)
    return model

def joint(model):
    p = model.datavector(flatten=False)
    return p / p.sum()

def clique_probs(model, P, cl):
    ax = tuple(i for i, a in enumerate(model.domain.attrs) if a not in cl)
    return P.sum(axis=ax)      # model cliques are in domain order

MODELS = [
    ('chain-zero-at-0', dict(attrs=['a', 'b', 'c'], shape=[3, 4, 3],
        cliques=[('a', 'b'), ('b', 'c')],
        zeros={('a', 'b'): [(1, 0), (2, 0), (2, 1), (0, 3)], ('b', 'c'): [(1, 0), (3, 0), (3, 1), (0, 2)]},
        total=1000.0, seed=1)),
    ('triangle-tail', dict(attrs=['a', 'b', 'c', 'd'], shape=[2, 3, 2, 4],
        cliques=[('a', 'b', 'c'), ('c', 'd')],
        zeros={('a', 'b', 'c'): [(0, 0, 0), (1, 0, 0), (1, 1, 0), (0, 2, 1)], ('c', 'd'): [(0, 0), (1, 3), (1, 0)]},
        total=57.9, seed=2)),
    ('independent', dict(attrs=['a', 'b'], shape=[4, 3],
        cliques=[('a',), ('b',)],
        zeros={('a',): [(0,), (2,)], ('b',): [(0,)]},
        total=10.0, seed=3)),
    ('dense-no-zeros', dict(attrs=['a', 'b', 'c'], shape=[2, 2, 5],
        cliques=[('a', 'b'), ('b', 'c')], zeros={}, total=333.0, seed=4)),
]
ROWS = [None, 1, 2, 7, 100, 1000, 20000]
SEEDS = [0, 1, 2]

failures, lines = [], []
digest = hashlib.sha256()

nfail = [0]
def fail(msg):
    nfail[0] += 1
    if len(failures) < 12:
        failures.append(msg)
    elif len(failures) == 12:
        failures.append('...')

for name, spec in MODELS:
    model = make_model(**spec)
    dom = model.domain
    P = joint(model)
    bound = len(dom) + 1e-6                      # rounding bound: independent of N
    worst_round, worst_tv, before = 0.0, 0.0, nfail[0]
    for method, rows, seed in itertools.product(['round', 'sample'], ROWS, SEEDS):
        tag = '%s/%s/rows=%s/seed=%d' % (name, method, rows, seed)
        np.random.seed(1000 * seed + 17)
        try:
            data = model.synthetic_data(rows=rows, method=method)
        except Exception as e:
            fail('%s: synthetic_data raised %s: %s' % (tag, type(e).__name__, e)); continue
        df = data.df
        want = int(model.total) if rows is None else rows
        if df.shape[0] != want:
            fail('%s: %d rows, wanted %d' % (tag, df.shape[0], want)); continue
        vals = df.loc[:, list(dom.attrs)].values
        digest.update(np.ascontiguousarray(vals, dtype=np.int64).tobytes())
        if vals.min() < 0 or (vals.max(axis=0) >= np.array(dom.shape)).any():
            fail('%s: value outside the domain' % tag); continue
        hist = np.zeros(dom.shape)
        np.add.at(hist, tuple(vals.T), 1)
        bad = np.argwhere((hist > 0) & (P == 0))
        if len(bad):
            cell = dict(zip(dom.attrs, bad[0].tolist()))
            fail('%s: %d record(s) in zero-probability cell %s' % (tag, int(hist[tuple(bad[0])]), cell))
        for cl in model.cliques:
            emp = data.project(cl).datavector(flatten=False)
            exp = want * clique_probs(model, P, cl)
            if method == 'round':
                err = float(np.abs(emp - exp).max())
                worst_round = max(worst_round, err)
                if err > bound:
                    fail('%s: clique %s off by %.2f records (> %d)' % (tag, cl, err, len(dom)))
            elif want >= 1000:
                tv = 0.5 * float(np.abs(emp - exp).sum()) / want
                worst_tv = max(worst_tv, tv * np.sqrt(want))
                if tv > 2.5 * np.sqrt(emp.size / want):
                    fail('%s: clique %s TV distance %.4f' % (tag, cl, tv))
    lines.append('%-28s elim_order=%s violations=%d worst_round_err=%.4f worst_tv*sqrt(N)=%.4f'
                 % (name, ''.join(model.elimination_order), nfail[0] - before, worst_round, worst_tv))

for l in lines:
    print(l)
if failures:
    print('FAIL: synthetic records do not realise the model')
    for f in failures:
        print('  -', f)
    sys.exit(1)
print('PASS digest=%s' % digest.hexdigest())
sys.exit(0)

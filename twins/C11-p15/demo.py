"""C11 pair 1 demo: a column with TWO (or more) already generated parents must be
drawn from the conditional table row that belongs to the parent values of the
group -- whatever order the parent attributes are iterated in.

The output only contains quantities that do not depend on the random stream or
on PYTHONHASHSEED (row counts, conformance, zero-support, and whether the
rounding error stays below an N-independent bound), so it is byte-identical for
every faithful implementation.
exit 0 + PASS + digest on a faithful implementation, exit 1 + FAIL otherwise.
"""
import os, sys, hashlib, itertools, warnings
ROOT = os.path.dirname(os.path.dirname(os.path.dirname(os.path.abspath(__file__))))
sys.path.insert(0, os.path.join(ROOT, 'src'))
sys.path.insert(1, ROOT)
warnings.filterwarnings('ignore')
import numpy as np
import pandas as pd
import pandas.core.groupby.generic as _gen


def _install_groupby_shim():
    """pandas 3 drops the grouping columns from the frames handed to / returned
    from groupby.apply, which makes synthetic_data() raise in this environment.
    Re-attach them (aligned on the index) so the library code runs unchanged."""
    orig = _gen.DataFrameGroupBy.apply

    def apply(self, func, *args, **kwargs):
        res = orig(self, func, *args, **kwargs)
        obj = self.obj
        for c in obj.columns:
            if c not in res.columns:
                res[c] = obj[c]
        return res.loc[:, list(obj.columns)]
    _gen.DataFrameGroupBy.apply = apply


_install_groupby_shim()
import mbi
from mbi import Domain, Factor, GraphicalModel, CliqueVector
assert os.path.abspath(mbi.__file__).startswith(ROOT), mbi.__file__


def table(names, sizes, seed, zeros=True):
    """a strongly asymmetric positive table over `names` (attribute -> axis is
    fixed by NAME, so every permutation of the domain describes the same model)"""
    rs = np.random.RandomState(seed)
    base = sorted(names)
    t = rs.rand(*[sizes[n] for n in base]) ** 4 + 1e-3
    if zeros:
        t[(0,) * len(base)] = 0.0
        t[tuple(sizes[n] - 1 for n in base[:-1]) + (0,)] = 0.0
    return base, t


def build(attrs, sizes, seed, pendant):
    """one 3-way clique over attrs[:3] (+ an optional pendant attribute)"""
    dom = Domain(attrs, [sizes[a] for a in attrs])
    tri = tuple(attrs[:3])
    cliques = [tri]
    base, t = table(tri, sizes, seed)
    fac = Factor(Domain(base, t.shape), np.log(t)).transpose(tri)
    pots = {tri: fac}
    if pendant:
        pc = (attrs[2], attrs[3])
        cliques.append(pc)
        b2, t2 = table(pc, sizes, seed + 1, zeros=False)
        pots[pc] = Factor(Domain(b2, t2.shape), np.log(t2)).transpose(pc)
    m = GraphicalModel(dom, cliques, total=500.0)
    assert set(m.cliques) == set(pots), (m.cliques, list(pots))
    m.potentials = CliqueVector({cl: pots[cl] for cl in m.cliques})
    return m


def check(tag, m, rows, method, seed, problems):
    tag = '%s/%s/N=%d/seed=%d' % (tag, method, rows, seed)
    np.random.seed(seed)
    try:
        with np.errstate(all='ignore'):
            syn = m.synthetic_data(rows=rows, method=method)
    except Exception as e:
        problems.append('%s: synthetic_data raised %s: %s' % (tag, type(e).__name__, e))
        return tag + ' raised'
    df = syn.df
    ok_rows = df.shape[0] == rows
    if not ok_rows:
        problems.append('%s: %d rows instead of %d' % (tag, df.shape[0], rows))
    vals = df.values
    ok_dom = bool(vals.min() >= 0 and (vals < np.array(m.domain.shape)).all())
    if not ok_dom:
        problems.append('%s: value outside the attribute domain' % tag)
        return tag + ' bad-domain'
    nzero, worst, where = 0, 0.0, None
    for cl in m.cliques:
        with np.errstate(all='ignore'):
            expect = m.project(cl).datavector() * rows / m.total
        got = syn.project(cl).datavector()
        nzero += int(got[expect == 0].sum())
        err = float(np.abs(got - expect).max())
        if err > worst:
            worst, where = err, cl
    if nzero:
        problems.append('%s: %d record(s) in zero-probability cells' % (tag, nzero))
    # rounding: error bounded independently of N; sampling: 6 sigma of a binomial cell
    bound = 2.0 * m.domain.size() if method == 'round' else 6 * np.sqrt(rows) / 2 + 2
    ok_err = worst <= bound
    if not ok_err:
        problems.append('%s: clique %s is off by %.1f records from the model (allowed %.1f): '
                        'the column was drawn from the conditional row of ANOTHER parent cell'
                        % (tag, where, worst, bound))
    return '%s rows=%s domain=%s zero_cells=%d within_bound=%s' % (tag, ok_rows, ok_dom, nzero, ok_err)


def main():
    problems, lines = [], []
    scenarios = []
    # equal parent sizes: a swapped index is silent; every order of the three names
    for names, sizes in [(('age', 'inc', 'sex'), {'age': 3, 'inc': 3, 'sex': 3, 'zip': 2}),
                         (('u', 'v', 'w'), {'u': 4, 'v': 4, 'w': 4, 'zip': 2})]:
        for perm in itertools.permutations(names):
            scenarios.append(('tri[%s]' % ','.join(perm), list(perm), sizes, False))
            scenarios.append(('tri+zip[%s]' % ','.join(perm), list(perm) + ['zip'], sizes, True))
    # unequal parent sizes
    sizes = {'a': 2, 'b': 3, 'c': 4, 'zip': 2}
    for perm in itertools.permutations(('a', 'b', 'c')):
        scenarios.append(('uneq[%s]' % ','.join(perm), list(perm), sizes, False))
    # at most one parent anywhere (control: order cannot matter)
    for tag, attrs, sizes, pendant in scenarios:
        m = build(attrs, sizes, 5, pendant)
        for method, rows in [('round', 1), ('round', 400), ('round', 30000), ('sample', 30000)]:
            for seed in [0, 1]:
                lines.append(check(tag, m, rows, method, seed, problems))
    dom = Domain(['p', 'q', 'r'], [3, 4, 5])
    m = GraphicalModel(dom, [('p', 'q'), ('q', 'r')], total=90.0)
    rs = np.random.RandomState(2)
    m.potentials = CliqueVector({cl: Factor(dom.project(cl), np.log(rs.rand(*dom.project(cl).shape) ** 3))
                                 for cl in m.cliques})
    for method, rows in [('round', 400), ('round', 30000), ('sample', 30000)]:
        lines.append(check('chain[p,q,r]', m, rows, method, 0, problems))

    if problems:
        print('FAIL: synthetic data do not faithfully realise the model')
        for p in problems[:10]:
            print('  - ' + p)
        print('  (%d problem(s) in total)' % len(problems))
        return 1
    print('PASS')
    for l in lines:
        print(l)
    print('digest', hashlib.sha256('\n'.join(lines).encode()).hexdigest())
    return 0


if __name__ == '__main__':
    sys.exit(main())

"""C11 pair 2 demo: leftover records of the randomised rounding must only go to
cells the model gives positive probability (zero-support clause), with exact row
counts, in-domain values and an N-independent rounding error.

exit 0 + PASS + digest on a faithful implementation, exit 1 + FAIL otherwise.
"""
import os, sys, hashlib, warnings
if os.environ.get('PYTHONHASHSEED') != '0':
    # the library iterates over sets of attribute names; pin the string hash so
    # that the random stream (and hence the digest) is reproducible
    env = dict(os.environ, PYTHONHASHSEED='0')
    os.execve(sys.executable, [sys.executable] + sys.argv, env)
ROOT =os.path.dirname(os.path.dirname(os.path.dirname(os.path.abspath(__file__))))
sys.path.insert(0, os.path.join(ROOT, 'src'))
sys.path.insert(1, ROOT)
warnings.filterwarnings('ignore')
import numpy as np
import pandas as pd
import pandas.core.groupby.generic as _gen


def _install_groupby_shim():
    """pandas 3 drops the grouping columns from the frames handed to / returned
    from groupby.apply, which makes synthetic_data() raise in this environment.
    Re-attach them (aligned on the index) so the library code runs unchanged."""
    orig = _gen.DataFrameGroupBy.apply

    def apply(self, func, *args, **kwargs):
        res = orig(self, func, *args, **kwargs)
        obj = self.obj
        for c in obj.columns:
            if c not in res.columns:
                res[c] = obj[c]
        return res.loc[:, list(obj.columns)]
    _gen.DataFrameGroupBy.apply = apply


_install_groupby_shim()
import mbi
from mbi import Domain, Factor, GraphicalModel, CliqueVector
assert os.path.abspath(mbi.__file__).startswith(ROOT), mbi.__file__

NEG = -np.inf


def build(name):
    """returns (model, description)."""
    if name == 'single':          # one attribute, zero cells before the support
        dom = Domain(['x'], [6])
        p = np.array([0, 0, .31, 0, .42, .27])
        m = GraphicalModel(dom, [('x',)], total=50.0)
        pots = {('x',): Factor(dom, np.log(p))}
    elif name == 'chain':         # a - b - c with structural zeros in both tables
        dom = Domain(['a', 'b', 'c'], [4, 5, 3])
        rs = np.random.RandomState(7)
        ab = rs.rand(4, 5) + .1
        ab[0, :] = 0; ab[:, 1] = 0; ab[2, 0] = 0; ab[3, 3] = 0
        bc = rs.rand(5, 3) + .1
        bc[:, 0] = 0; bc[2, 1] = 0; bc[4, 2] = 0
        m = GraphicalModel(dom, [('a', 'b'), ('b', 'c')], total=1000.0)
        pots = {('a', 'b'): Factor(dom.project(('a', 'b')), np.log(ab)),
                ('b', 'c'): Factor(dom.project(('b', 'c')), np.log(bc))}
    elif name == 'triangle':      # one 3-way clique plus a pendant attribute
        dom = Domain(['a', 'b', 'c', 'd'], [3, 3, 4, 2])
        rs = np.random.RandomState(11)
        abc = rs.rand(3, 3, 4) + .05
        abc[0] = 0; abc[:, :, 0] = 0; abc[1, 1, :] = 0; abc[2, 0, 2] = 0
        cd = rs.rand(4, 2) + .05
        cd[:, 0] *= 3; cd[1, 0] = 0
        m = GraphicalModel(dom, [('a', 'b', 'c'), ('c', 'd')], total=777.0)
        pots = {('a', 'b', 'c'): Factor(dom.project(('a', 'b', 'c')), np.log(abc)),
                ('c', 'd'): Factor(dom.project(('c', 'd')), np.log(cd))}
    elif name == 'dense':         # no zero cells at all (control)
        dom = Domain(['a', 'b'], [3, 4])
        rs = np.random.RandomState(3)
        m = GraphicalModel(dom, [('a', 'b')], total=10.0)
        pots = {('a', 'b'): Factor(dom, np.log(rs.rand(3, 4) + .2))}
    pots = {cl: pots[cl] for cl in m.cliques}
    m.potentials = CliqueVector(pots)
    return m


def check(name, rows, method, seed, problems):
    m = build(name)
    np.random.seed(seed)
    tag = '%s/%s/N=%d/seed=%d' % (name, method, rows, seed)
    try:
        with np.errstate(all='ignore'):
            syn = m.synthetic_data(rows=rows, method=method)
    except Exception as e:
        # typically: an earlier column put a record into a zero-probability cell,
        # so the conditional table of the next column is 0/0 for that group
        problems.append('%s: synthetic_data raised %s: %s' % (tag, type(e).__name__, e))
        return 'raised'
    df = syn.df
    if df.shape[0] != rows:
        problems.append('%s: %d rows instead of %d' % (tag, df.shape[0], rows))
    vals = df.values
    hi = np.array(m.domain.shape)
    if vals.min() < 0 or (vals >= hi).any():
        problems.append('%s: value outside the attribute domain' % tag)
        return 'bad'
    worst = 0.0
    for cl in m.cliques:
        with np.errstate(all='ignore'):
            expect = m.project(cl).datavector() * rows / m.total
        got = syn.project(cl).datavector()
        nzero = int(got[expect == 0].sum())
        if nzero:
            cells = np.flatnonzero((expect == 0) & (got > 0))[:4]
            cells = [tuple(int(i) for i in np.unravel_index(c, m.domain.project(cl).shape)) for c in cells]
            problems.append('%s: %d record(s) in zero-probability cells of %s, e.g. %s'
                            % (tag, nzero, cl, cells))
        worst = max(worst, float(np.abs(got - expect).max()))
    if method == 'round':
        bound = 2.0 * m.domain.size()
        if worst > bound:
            problems.append('%s: rounding error %.1f exceeds the N-independent bound %.0f'
                            % (tag, worst, bound))
    h = hashlib.sha256(np.ascontiguousarray(vals).astype(np.int64).tobytes()).hexdigest()[:16]
    return '%s rows=%d worst=%.6f sha=%s' % (tag, df.shape[0], worst, h)


def main():
    problems, lines = [], []
    for name in ['single', 'chain', 'triangle', 'dense']:
        for method in ['round', 'sample']:
            for rows in [1, 7, 100, 1003, 20000]:
                for seed in [0, 1, 2]:
                    lines.append(check(name, rows, method, seed, problems))
    if problems:
        print('FAIL: synthetic data do not faithfully realise the model')
        for p in problems[:12]:
            print('  - ' + p)
        print('  (%d problem(s) in total)' % len(problems))
        return 1
    print('PASS')
    for l in lines:
        print(l)
    print('digest', hashlib.sha256('\n'.join(lines).encode()).hexdigest())
    return 0


if __name__ == '__main__':
    sys.exit(main())

"""C11 pair 1 demo: Factor.logsumexp over an axis subset, models with
impossible attribute values (whole fibres of -inf in the log-potentials).

exit 0 + PASS + digest   : library behaves (clean tree / preserving change)
exit 1 + FAIL + reasons  : property C11 violated (breaking change)
"""
import os, sys, hashlib, warnings
if os.environ.get('PYTHONHASHSEED') != '0':   # set iteration order of str attributes must be reproducible
    os.environ['PYTHONHASHSEED'] = '0'
    os.execv(sys.executable, [sys.executable] + sys.argv)
ROOT = os.path.dirname(os.path.dirname(os.path.dirname(os.path.abspath(__file__))))
sys.path.insert(0, os.path.join(ROOT, 'src'))
warnings.filterwarnings('ignore')
import numpy as np
import pandas as pd
np.seterr(all='ignore')
from mbi import Domain, Factor, CliqueVector, GraphicalModel


# --- pandas-3 shim -----------------------------------------------------------
# DataFrameGroupBy.apply no longer hands the grouping columns to the callback,
# which makes GraphicalModel.synthetic_data unusable in this environment.  The
# shim restores the behaviour the library was written against (pandas 1.x).
def _legacy_apply(self, func, *args, **kwargs):
    obj, pieces = self.obj, []
    for name, pos in sorted(self.indices.items(), key=lambda kv: kv[0] if isinstance(kv[0], tuple) else (kv[0],)):
        g = obj.iloc[pos].copy()
        object.__setattr__(g, 'name', name if isinstance(name, tuple) else (name,))
        pieces.append(func(g, *args, **kwargs))
    return pd.concat(pieces).sort_index()
pd.core.groupby.generic.DataFrameGroupBy.apply = _legacy_apply


def make_model(shape, cliques, total, seed, dead=(), holes=0):
    """random log-linear model; `dead` = {(attr, value)} values made impossible,
    `holes` = number of additional isolated zero cells per clique"""
    prng = np.random.RandomState(seed)
    attrs = [chr(ord('a') + i) for i in range(len(shape))]
    dom = Domain(attrs, shape)
    model = GraphicalModel(dom, cliques, total=total)
    pots = {}
    for cl in model.cliques:
        d = dom.project(cl)
        vals = prng.normal(size=d.shape)
        for _ in range(holes):
            vals[tuple(prng.randint(n) for n in d.shape)] = -np.inf
        for attr, v in dead:
            if attr in cl:
                idx = [slice(None)] * len(cl)
                idx[cl.index(attr)] = v
                vals[tuple(idx)] = -np.inf
        pots[cl] = Factor(d, vals)
    model.potentials = CliqueVector(pots)
    return model


def check(tag, model, rows, method, seed, out, problems):
    np.random.seed(seed)
    try:
        synth = model.synthetic_data(rows=rows, method=method)
    except Exception as e:
        problems.append('%s: synthetic_data raised %s: %s' % (tag, type(e).__name__, e))
        return
    df = synth.df
    want = int(model.total) if rows is None else rows
    if df.shape[0] != want:
        problems.append('%s: %d rows, wanted %d' % (tag, df.shape[0], want))
    vals = df.values
    if (vals < 0).any() or (vals >= np.array(model.domain.shape)).any():
        problems.append('%s: value outside the domain' % tag)
    joint = model.datavector(flatten=False)
    if not np.isfinite(joint).all():
        problems.append('%s: model.datavector() is not finite' % tag)
    bad, worst = 0, 0.0
    for cl in model.cliques:
        expect = model.project(cl).datavector(flatten=False) * (df.shape[0] / model.total)
        if not np.isfinite(expect).all():
            problems.append('%s: marginal on %s is not finite' % (tag, (cl,)))
            continue
        got = synth.project(cl).datavector(flatten=False)
        bad += int(got[expect == 0].sum())
        worst = max(worst, float(np.abs(got - expect).max()))
    if bad:
        problems.append('%s: %d records in zero-probability cells' % (tag, bad))
    # N-independent bound for rounding mode: one unit per generated column
    if method == 'round' and worst > len(model.domain) + 1:
        problems.append('%s: clique count off by %.3f' % (tag, worst))
    h = hashlib.sha256(np.ascontiguousarray(vals).tobytes()).hexdigest()[:16]
    out.append('%-34s rows=%-7d zero_cell_records=%d %s' % (
        tag, df.shape[0], bad, ('maxerr=%.3f ' % worst if method == 'round' else '') + h))


def main():
    out, problems = [], []
    configs = [
        # name, shape, cliques, total, dead values, holes
        ('chain-plain', (3, 4, 2), [('a', 'b'), ('b', 'c')], 1000.0, (), 0),
        ('chain-holes', (3, 4, 2), [('a', 'b'), ('b', 'c')], 1000.0, (), 2),
        ('chain-dead-a0', (3, 4, 2), [('a', 'b'), ('b', 'c')], 777.7, (('a', 0),), 1),
        ('chain-dead-b3', (3, 4, 2), [('a', 'b'), ('b', 'c')], 500.0, (('b', 3),), 0),
        ('tri-dead-c1,d0', (2, 3, 4, 3), [('a', 'b', 'c'), ('c', 'd')], 2500.0, (('c', 1), ('d', 0)), 1),
        ('star-dead-a2', (4, 3, 3, 2), [('a', 'b'), ('a', 'c'), ('a', 'd')], 1234.0, (('a', 2),), 0),
    ]
    for i, (name, shape, cliques, total, dead, holes) in enumerate(configs):
        model = make_model(shape, cliques, total, 100 + i, dead, holes)
        for rows in (None, 1, 37, 20000):
            for method in ('round', 'sample'):
                tag = '%s/%s/%s' % (name, rows, method)
                check(tag, model, rows, method, 7 * i + 1, out, problems)
    # the factor-level view of the same thing
    dom = Domain(['a', 'b', 'c'], [2, 3, 4])
    vals = np.random.RandomState(5).normal(size=dom.shape)
    vals[:, 1, :] = -np.inf
    res = Factor(dom, vals).logsumexp(['a', 'c']).values
    ref = np.log(np.exp(vals).sum(axis=(0, 2)))
    if not (np.isneginf(res[1]) and np.allclose(res[[0, 2]], ref[[0, 2]])):
        problems.append('Factor.logsumexp(all -inf fibre) = %s, expected %s' % (res, ref))
    out.append('logsumexp-fibre ' + ' '.join('%.9f' % v for v in res))

    if problems:
        print('FAIL')
        for p in problems[:25]:
            print('  ' + p)
        print('  (%d problems in total)' % len(problems))
        sys.exit(1)
    print('PASS')
    for line in out:
        print(line)
    print('digest', hashlib.sha256('\n'.join(out).encode()).hexdigest())


if __name__ == '__main__':
    main()

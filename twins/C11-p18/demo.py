"""C11 pair 2 demo: reproducible synthetic data (optional `seed` argument of
GraphicalModel.synthetic_data) on connected and DISCONNECTED models.

On a tree without the `seed` argument the demo seeds numpy's global generator
instead, which by construction yields the same legacy MT19937 stream.

exit 0 + PASS + digest   : library behaves (clean tree / preserving change)
exit 1 + FAIL + reasons  : property C11 violated (breaking change)
"""
import os, sys, hashlib, warnings, inspect
if os.environ.get('PYTHONHASHSEED') != '0':   # set iteration order of str attributes must be reproducible
    os.environ['PYTHONHASHSEED'] = '0'
    os.execv(sys.executable, [sys.executable] + sys.argv)
ROOT = os.path.dirname(os.path.dirname(os.path.dirname(os.path.abspath(__file__))))
sys.path.insert(0, os.path.join(ROOT, 'src'))
warnings.filterwarnings('ignore')
import numpy as np
import pandas as pd
np.seterr(all='ignore')
from mbi import Domain, Factor, CliqueVector, GraphicalModel


# --- pandas-3 shim (see pair1/demo.py): give the callback of groupby.apply the
# grouping columns again, as in the pandas the library was written against.
def _legacy_apply(self, func, *args, **kwargs):
    obj, pieces = self.obj, []
    for name, pos in sorted(self.indices.items(), key=lambda kv: kv[0] if isinstance(kv[0], tuple) else (kv[0],)):
        g = obj.iloc[pos].copy()
        object.__setattr__(g, 'name', name if isinstance(name, tuple) else (name,))
        pieces.append(func(g, *args, **kwargs))
    return pd.concat(pieces).sort_index()
pd.core.groupby.generic.DataFrameGroupBy.apply = _legacy_apply

HAS_SEED = 'seed' in inspect.signature(GraphicalModel.synthetic_data).parameters


def generate(model, rows, method, seed):
    if seed is None:                 # historical call, global generator
        np.random.seed(4242)
        return model.synthetic_data(rows, method)
    if HAS_SEED:
        np.random.seed(99)           # global state must be irrelevant now
        return model.synthetic_data(rows, method, seed=seed)
    np.random.seed(seed)
    return model.synthetic_data(rows, method)


def make_model(shape, cliques, total, seed):
    prng = np.random.RandomState(seed)
    attrs = [chr(ord('a') + i) for i in range(len(shape))]
    dom = Domain(attrs, shape)
    model = GraphicalModel(dom, cliques, total=total)
    pots = {cl: Factor(dom.project(cl), prng.normal(size=dom.project(cl).shape)) for cl in model.cliques}
    model.potentials = CliqueVector(pots)
    return model


def check(tag, model, rows, method, seed, out, problems):
    try:
        synth = generate(model, rows, method, seed)
    except Exception as e:
        problems.append('%s: synthetic_data raised %s: %s' % (tag, type(e).__name__, e))
        return
    df = synth.df
    n = df.shape[0]
    want = int(model.total) if rows is None else rows
    if n != want:
        problems.append('%s: %d rows, wanted %d' % (tag, n, want))
    vals = df.values
    if (vals < 0).any() or (vals >= np.array(model.domain.shape)).any():
        problems.append('%s: value outside the domain' % tag)
    worst = 0.0
    for cl in model.cliques:
        expect = model.project(cl).datavector(flatten=False) * (n / model.total)
        got = synth.project(cl).datavector(flatten=False)
        worst = max(worst, float(np.abs(got - expect).max()))
    if method == 'round' and worst > len(model.domain) + 1:
        problems.append('%s: clique count off by %.3f' % (tag, worst))
    # sampling mode: the records must follow the model's JOINT distribution
    joint = model.datavector(flatten=True) / model.total
    emp = synth.datavector(flatten=True) / n
    tv = 0.5 * float(np.abs(emp - joint).sum())
    note = ''
    if method == 'sample' and n >= 10000:
        bound = 1.5 * np.sqrt(joint.size / n)     # ~4x the expected sampling noise
        note = ' tv=%.4f' % tv
        if tv > bound:
            problems.append('%s: joint distribution of the sample is off, total variation '
                            '%.3f (noise bound %.3f)' % (tag, tv, bound))
    h = hashlib.sha256(np.ascontiguousarray(vals).tobytes()).hexdigest()[:16]
    out.append('%-34s rows=%-6d cliquemaxerr=%8.3f%s %s' % (tag, n, worst, note, h))


def main():
    out, problems = [], []
    configs = [
        ('chain', (3, 4, 2), [('a', 'b'), ('b', 'c')], 1500.0),
        ('triangle+d', (2, 3, 3, 2), [('a', 'b', 'c'), ('c', 'd')], 900.5),
        ('independent', (3, 3, 3), [('a',), ('b',), ('c',)], 2000.0),
        ('two-parts', (2, 3, 3, 2), [('a', 'b'), ('c', 'd')], 1200.0),
        ('pair+single', (4, 2, 4), [('a', 'b'), ('c',)], 800.0),
    ]
    for i, (name, shape, cliques, total) in enumerate(configs):
        model = make_model(shape, cliques, total, 300 + i)
        for rows in (None, 1, 40000):
            for method in ('round', 'sample'):
                for seed in (None, 11 + i):
                    tag = '%s/%s/%s/seed=%s' % (name, rows, method, seed)
                    check(tag, model, rows, method, seed, out, problems)
    if problems:
        print('FAIL')
        for p in problems[:25]:
            print('  ' + p)
        print('  (%d problems in total)' % len(problems))
        sys.exit(1)
    print('PASS')
    for line in out:
        print(line)
    print('digest', hashlib.sha256('\n'.join(out).encode()).hexdigest())


if __name__ == '__main__':
    main()

"""C11 pair1 demo: synthetic records must faithfully realise the model.

Site: GraphicalModel.synthetic_data -- how the list of maximal cliques (as
sets) is materialised before the column-by-column generation loop, and how the
neighbourhood of a column is assembled from it.

exit 0 + PASS + digest  on the unmodified code and with keep/patch.diff
exit 1 + FAIL + reasons with break/patch.diff
"""
import os, sys

# set iteration order of str attributes depends on the hash seed: pin it so
# that the digest is reproducible from run to run
if os.environ.get('PYTHONHASHSEED') != '0':
    os.environ['PYTHONHASHSEED'] = '0'
    os.execv(sys.executable, [sys.executable] + sys.argv)

HERE = os.path.abspath(__file__)
ROOT = os.path.dirname(os.path.dirname(os.path.dirname(HERE)))
sys.path.insert(0, ROOT)
sys.path.insert(0, os.path.join(ROOT, 'src'))

import warnings
warnings.filterwarnings('ignore')
import hashlib
import numpy as np
import pandas as pd
from pandas.core.groupby.generic import DataFrameGroupBy

import mbi
from mbi import Domain, Factor, CliqueVector, GraphicalModel

assert os.path.abspath(mbi.__file__).startswith(ROOT), mbi.__file__


# --- pandas-3 shim -----------------------------------------------------------
# synthetic_data relies on the pre-2.2 behaviour of groupby.apply (the group
# handed to the function still carries the key columns and a `.name`).
def _legacy_apply(self, func, *args, **kwargs):
    parts = []
    for name, grp in self:
        grp = grp.copy()
        if isinstance(name, tuple) and len(name) == 1:
            name = name[0]
        object.__setattr__(grp, 'name', name)
        parts.append(func(grp, *args, **kwargs))
    return pd.concat(parts).sort_index()

DataFrameGroupBy.apply = _legacy_apply


# --- models ------------------------------------------------------------------
def make_model(attrs, shape, cliques, total, seed, zero_frac=0.25):
    prng = np.random.RandomState(seed)
    dom = Domain(attrs, shape)
    model = GraphicalModel(dom, cliques, total=total)
    pots = {}
    for cl in model.cliques:
        d = dom.project(cl)
        vals = 2.0 * prng.randn(*d.shape)
        mask = prng.rand(*d.shape) < zero_frac
        if mask.all():
            mask.flat[0] = False
        vals[mask] = -np.inf
        pots[cl] = Factor(d, vals)
    model.potentials = CliqueVector(pots)
    return model

MODELS = [
    ('pair',    list('ab'),    [3, 4],          [('a', 'b')],                                   500.0, 1),
    ('chain3',  list('abc'),   [3, 4, 3],       [('a', 'b'), ('b', 'c')],                       1234.56, 2),
    ('chain5',  list('abcde'), [2, 3, 2, 3, 2], [('a', 'b'), ('b', 'c'), ('c', 'd'), ('d', 'e')], 1000.0, 3),
    ('cycle4',  list('abcd'),  [2, 3, 2, 3],    [('a', 'b'), ('b', 'c'), ('c', 'd'), ('a', 'd')], 800.0, 4),
    ('star',    list('habcd'), [3, 2, 3, 2, 3], [('h', 'a'), ('h', 'b'), ('h', 'c'), ('h', 'd')], 900.0, 5),
    ('forest',  list('abcde'), [2, 3, 3, 2, 4], [('a', 'b'), ('c', 'd')],                       700.0, 6),
    ('tri+tail', list('abcd'), [2, 3, 2, 4],    [('a', 'b', 'c'), ('c', 'd')],                  600.0, 7),
]

RUNS = [('round', None), ('round', 1), ('round', 7), ('round', 1000),
        ('round', 100000), ('sample', 1), ('sample', 1000), ('sample', 200000)]


def joint(model):
    """ reference distribution straight from the potentials (plain numpy) """
    dom = model.domain
    logp = np.zeros(dom.shape)
    for cl, f in model.potentials.items():
        ax = [dom.attrs.index(a) for a in f.domain.attrs]
        shp = [1] * len(dom)
        for a, n in zip(ax, f.values.shape):
            shp[a] = n
        order = np.argsort(ax)
        logp = logp + np.transpose(f.values, order).reshape(shp)
    p = np.exp(logp - logp[np.isfinite(logp)].max())
    return p / p.sum()


def check(tag, model, method, rows, failures, digest):
    dom = model.domain
    want = int(model.total) if rows is None else rows
    np.random.seed(1000 + (0 if rows is None else rows % 997))
    try:
        synth = model.synthetic_data(rows=rows, method=method) if rows is not None \
            else model.synthetic_data(method=method)
    except Exception as e:
        failures.append('%s: synthetic_data raised %s: %s' % (tag, type(e).__name__, e))
        return None
    df = synth.df
    vals = df.loc[:, list(dom.attrs)].to_numpy().astype(np.int64)
    digest.update(np.ascontiguousarray(vals).tobytes())
    if vals.shape[0] != want:
        failures.append('%s: %d rows generated, %d requested' % (tag, vals.shape[0], want))
        return None
    if (vals < 0).any() or (vals >= np.array(dom.shape)).any():
        failures.append('%s: value outside the attribute domain' % tag)
        return None
    P = joint(model)
    worst_err, worst_tv = 0.0, 0.0
    for cl in model.cliques:
        counts = synth.project(cl).datavector(flatten=False)
        other = tuple(i for i, a in enumerate(dom.attrs) if a not in cl)
        # model.cliques are in canonical (domain) order
        expect = P.sum(axis=other) * want
        stray = counts[expect == 0].sum()
        if stray > 0:
            failures.append('%s: %d records in zero-probability cells of clique %s'
                            % (tag, stray, cl))
        err = np.abs(counts - expect).max()
        tv = 0.5 * np.abs(counts - expect).sum() / want
        worst_err, worst_tv = max(worst_err, err), max(worst_tv, tv)
        if method == 'round':
            bound = float(counts.size)        # loose, independent of the row count
            if err > bound:
                failures.append('%s: clique %s count off by %.1f from the model '
                                '(rounding bound %.0f)' % (tag, cl, err, bound))
        elif want >= 100000 and tv > 0.03:
            failures.append('%s: clique %s total-variation distance %.4f from the model'
                            % (tag, cl, tv))
    return worst_err, worst_tv


def main():
    failures, lines = [], []
    digest = hashlib.sha256()
    for name, attrs, shape, cliques, total, seed in MODELS:
        model = make_model(attrs, shape, cliques, total, seed)
        for method, rows in RUNS:
            tag = '%s/%s/rows=%s' % (name, method, rows)
            res = check(tag, model, method, rows, failures, digest)
            if res is not None:
                lines.append('%-32s max|count-expected|=%.6f  tv=%.6f' % ((tag,) + res))
    if failures:
        print('FAIL: synthetic records do not realise the model')
        for f in failures[:40]:
            print('  -', f)
        if len(failures) > 40:
            print('  ... and %d more' % (len(failures) - 40))
        sys.exit(1)
    print('PASS')
    for l in lines:
        print(l)
    print('digest', digest.hexdigest())
    sys.exit(0)


if __name__ == '__main__':
    main()

"""C11 / pair 2 -- Factor.project() when there is nothing to marginalise.

Every call of GraphicalModel.synthetic_data() must realise the model, whatever
was generated from the same model object before: the property quantifies over
row counts from 1 to 1e6 and both methods, and nothing in it allows one
generation to influence the next.  This demo draws a SEQUENCE of synthetic
tables (rows = 1, 7, 1000, 200000, default, ...; methods round and sample) from
each model object and checks every table against the distribution defined by
the model's potentials (computed by brute force, independently of the cached
clique marginals):

  * exactly the requested number of rows, every value inside its domain,
  * no record in a cell to which the model gives zero probability,
  * method='round': |clique counts - expected counts| <= ROUND_BOUND for every
    maximal clique, the same bound for every row count,
  * method='sample': total-variation distance of every clique marginal of the
    records to the model marginal is small (fixed seed, 200000 records).

The models are (1) fitted with FactoredInference.estimate (structural zeros,
cached marginals -- what every mechanism hands to synthetic_data), (2) built by
hand with cached marginals (model.marginals = belief_propagation(potentials)),
(3) built by hand without cached marginals.  The library's real
synthetic_data / project / Factor.project code runs end to end; only a pandas-3
compatibility shim for DataFrame.groupby(...).apply(...) is installed, here in
the demo.

Exit 0 and print PASS + a digest of every generated table if all checks hold,
exit 1 and print FAIL + the violated checks otherwise.
"""
import os, sys

if os.environ.get('PYTHONHASHSEED') != '0':          # deterministic set/dict order
    os.environ['PYTHONHASHSEED'] = '0'
    os.execv(sys.executable, [sys.executable] + sys.argv)

ROOT = os.path.dirname(os.path.dirname(os.path.dirname(os.path.abspath(__file__))))
sys.path.insert(0, os.path.join(ROOT, 'src'))

import hashlib, warnings
warnings.filterwarnings('ignore')
import numpy as np
import pandas as pd

import mbi
assert os.path.abspath(mbi.__file__).startswith(os.path.join(ROOT, 'src')), mbi.__file__
from mbi import Domain, Factor, CliqueVector, GraphicalModel, FactoredInference, Dataset

# ---------------------------------------------------------------- pandas shim
# pandas 3 no longer hands the grouping columns to the function given to
# groupby(...).apply(...); synthetic_data() relies on the old behaviour.  The
# shim restores it (demo only; the library is not touched).
_orig_groupby = pd.DataFrame.groupby


class _GroupByProxy:
    def __init__(self, df, by):
        self.df, self.by = df, list(by)

    def apply(self, func):
        parts = []
        for name, grp in _orig_groupby(self.df, self.by, sort=True):
            grp = grp.copy()
            object.__setattr__(grp, 'name', name)
            parts.append(func(grp))
        return pd.concat(parts).sort_index()


def _groupby(self, by=None, *args, **kwargs):
    return _GroupByProxy(self, by)


pd.DataFrame.groupby = _groupby

# ---------------------------------------------------------------- models
# attribute names are small integers so that every set of attributes iterates
# in one fixed order (no dependence on string hashing / insertion history)
SHAPE = [2, 3, 4, 3, 2]
NATTR = len(SHAPE)
DOM = Domain(list(range(NATTR)), SHAPE)
ROUND_BOUND = 10.0     # the unmodified code stays below 3 on these models for every N
TV_BOUND = 0.02


def handmade(cliques, seed, cached):
    prng = np.random.RandomState(seed)
    model = GraphicalModel(DOM, cliques, total=54321.9)
    pots = {}
    for cl in model.cliques:
        dom = DOM.project(cl)
        vals = prng.normal(0, 1.5, size=dom.shape)
        vals[prng.rand(*dom.shape) < 0.2] = -np.inf          # structural zeros
        pots[cl] = Factor(dom, vals)
    model.potentials = CliqueVector(pots)
    if cached:                                   # exactly what FactoredInference does
        model.marginals = model.belief_propagation(model.potentials)
    return model


def fitted(cliques, seed):
    """noisy marginals of a random data set -> FactoredInference.estimate"""
    prng = np.random.RandomState(seed)
    np.random.seed(seed)
    data = Dataset.synthetic(DOM, 3000)
    zeros = {cliques[0]: [(0,) * len(cliques[0]), (1,) * len(cliques[0])]}
    measurements = []
    for cl in cliques:
        x = data.project(cl).datavector()
        y = x + prng.normal(0, 5.0, size=x.size)
        measurements.append((np.eye(x.size), y, 5.0, cl))
    engine = FactoredInference(DOM, structural_zeros=zeros, iters=150)
    return engine.estimate(measurements)


def truth(model):
    full = model.datavector(flatten=False)       # from the potentials only
    assert np.isfinite(full).all() and full.sum() > 0
    return full / full.sum()


def clique_marginal(joint, cl):
    other = tuple(i for i in range(NATTR) if i not in cl)
    return joint.sum(axis=other)                 # canonical axis order == clique order


# the sequence of generations drawn, in this order, from ONE model object
SEQUENCE = [('round', 1), ('round', 7), ('sample', 1000), ('round', 200000),
            ('sample', 200000), ('round', None), ('round', 1000), ('round', 1000000)]


def main():
    models = [
        ('fitted, chain',            lambda: fitted([(0, 1), (1, 2), (2, 3), (3, 4)], 11)),
        ('fitted, triangle + tail',  lambda: fitted([(0, 1, 2), (2, 3), (3, 4)], 12)),
        ('handmade, cached, star',   lambda: handmade([(2, 0), (2, 1), (2, 3), (2, 4)], 13, True)),
        ('handmade, cached, triples', lambda: handmade([(0, 1, 2), (1, 2, 3), (2, 3, 4)], 14, True)),
        ('handmade, not cached',     lambda: handmade([(0, 1, 2), (2, 3), (3, 4)], 15, False)),
    ]
    problems, lines = [], []
    for k, (name, make) in enumerate(models):
        model = make()
        joint = truth(model)
        cached = hasattr(model, 'marginals')
        before = {cl: model.marginals[cl].values.copy() for cl in model.cliques} if cached else {}
        lines.append('model %-26s total=%.3f cached=%s cliques %s generation order %s'
                     % (name, model.total, cached, model.cliques, model.elimination_order[::-1]))
        for j, (method, rows) in enumerate(SEQUENCE):
            np.random.seed(1000 * k + j)
            tag = '%s / call %d: %s rows=%s' % (name, j + 1, method, rows)
            try:
                synth = model.synthetic_data(rows=rows, method=method)
            except Exception as e:               # a crash is a failure too
                problems.append('%s: raised %s: %s' % (tag, type(e).__name__, e))
                continue
            df = synth.df
            want = int(model.total) if rows is None else rows
            if df.shape != (want, NATTR):
                problems.append('%s: shape %s, wanted %s rows' % (tag, df.shape, want))
                continue
            vals = df.values
            if (vals < 0).any() or (vals >= np.array(SHAPE)).any():
                problems.append('%s: value outside the domain' % tag)
                continue
            worst_err, worst_tv, nzero = 0.0, 0.0, 0
            for cl in model.cliques:
                p = clique_marginal(joint, cl)
                cnt = synth.project(cl).datavector(flatten=False)
                assert cnt.shape == p.shape
                nzero += int(cnt[p == 0].sum())
                worst_err = max(worst_err, float(np.abs(cnt - want * p).max()))
                worst_tv = max(worst_tv, float(0.5 * np.abs(cnt / want - p).sum()))
            if nzero:
                problems.append('%s: %d clique-cell records in cells of probability zero' % (tag, nzero))
            if method == 'round' and worst_err > ROUND_BOUND:
                problems.append('%s: clique counts off by %.1f (> %.0f) from the expected counts'
                                % (tag, worst_err, ROUND_BOUND))
            if method == 'sample' and want >= 100000 and worst_tv > TV_BOUND:
                problems.append('%s: clique marginal at TV distance %.4f (> %.2f) from the model'
                                % (tag, worst_tv, TV_BOUND))
            digest = hashlib.sha256(np.ascontiguousarray(vals, dtype=np.int64).tobytes()).hexdigest()[:16]
            lines.append('  call %d %-6s rows=%-7s -> %7d rows  max|count-expected|=%11.4f  maxTV=%.5f  zero-cell=%d  sha=%s'
                         % (j + 1, method, rows, df.shape[0], worst_err, worst_tv, nzero, digest))
        if cached:      # diagnostic only: did generating data modify the model?
            moved = [cl for cl in model.cliques
                     if not np.array_equal(before[cl], model.marginals[cl].values)]
            lines.append('  cached clique marginals modified by the generations: %s' % (moved or 'none'))
    print('\n'.join(lines))
    if problems:
        print('FAIL: %d violated checks' % len(problems))
        for p in problems:
            print('  - ' + p)
        sys.exit(1)
    print('PASS')
    sys.exit(0)


if __name__ == '__main__':
    main()

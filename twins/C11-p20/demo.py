"""C11 pair1 demo: which clique list synthetic_data() scans for the parents of a column."""
import os, sys
if os.environ.get('PYTHONHASHSEED') != '0':          # set iteration order must be reproducible
    os.environ['PYTHONHASHSEED'] = '0'
    os.execv(sys.executable, [sys.executable] + sys.argv)
ROOT = os.path.dirname(os.path.dirname(os.path.dirname(os.path.dirname(os.path.abspath(__file__)))))
sys.path.insert(0, os.path.join(ROOT, 'src'))
import warnings; warnings.filterwarnings('ignore')
import hashlib, itertools
import numpy as np, pandas as pd
from pandas.core.groupby.generic import DataFrameGroupBy
from mbi import Domain, GraphicalModel, Factor, CliqueVector
import mbi
assert os.path.abspath(mbi.__file__).startswith(ROOT), mbi.__file__

def _apply(self, func, *a, **k):
    """pandas<2 semantics: the group frames keep their grouping columns"""
    parts = []
    for name, pos in sorted(self.indices.items()):
        g = self.obj.iloc[pos].copy()
        g.name = name
        parts.append(func(g))
    return pd.concat(parts).sort_index()
DataFrameGroupBy.apply = _apply

def model(attrs, sizes, cliques, total, seed, zeros=0, scale=2.0, couple=0.0):
    rng = np.random.RandomState(seed)
    dom = Domain(attrs, sizes)
    m = GraphicalModel(dom, cliques, total=total)
    pots = {}
    for cl in m.cliques:
        pots[cl] = Factor.zeros(dom.project(cl))
    for cl in cliques:                      # one log-potential per measured clique
        f = Factor(dom.project(cl), scale * rng.randn(*dom.project(cl).shape))
        if couple and len(cl) == 2:          # attractive (Potts-like) coupling: equal values favoured
            f.values *= 0.1
            f.values += couple * np.eye(*f.values.shape)
        for _ in range(zeros):
            f.values[tuple(rng.randint(n) for n in f.values.shape)] = -np.inf
        host = [c for c in m.cliques if set(cl) <= set(c)][0]
        pots[host] = pots[host] + f.expand(pots[host].domain)
    m.potentials = CliqueVector(pots)
    return m

ring = lambda names: [(names[i], names[(i + 1) % len(names)]) for i in range(len(names))]
CASES = [
  ('chain4',   list('abcd'), [3, 2, 4, 3], [('a','b'), ('b','c'), ('c','d')], 0),
  ('star',     list('abcd'), [2, 3, 3, 2], [('a','b'), ('a','c'), ('a','d')], 1),
  ('triangle', list('abc'),  [3, 3, 2],    [('a','b','c')], 1),
  ('tri+tail', list('abcd'), [2, 3, 2, 3], [('a','b'), ('b','c'), ('a','c'), ('c','d')], 0),
  ('indep',    list('abc'),  [4, 1, 3],    [('a',), ('b',), ('c',)], 0),
  ('isolated', list('abc'),  [3, 4, 2],    [('a','b')], 0),
  ('cycle4',   list('abcd'), [3, 3, 3, 3], ring(list('abcd')), 0),
  ('potts4',   list('abcd'), [3, 2, 3, 2], ring(list('abcd')), 0),
  ('potts6',   list('abcdef'), [2]*6, ring(list('abcdef')), 0),
  ('cycle5z',  list('abcde'),[2, 3, 2, 3, 2], ring(list('abcde')), 1),
  ('grid2x3',  list('abcdef'),[2]*6, [('a','b'),('b','c'),('d','e'),('e','f'),('a','d'),('b','e'),('c','f')], 0),
]
ROWS = [1, 7, 1000, 200000]
bad, lines, h = [], [], hashlib.sha256()
for ci, (name, attrs, sizes, cliques, zeros) in enumerate(CASES):
    for method in ('round', 'sample'):
        for rows in ROWS:
            m = model(attrs, sizes, cliques, 5000.5, 100 + ci, zeros, couple=3.0 if name.startswith('potts') else 0.0)
            np.random.seed(7 * ci + rows % 97)
            try:
                synth = m.synthetic_data(rows=rows, method=method)
            except Exception as e:
                bad.append('%s/%s/%d: synthetic_data raised %s: %s' % (name, method, rows, type(e).__name__, e))
                continue
            vals = synth.df.values
            h.update(np.ascontiguousarray(vals, dtype=np.int64).tobytes())
            if vals.shape != (rows, len(attrs)):
                bad.append('%s/%s/%d: shape %s' % (name, method, rows, vals.shape))
            if (vals < 0).any() or (vals >= np.array(sizes)).any():
                bad.append('%s/%s/%d: value outside the domain' % (name, method, rows))
            worst = 0.0
            for cl in m.cliques:
                exp = m.project(cl).datavector() * rows / m.total
                got = synth.project(cl).datavector()
                if (got[exp < 1e-9 * rows] > 0).any():
                    bad.append('%s/%s/%d: record in a zero-probability cell of %s' % (name, method, rows, cl))
                worst = max(worst, np.abs(got - exp).max())
            # rounding: error bounded by the number of parent cells, whatever `rows` is;
            # sampling: binomial fluctuation, 6 sigma
            limit = float(np.prod(sizes)) if method == 'round' else 6 * np.sqrt(rows) + 1
            if worst > limit:
                bad.append('%s/%s/%d: clique counts off by %.1f records (limit %.1f)' % (name, method, rows, worst, limit))
            lines.append('%-9s %-6s rows=%-6d worst clique error %.6f' % (name, method, rows, worst))
if bad:
    print('FAIL')
    for b in bad: print('  ' + b)
    sys.exit(1)
print('PASS')
for l in lines: print(l)
print('digest', h.hexdigest())

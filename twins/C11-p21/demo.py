import os, sys, hashlib, warnings
warnings.filterwarnings('ignore')
ROOT = os.path.dirname(os.path.dirname(os.path.dirname(os.path.abspath(__file__))))
sys.path.insert(0, os.path.join(ROOT, 'src'))
import numpy as np
import pandas as pd
from pandas.core.groupby.generic import DataFrameGroupBy
from mbi import Domain, Factor, GraphicalModel, CliqueVector

# pandas 3 drops the grouping columns inside groupby.apply; put them back so
# that synthetic_data() can run to its end (shim lives only in this demo).
_orig_apply = DataFrameGroupBy.apply
def _apply(self, func, *a, **k):
    keys = list(self.keys) if isinstance(self.keys, (list, tuple)) else [self.keys]
    def wrapped(g):
        name = g.name
        vals = name if isinstance(name, tuple) else (name,)
        g = g.copy()
        for kk, v in zip(keys, vals):
            if kk not in g.columns:
                g[kk] = v
        object.__setattr__(g, 'name', name)
        return func(g)
    return _orig_apply(self, wrapped, *a, **k)
DataFrameGroupBy.apply = _apply

def model(attrs, shape, cliques, total, seed, zero_frac=0.2):
    prng = np.random.RandomState(seed)
    dom = Domain(attrs, shape)
    m = GraphicalModel(dom, cliques, total=total)
    pots = {}
    for cl in m.cliques:
        v = prng.normal(size=dom.project(cl).shape)
        v[prng.rand(*v.shape) < zero_frac] = -np.inf
        v.flat[0] = 0.0
        pots[cl] = Factor(dom.project(cl), v)
    m.potentials = CliqueVector(pots)
    return m

CASES = [
    (('a', 'b'), (40, 30), [('a', 'b')], 1000.0),
    (('a', 'b', 'c'), (25, 3, 60), [('a', 'b'), ('b', 'c')], 5000.0),
    (('a', 'b'), (2, 200), [('a', 'b')], 100000.0),
    (('x',), (500,), [('x',)], 777.0),
]

problems, digest = [], hashlib.sha256()
for ci, (attrs, shape, cliques, total) in enumerate(CASES):
    for seed in range(4):
        m = model(attrs, shape, cliques, total, 100 * ci + seed)
        for rows in (None, 1, 997, 20011):
            np.random.seed(seed)
            data = m.synthetic_data(rows=rows)
            n = int(total) if rows is None else rows
            tag = 'case %d seed %d rows %s' % (ci, seed, rows)
            if data.df.shape[0] != n:
                problems.append('%s: %d rows generated' % (tag, data.df.shape[0]))
                continue
            first = m.elimination_order[-1]
            exp = m.project([first]).datavector()
            exp = exp * n / exp.sum()
            got = data.project([first]).datavector()
            err = np.abs(got - exp).max()
            if err >= 1 + 1e-6:
                problems.append('%s: first column %r is off by %.3f records in one '
                                'cell (rounding must stay below 1)' % (tag, first, err))
            for cl in m.cliques:
                e = m.project(cl).datavector()
                g = data.project(cl).datavector()
                if np.any(g[e == 0] > 0):
                    problems.append('%s: record in a zero cell of %r' % (tag, cl))
            digest.update(np.ascontiguousarray(data.df[list(attrs)].values.astype(np.int64)).tobytes())

if problems:
    print('FAIL: rounding mode no longer rounds each cell to floor or floor+1')
    for p in problems[:10]:
        print('  ' + p)
    print('  (%d violations in total)' % len(problems))
    sys.exit(1)
print('PASS', digest.hexdigest())

"""Demo for pair 1 (C11): triangulation shortcut in JunctionTree._triangulated.

Property clause exercised: in rounding mode the counts of the synthetic data on
every model clique differ from the model's expected counts only by a rounding
error that does not grow with the number of rows (and, in sampling mode, the
records follow the model's distribution).

synthetic_data() generates the columns in reverse elimination order and
conditions every column on its already generated neighbours in the
*triangulated* graph.  That is only a correct factorisation of the model when
model.elimination_order is a perfect elimination order of the graph whose
maximal cliques are model.cliques, i.e. when the triangulation has been
produced BY that order.

exit 0 + "PASS" + digest : property holds on all cases
exit 1 + "FAIL" + reasons: property violated
"""
import os
import sys

# set iteration order of string attribute names (tuple(set) in synthetic_data)
# depends on the hash seed: pin it so that the digest is deterministic
if os.environ.get('PYTHONHASHSEED') != '0':
    os.environ['PYTHONHASHSEED'] = '0'
    os.execv(sys.executable, [sys.executable] + sys.argv)

ROOT = os.path.dirname(os.path.dirname(os.path.dirname(os.path.abspath(__file__))))
sys.path.insert(0, os.path.join(ROOT, 'src'))

import hashlib
import warnings
warnings.simplefilter('ignore')

import numpy as np
import pandas as pd
from pandas.core.groupby.generic import DataFrameGroupBy


# --------------------------------------------------------------------------
# pandas-3 compatibility shim (demo only): DataFrameGroupBy.apply as the library
# expects it (pandas 1.x): the group passed to the function still contains the
# grouping columns, carries the group key as `.name` (scalar for one key, tuple
# for several), groups are visited in sorted key order and the like-indexed
# results are glued together in the original row order.
def _legacy_apply(self, func, *args, **kwargs):
    keys = list(self.keys) if isinstance(self.keys, (list, tuple)) else [self.keys]
    pieces = []
    for name, group in self.obj.groupby(keys, sort=True):
        if isinstance(name, tuple) and len(name) == 1:
            name = name[0]
        group = group.copy()
        object.__setattr__(group, 'name', name)
        pieces.append(func(group, *args, **kwargs))
    return pd.concat(pieces).reindex(self.obj.index)


DataFrameGroupBy.apply = _legacy_apply
# --------------------------------------------------------------------------

import mbi
from mbi import Domain, Factor, GraphicalModel, CliqueVector

assert os.path.abspath(mbi.__file__).startswith(os.path.join(ROOT, 'src')), mbi.__file__


def build(attrs, shape, cliques, seed, order=None, zeros=True, scale=2.5):
    """ a model as FactoredInference leaves it: potentials + calibrated marginals """
    dom = Domain(attrs, shape)
    model = GraphicalModel(dom, cliques, total=1000.0, elimination_order=order)
    prng = np.random.RandomState(seed)
    pots = {}
    for cl in model.cliques:
        d = dom.project(cl)
        vals = scale * prng.randn(*d.shape)
        if zeros and vals.size >= 6:
            # one structural zero per clique table (keeps every slice reachable)
            idx = tuple(prng.randint(0, n) for n in d.shape)
            vals[idx] = -np.inf
        pots[cl] = Factor(d, vals)
    model.potentials = CliqueVector(pots)
    model.marginals = model.belief_propagation(model.potentials)
    return model


CASES = [
    # name, attrs, shape, measured cliques, elimination order
    ('chain-default', ['a', 'b', 'c', 'd'], [2, 3, 4, 5],
        [('a', 'b'), ('b', 'c'), ('c', 'd')], None),
    ('cycle4-default', ['a', 'b', 'c', 'd'], [3, 2, 3, 2],
        [('a', 'b'), ('b', 'c'), ('c', 'd'), ('a', 'd')], None),
    ('independent', ['a', 'b', 'c'], [4, 1, 6],
        [('a',), ('b',), ('c',)], None),
    ('cluster', ['a', 'b', 'c', 'd', 'e'], [3, 3, 2, 4, 5],
        [('a', 'b', 'c'), ('d', 'e')], None),
    # a user supplied elimination order (as examples/privbayes.py does) that
    # starts in the middle of a chain: needs the fill-in edge a-c
    ('chain-user-order', ['a', 'b', 'c'], [4, 3, 4],
        [('a', 'b'), ('b', 'c')], ['b', 'a', 'c']),
    ('star-user-order', ['x', 'l1', 'l2', 'l3'], [2, 3, 3, 3],
        [('x', 'l1'), ('x', 'l2'), ('x', 'l3')], ['x', 'l1', 'l2', 'l3']),
    # default greedy order, size regime: the small bridge attribute v between
    # two large triangles is the cheapest one to eliminate first
    ('bridge-default', ['a1', 'a2', 'a3', 'v', 'b1', 'b2', 'b3'], [5, 5, 5, 2, 5, 5, 5],
        [('a1', 'a2', 'a3'), ('a1', 'v'), ('v', 'b1'), ('b1', 'b2', 'b3')], None),
    # same structures without structural zeros
    ('star-user-nozeros', ['x', 'l1', 'l2', 'l3'], [2, 3, 3, 3],
        [('x', 'l1'), ('x', 'l2'), ('x', 'l3')], ['x', 'l1', 'l2', 'l3']),
    ('bridge-nozeros', ['a1', 'a2', 'a3', 'v', 'b1', 'b2', 'b3'], [4, 4, 4, 2, 4, 4, 4],
        [('a1', 'a2', 'a3'), ('a1', 'v'), ('v', 'b1'), ('b1', 'b2', 'b3')], None),
]

ROWS = [1, 1000, 100000]
failures = []
digest = hashlib.sha256()
lines = []


def check(model, name, rows, method, seed):
    np.random.seed(seed)
    tag = '%s/%s/N=%d' % (name, method, rows)
    try:
        synth = model.synthetic_data(rows=rows, method=method)
    except Exception as e:
        failures.append('%s: synthetic_data raised %s: %s' % (tag, type(e).__name__, e))
        return float('nan')
    df = synth.df
    vals = np.ascontiguousarray(df.values.astype(np.int64))
    digest.update(vals.tobytes())
    if df.shape[0] != rows:
        failures.append('%s: %d rows instead of %d' % (tag, df.shape[0], rows))
    for j, a in enumerate(model.domain.attrs):
        if vals[:, j].min() < 0 or vals[:, j].max() >= model.domain[a]:
            failures.append('%s: value of %s outside its domain' % (tag, a))
    worst = 0.0
    for cl in model.cliques:
        mu = model.marginals[cl].datavector() * (rows / model.total)
        cnt = synth.project(cl).datavector()
        if np.any(cnt[mu == 0] > 0):
            failures.append('%s: records in a zero-probability cell of %s' % (tag, cl))
        err = np.abs(cnt - mu)
        if method == 'round':
            # N-independent bound: the number of cells of the clique table
            bound = float(mu.size) + 2
            if err.max() > bound:
                failures.append('%s: clique %s is off by %.1f records (N-independent bound %d)'
                                % (tag, cl, err.max(), bound))
        else:
            # sampling: 7 binomial standard deviations + 1
            p = mu / rows
            bound = 7 * np.sqrt(rows * p * (1 - p)) + 1
            if np.any(err > bound):
                k = int(np.argmax(err - bound))
                failures.append('%s: clique %s cell %d is off by %.1f records (7 sigma = %.1f)'
                                % (tag, cl, k, err[k], bound[k]))
        worst = max(worst, err.max())
    return worst


for i, (name, attrs, shape, cliques, order) in enumerate(CASES):
    model = build(attrs, shape, cliques, seed=100 + i, order=order, zeros='nozeros' not in name)
    lines.append('%-20s elimination order %s' % (name, list(model.elimination_order)))
    for rows in ROWS:
        w = check(model, name, rows, 'round', seed=7 * i + 1)
        lines.append('%-20s round  N=%-7d max clique error %.3f' % (name, rows, w))
    for rows in ROWS[1:]:
        w = check(model, name, rows, 'sample', seed=7 * i + 2)
        lines.append('%-20s sample N=%-7d max clique error %.3f' % (name, rows, w))

if failures:
    print('FAIL: synthetic data does not realise the model (%d violations)' % len(failures))
    for f in failures:
        print('  ' + f)
    print('The elimination order stored on the model is not a perfect elimination order of')
    print('the graph whose maximal cliques are the model cliques, so the column-by-column')
    print('conditioning in synthetic_data() drops dependencies and the clique counts drift')
    print('away from the model linearly in the number of rows.')
    sys.exit(1)

print('PASS')
for line in lines:
    print(line)
print('digest', digest.hexdigest())
sys.exit(0)

"""Demo for pair 2 (C11): default number of synthetic records.

Property clause exercised: synthetic data has exactly the requested number of
rows, and BY DEFAULT (rows=None) the integer part of the model total -- for
every model total (FactoredInference estimates the total from noisy
measurements, so it is a non-integral float in practice), both methods.

exit 0 + "PASS" + digest : property holds on all cases
exit 1 + "FAIL" + reasons: property violated
"""
import os
import sys

# set iteration order of string attribute names (tuple(set) in synthetic_data)
# depends on the hash seed: pin it so that the digest is deterministic
if os.environ.get('PYTHONHASHSEED') != '0':
    os.environ['PYTHONHASHSEED'] = '0'
    os.execv(sys.executable, [sys.executable] + sys.argv)

ROOT = os.path.dirname(os.path.dirname(os.path.dirname(os.path.abspath(__file__))))
sys.path.insert(0, os.path.join(ROOT, 'src'))

import hashlib
import warnings
warnings.simplefilter('ignore')

import numpy as np
import pandas as pd
from pandas.core.groupby.generic import DataFrameGroupBy


# --------------------------------------------------------------------------
# pandas-3 compatibility shim (demo only): DataFrameGroupBy.apply as the library
# expects it (pandas 1.x): the group passed to the function still contains the
# grouping columns, carries the group key as `.name` (scalar for one key, tuple
# for several), groups are visited in sorted key order and the like-indexed
# results are glued together in the original row order.
def _legacy_apply(self, func, *args, **kwargs):
    keys = list(self.keys) if isinstance(self.keys, (list, tuple)) else [self.keys]
    pieces = []
    for name, group in self.obj.groupby(keys, sort=True):
        if isinstance(name, tuple) and len(name) == 1:
            name = name[0]
        group = group.copy()
        object.__setattr__(group, 'name', name)
        pieces.append(func(group, *args, **kwargs))
    return pd.concat(pieces).reindex(self.obj.index)


DataFrameGroupBy.apply = _legacy_apply
# --------------------------------------------------------------------------

import mbi
from mbi import Domain, Factor, GraphicalModel, CliqueVector

assert os.path.abspath(mbi.__file__).startswith(os.path.join(ROOT, 'src')), mbi.__file__



def build(total, seed):
    dom = Domain(['a', 'b', 'c', 'd'], [2, 3, 4, 3])
    model = GraphicalModel(dom, [('a', 'b'), ('b', 'c'), ('b', 'c', 'd')], total=total)
    prng = np.random.RandomState(seed)
    pots = {}
    for cl in model.cliques:
        d = dom.project(cl)
        vals = 2.0 * prng.randn(*d.shape)
        idx = tuple(prng.randint(0, n) for n in d.shape)
        vals[idx] = -np.inf
        pots[cl] = Factor(d, vals)
    model.potentials = CliqueVector(pots)
    model.marginals = model.belief_propagation(model.potentials)
    return model


# model totals: integral, integral-as-int, and the non-integral estimates that
# FactoredInference._setup produces when the total is not given
TOTALS = [100.0, 12, 1.0, 1000.25, 57.49, 99.5, 1000.75, 2.5, 1.6, np.float64(250.5),
          31.999999, np.float32(7.75)]
EXPLICIT = [1, 10, 1000]

failures = []
digest = hashlib.sha256()
lines = []


def check(model, tag, rows, expect, method, seed):
    np.random.seed(seed)
    try:
        synth = model.synthetic_data(method=method) if rows is None else \
            model.synthetic_data(rows=rows, method=method)
    except Exception as e:
        failures.append('%s: synthetic_data raised %s: %s' % (tag, type(e).__name__, e))
        return -1
    df = synth.df
    vals = np.ascontiguousarray(df.values.astype(np.int64))
    digest.update(vals.tobytes())
    n = df.shape[0]
    if n != expect or synth.records != expect:
        failures.append('%s: %d rows generated, %d expected' % (tag, n, expect))
    for j, a in enumerate(model.domain.attrs):
        if n and (vals[:, j].min() < 0 or vals[:, j].max() >= model.domain[a]):
            failures.append('%s: value of %s outside its domain' % (tag, a))
    for cl in model.cliques:
        mu = model.marginals[cl].datavector() * (expect / float(model.total))
        cnt = synth.project(cl).datavector()
        if np.any(cnt[mu == 0] > 0):
            failures.append('%s: records in a zero-probability cell of %s' % (tag, cl))
        if method == 'round' and n == expect:
            err = np.abs(cnt - mu).max()
            if err > mu.size + 2:
                failures.append('%s: clique %s is off by %.1f records' % (tag, cl, err))
    return n


for i, total in enumerate(TOTALS):
    model = build(total, seed=300 + i)
    whole = int(str(float(total)).split('.')[0])        # integer part, computed textually
    for method in ('round', 'sample'):
        tag = 'total=%r/%s/rows=None' % (float(total), method)
        n = check(model, tag, None, whole, method, seed=11 * i + 1)
        lines.append('%-34s -> %d rows' % (tag, n))
        for rows in EXPLICIT:
            tag = 'total=%r/%s/rows=%d' % (float(total), method, rows)
            n = check(model, tag, rows, rows, method, seed=11 * i + 2)
            lines.append('%-34s -> %d rows' % (tag, n))

if failures:
    print('FAIL: wrong number of synthetic records (%d violations)' % len(failures))
    for f in failures:
        print('  ' + f)
    print('With rows=None synthetic_data() must generate the integer part of model.total;')
    print('a total whose fractional part is >= 0.5 yields one record too many.')
    sys.exit(1)

print('PASS')
for line in lines:
    print(line)
print('digest', digest.hexdigest())
sys.exit(0)

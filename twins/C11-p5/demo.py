"""C11 pair 1 -- conditional generation: which row of the conditional table a
record's parent configuration selects.

Checks, for several junction-tree models and row counts, that synthetic data
produced in rounding mode (a) has the requested number of rows, (b) stays inside
the domain, (c) puts no record in a zero-probability cell and (d) reproduces the
expected counts of every model clique up to a rounding error that does not grow
with the number of rows.  Prints PASS + digest (exit 0) or FAIL (exit 1).
"""
import os, sys, hashlib, itertools, warnings

ROOT = os.path.dirname(os.path.dirname(os.path.dirname(os.path.abspath(__file__))))
if os.environ.get('PYTHONHASHSEED') != '0':
    # set/dict iteration order of attribute names feeds the generation order
    env = dict(os.environ, PYTHONHASHSEED='0')
    env['PYTHONPATH'] = os.path.join(ROOT, 'src') + os.pathsep + env.get('PYTHONPATH', '')
    os.execve(sys.executable, [sys.executable] + sys.argv, env)
sys.path.insert(0, os.path.join(ROOT, 'src'))
warnings.simplefilter('ignore')

import numpy as np
import pandas as pd
import mbi
from mbi import Domain, Factor, CliqueVector, GraphicalModel

assert os.path.abspath(mbi.__file__).startswith(ROOT), mbi.__file__


def _apply(self, func, *args, **kwargs):
    """pandas<2 semantics of DataFrameGroupBy.apply (groups keep their key
    columns, `group.name` is the key); pandas 3 drops the key columns, which
    makes the unmodified synthetic_data() fail for every non-trivial model."""
    parts = []
    for name, g in self:
        g = g.copy()
        if isinstance(name, tuple) and len(name) == 1:
            name = name[0]
        object.__setattr__(g, 'name', name)
        parts.append(func(g, *args, **kwargs))
    return pd.concat(parts).sort_index()

pd.core.groupby.generic.DataFrameGroupBy.apply = _apply


def joint(model):
    """dense joint distribution of the model, straight from the potentials"""
    dom = model.domain
    logp = np.zeros(dom.shape)
    for cl, f in model.potentials.items():
        logp = logp + f.expand(dom).values
    m = logp.max()
    p = np.exp(logp - m)
    return p / p.sum()


def build(attrs, shape, cliques, seed, zeros=0):
    dom = Domain(attrs, shape)
    model = GraphicalModel(dom, cliques, total=1000.0)
    prng = np.random.RandomState(seed)
    pots = {}
    for cl in model.cliques:
        vals = prng.normal(size=dom.project(cl).shape) * 1.5
        flat = vals.reshape(-1)
        if zeros and flat.size > 2:
            flat[prng.choice(flat.size, min(zeros, flat.size - 2), False)] = -np.inf
        pots[cl] = Factor(dom.project(cl), vals)
    model.potentials = CliqueVector(pots)
    return model


MODELS = [
    # name, attrs, shape, cliques, zero cells per clique
    ('chain',        'abcd',  (3, 4, 2, 5),     [('a','b'), ('b','c'), ('c','d')], 1),
    ('star',         'abcd',  (4, 3, 5, 2),     [('a','b'), ('a','c'), ('a','d')], 1),
    ('tri-equal',    'abc',   (3, 3, 3),        [('a','b','c')], 3),
    ('tri-2-3-4',    'abc',   (2, 3, 4),        [('a','b','c')], 3),
    ('tri-4-3-2',    'abc',   (4, 3, 2),        [('a','b','c')], 3),
    ('cycle',        'abcd',  (2, 3, 4, 3),     [('a','b'), ('b','c'), ('c','d'), ('d','a')], 1),
    ('clique4+tail', 'abcde', (2, 3, 2, 4, 20), [('a','b','c','d'), ('d','e')], 4),
    ('two-parents',  'xyz',   (2, 5, 3),        [('x','z'), ('y','z'), ('x','y')], 1),
]
ROWS = [1, 7, 1000, 20000]


def check(model, data, rows, P):
    df = data.df
    problems = []
    if df.shape[0] != rows:
        problems.append('%d rows instead of %d' % (df.shape[0], rows))
    vals = df.values
    hi = np.array(model.domain.shape)
    if (vals < 0).any() or (vals >= hi).any():
        problems.append('value outside the attribute domain')
        return problems, float('nan')
    cells = P[tuple(vals.T)]
    if (cells == 0).any():
        problems.append('%d records in zero-probability cells' % int((cells == 0).sum()))
    worst = 0.0
    for cl in model.cliques:
        ax = tuple(i for i, a in enumerate(model.domain.attrs) if a not in cl)
        expected = rows * P.sum(axis=ax)
        got = data.project(cl).datavector(flatten=False)
        worst = max(worst, float(np.abs(got - expected).max()))
    return problems, worst


def main():
    lines, failures = [], []
    for name, attrs, shape, cliques, zeros in MODELS:
        model = build(list(attrs), shape, cliques, seed=len(name), zeros=zeros)
        P = joint(model)
        bound = 2.0 * len(attrs)       # independent of the number of rows
        for rows in ROWS:
            np.random.seed(rows + 17)
            try:
                data = model.synthetic_data(rows=rows, method='round')
            except Exception as e:
                failures.append('%s rows=%d: synthetic_data raised %s: %s' % (name, rows, type(e).__name__, e))
                continue
            problems, worst = check(model, data, rows, P)
            if not (worst <= bound):
                problems.append('clique counts off by %.1f (> %.0f, the row-independent rounding bound)' % (worst, bound))
            for p in problems:
                failures.append('%s rows=%d: %s' % (name, rows, p))
            rec = np.ascontiguousarray(data.df.sort_values(list(data.df.columns)).values.astype(np.int64))
            lines.append('%-13s rows=%-6d max|count-expected|=%.6f records=%s' % (
                name, rows, worst, hashlib.sha256(rec.tobytes()).hexdigest()[:16]))
    if failures:
        print('FAIL: synthetic data does not realise the model')
        for f in failures:
            print('  ' + f)
        sys.exit(1)
    print('PASS')
    for l in lines:
        print(l)
    print('digest', hashlib.sha256('\n'.join(lines).encode()).hexdigest())


if __name__ == '__main__':
    main()

"""C11 pair 2 -- synthetic data must realise the model's CURRENT parameters.

A model whose potentials were set by hand or by GraphicalModel.fit() has no
pre-computed `marginals`, so synthetic_data() obtains every conditional table
from GraphicalModel.project() (variable elimination).  The demo generates data,
then changes the parameters the way the library itself does (CliqueVector.combine
with structural zeros, in-place `+=` on a potential, item assignment, re-binding
via fit()) and generates again.  After every step it checks

  * the requested number of rows and domain conformance,
  * no record in a cell the (current) model gives probability zero,
  * sampling mode: empirical clique marginals close to the model's,
  * rounding mode: clique counts within the row-independent rounding bound.

Prints PASS + digest (exit 0) or FAIL + explanation (exit 1).
"""
import os, sys, hashlib, warnings

ROOT = os.path.dirname(os.path.dirname(os.path.dirname(os.path.abspath(__file__))))
if os.environ.get('PYTHONHASHSEED') != '0':
    # set/dict iteration order of attribute names feeds the generation order
    env = dict(os.environ, PYTHONHASHSEED='0')
    env['PYTHONPATH'] = os.path.join(ROOT, 'src') + os.pathsep + env.get('PYTHONPATH', '')
    os.execve(sys.executable, [sys.executable] + sys.argv, env)
sys.path.insert(0, os.path.join(ROOT, 'src'))
warnings.simplefilter('ignore')

import numpy as np
import pandas as pd
import mbi
from mbi import Domain, Dataset, Factor, CliqueVector, GraphicalModel

assert os.path.abspath(mbi.__file__).startswith(ROOT), mbi.__file__


def _apply(self, func, *args, **kwargs):
    """pandas<2 semantics of DataFrameGroupBy.apply (groups keep their key
    columns, `group.name` is the key); pandas 3 drops the key columns, which
    makes the unmodified synthetic_data() fail for every non-trivial model."""
    parts = []
    for name, g in self:
        g = g.copy()
        if isinstance(name, tuple) and len(name) == 1:
            name = name[0]
        object.__setattr__(g, 'name', name)
        parts.append(func(g, *args, **kwargs))
    return pd.concat(parts).sort_index()

pd.core.groupby.generic.DataFrameGroupBy.apply = _apply


def joint(model):
    """dense joint distribution, computed here directly from the potentials"""
    dom = model.domain
    logp = np.zeros(dom.shape)
    for cl, f in model.potentials.items():
        logp = logp + f.expand(dom).values
    p = np.exp(logp - logp.max())
    return p / p.sum()


LINES, FAILURES = [], []
TV_LIMIT = 0.05          # sampling noise at 20000 rows is ~0.01 for these cliques


def generate_and_check(model, label, rows, method, seed):
    P = joint(model)
    np.random.seed(seed)
    try:
        data = model.synthetic_data(rows=rows, method=method)
    except Exception as e:
        FAILURES.append('%s [%s, rows=%d]: synthetic_data raised %s: %s' % (label, method, rows, type(e).__name__, e))
        return
    df = data.df
    vals = df.values
    problems = []
    if df.shape[0] != rows:
        problems.append('%d rows instead of %d' % (df.shape[0], rows))
    if (vals < 0).any() or (vals >= np.array(model.domain.shape)).any():
        problems.append('value outside the attribute domain')
    else:
        bad = int((P[tuple(vals.T)] == 0).sum())
        if bad:
            problems.append('%d of %d records lie in cells the current model gives probability 0' % (bad, rows))
        worst_tv, worst_abs = 0.0, 0.0
        for cl in model.cliques:
            ax = tuple(i for i, a in enumerate(model.domain.attrs) if a not in cl)
            expected = rows * P.sum(axis=ax)
            got = data.project(cl).datavector(flatten=False)
            worst_abs = max(worst_abs, float(np.abs(got - expected).max()))
            worst_tv = max(worst_tv, float(0.5 * np.abs(got - expected).sum() / rows))
        if method == 'sample' and worst_tv > TV_LIMIT:
            problems.append('sampled clique marginals are %.3f (total variation) away from the current model (limit %.2f)' % (worst_tv, TV_LIMIT))
        if method == 'round' and worst_abs > 2.0 * len(model.domain):
            problems.append('rounded clique counts off by %.1f (row-independent bound %d)' % (worst_abs, 2 * len(model.domain)))
    for p in problems:
        FAILURES.append('%s [%s, rows=%d]: %s' % (label, method, rows, p))
    rec = np.ascontiguousarray(df.sort_values(list(df.columns)).values.astype(np.int64))
    LINES.append('%-44s %-6s rows=%-6d records=%s' % (label, method, rows, hashlib.sha256(rec.tobytes()).hexdigest()[:16]))


def fresh_model(seed):
    dom = Domain(['a', 'b', 'c', 'd'], [3, 4, 2, 5])
    model = GraphicalModel(dom, [('a', 'b'), ('b', 'c'), ('c', 'd')], total=500.0)
    prng = np.random.RandomState(seed)
    model.potentials = CliqueVector({cl: Factor(dom.project(cl), prng.normal(size=dom.project(cl).shape))
                                     for cl in model.cliques})
    return dom, model


def both(model, label, seed):
    generate_and_check(model, label, 20000, 'sample', seed)
    generate_and_check(model, label, 20000, 'round', seed + 1)
    generate_and_check(model, label, 9, 'round', seed + 2)


def main():
    # --- history 1: structural zeros imposed with CliqueVector.combine ------------
    dom, model = fresh_model(1)
    both(model, 'H1 step0 hand-set potentials', 100)
    both(model, 'H1 step1 same parameters again', 110)
    zeros = CliqueVector({
        ('a', 'b'): Factor.active(dom.project(('a', 'b')), [(0, 0), (0, 1), (1, 2), (2, 3), (2, 0)]),
        ('c', 'd'): Factor.active(dom.project(('c', 'd')), [(0, 0), (1, 4), (1, 3), (0, 2)]),
    })
    model.potentials.combine(zeros)        # what FactoredInference._setup does
    both(model, 'H1 step2 after potentials.combine(zeros)', 120)

    # --- history 2: in-place re-weighting of one potential -------------------------
    dom, model = fresh_model(2)
    both(model, 'H2 step0 hand-set potentials', 200)
    shift = np.zeros(dom.project(('b', 'c')).shape)
    shift[:, 0] = [4.0, -4.0, 4.0, -4.0]
    model.potentials[('b', 'c')] += Factor(dom.project(('b', 'c')), shift)
    both(model, 'H2 step1 after potentials[bc] += shift', 210)
    model.total = 1234.0
    both(model, 'H2 step2 after total changed', 220)

    # --- history 3: item assignment, then re-binding through fit() ------------------
    dom, model = fresh_model(3)
    both(model, 'H3 step0 hand-set potentials', 300)
    vals = np.zeros(dom.project(('a', 'b')).shape)
    vals[0, :] = -np.inf
    vals[1, 1] = 3.0
    model.potentials[('a', 'b')] = Factor(dom.project(('a', 'b')), vals)
    both(model, 'H3 step1 after potentials[ab] = new factor', 310)
    prng = np.random.RandomState(33)
    raw = np.stack([prng.randint(0, n, 4000) for n in dom.shape], axis=1)
    raw[:, 3] = (raw[:, 2] * 2 + raw[:, 0]) % 5          # d determined by c and a
    model.fit(Dataset(pd.DataFrame(raw, columns=dom.attrs), dom))
    both(model, 'H3 step2 after fit(data)', 320)

    if FAILURES:
        print('FAIL: synthetic data does not realise the current model')
        for f in FAILURES:
            print('  ' + f)
        sys.exit(1)
    print('PASS')
    for l in LINES:
        print(l)
    print('digest', hashlib.sha256('\n'.join(LINES).encode()).hexdigest())


if __name__ == '__main__':
    main()

#!/usr/bin/env python
"""C11 pair 1 -- JunctionTree._make_tree, integer `elimination_order` (randomised restarts).

Synthetic data is generated column by column in REVERSE elimination order, each
column conditioned on its already-generated neighbours in the triangulated graph
(whose maximal cliques are model.cliques).  That is only a correct factorisation
when model.elimination_order is the order the junction tree was built from.

The demo builds models with elimination_order in {None, list, 0, k>0}, generates
synthetic data in both modes and checks every clause of the property.
"""
import os, sys, hashlib, itertools, warnings
if os.environ.get('PYTHONHASHSEED') != '0':
    # synthetic_data iterates over sets of attribute names; pin string hashing so that
    # the order in which random numbers are consumed is reproducible between processes
    os.environ['PYTHONHASHSEED'] = '0'
    os.execv(sys.executable, [sys.executable] + sys.argv)
ROOT = os.path.dirname(os.path.dirname(os.path.dirname(os.path.abspath(__file__))))
sys.path.insert(0, os.path.join(ROOT, 'src'))
warnings.filterwarnings('ignore')
import numpy as np
import pandas as pd


def install_groupby_shim():
    """ pandas 3 drops the grouping columns inside groupby().apply(); restore the
    semantics synthetic_data was written for (group frame with all columns, .name = key,
    result in the original row order).  Only the demo process is affected. """
    orig = pd.DataFrame.groupby

    class GB:
        def __init__(self, df, by):
            self.df, self.by = df, list(by)

        def apply(self, func):
            parts = []
            for name, group in orig(self.df, self.by, sort=True):
                group = group.copy()
                object.__setattr__(group, 'name', name if isinstance(name, tuple) else (name,))
                parts.append(func(group))
            return pd.concat(parts).sort_index()

    pd.DataFrame.groupby = lambda self, by=None, group_keys=True, **kw: GB(self, by)


install_groupby_shim()
from mbi import Domain, GraphicalModel, Factor, CliqueVector

ROUND_BOUND = 20.0          # N-independent bound on |count - expected| per clique cell
lines, problems = [], []
H = hashlib.sha256()


def random_potentials(model, rng, zero_frac):
    pots = {}
    for cl in model.cliques:
        v = rng.normal(size=model.domain.project(cl).shape) * 2.5
        mask = rng.random(v.shape) < zero_frac
        if mask.all():
            mask.flat[0] = False
        v[mask] = -np.inf                     # structural zeros
        pots[cl] = Factor(model.domain.project(cl), v)
    return CliqueVector(pots)


def truth(model, cl):
    """ exact expected counts on `cl`, straight from the potentials (brute force) """
    x = model.datavector(flatten=False)
    other = tuple(i for i, a in enumerate(model.domain.attrs) if a not in cl)
    return x.sum(axis=other)                  # cl is in canonical (domain) order


def check(tag, model, N, method, seed):
    np.random.seed(seed)
    synth = model.synthetic_data(rows=N, method=method)
    df = synth.df
    H.update(np.ascontiguousarray(df.values.astype(np.int64)).tobytes())
    ok = True
    if df.shape != (N, len(model.domain)):
        problems.append('%s: %d rows requested, shape %s' % (tag, N, df.shape)); ok = False
    for a in model.domain.attrs:
        v = df[a].values
        if v.min() < 0 or v.max() >= model.domain[a]:
            problems.append('%s: column %s leaves its domain' % (tag, a)); ok = False
    worst = 0.0
    for cl in model.cliques:
        exp = truth(model, cl) * (N / model.total)
        got = synth.project(cl).datavector(flatten=False)
        if got[exp == 0].sum() > 0:
            problems.append('%s: %d records in zero-probability cells of %s'
                            % (tag, got[exp == 0].sum(), cl)); ok = False
        if method == 'round':
            err = np.abs(got - exp).max()
            worst = max(worst, err)
            if err > ROUND_BOUND:
                problems.append('%s: clique %s count off by %.1f with %d rows (bound %.0f, '
                                'independent of rows)' % (tag, cl, err, N, ROUND_BOUND)); ok = False
        else:
            z = np.abs(got - exp) / np.sqrt(np.maximum(exp, 1.0))
            worst = max(worst, z.max())
            if z.max() > 6.0:
                problems.append('%s: clique %s is %.1f standard deviations away from the '
                                'model in sampling mode' % (tag, cl, z.max())); ok = False
    lines.append('%-44s N=%-7d %-6s %s' % (tag, N, method, 'ok' if ok else 'VIOLATION'))
    return worst


def consistent(model):
    """ is model.elimination_order a perfect elimination order of the graph whose
    maximal cliques are model.cliques (what synthetic_data silently relies on)? """
    adj = {a: set() for a in model.domain.attrs}
    for cl in model.cliques:
        for a, b in itertools.permutations(cl, 2):
            adj[a].add(b)
    left = set(model.domain.attrs)
    for a in model.elimination_order:
        nb = adj[a] & left - {a}
        if any(y not in adj[x] for x, y in itertools.combinations(nb, 2)):
            return False
        left.discard(a)
    return True


SCENARIOS = [
    # name, attrs, shape, measured cliques
    ('chain-heavy-ends', 'abcde', [40, 2, 2, 2, 40], [('a', 'b'), ('b', 'c'), ('c', 'd'), ('d', 'e')]),
    ('chain-uniform', 'abcd', [3, 4, 3, 4], [('a', 'b'), ('b', 'c'), ('c', 'd')]),
    ('loop+tail', 'abcdef', [3, 2, 3, 2, 4, 30], [('a', 'b'), ('b', 'c'), ('c', 'd'), ('a', 'd'), ('d', 'e'), ('e', 'f')]),
    ('two-components', 'abcd', [5, 3, 4, 2], [('a', 'b'), ('c', 'd')]),
]
ORDERS = [None, 0, 4, 25]

for name, attrs, shape, cliques in SCENARIOS:
    dom = Domain(list(attrs), shape)
    explicit = list(attrs)[::-1]
    for eo in ORDERS + [explicit]:
        for mseed in (0, 1):
            np.random.seed(100 + mseed)        # the restarts draw from the global RNG
            model = GraphicalModel(dom, cliques, total=1000.0, elimination_order=eo)
            rng = np.random.RandomState(7 + mseed)
            model.potentials = random_potentials(model, rng, 0.15)
            if mseed == 0:                     # with pre-computed marginals / by variable elimination
                model.marginals = model.belief_propagation(model.potentials)
            tag = '%s order=%s seed=%d' % (name, 'list' if isinstance(eo, list) else eo, mseed)
            lines.append('%-44s elim=%s cliques=%d' % (tag, ''.join(model.elimination_order), len(model.cliques)))
            if not consistent(model):
                problems.append('%s: model.elimination_order %s is not the order the junction tree %s '
                                'was built from' % (tag, model.elimination_order, model.cliques))
            w1 = check(tag, model, 3000, 'round', 11)
            w2 = check(tag, model, 150000, 'round', 12)
            check(tag, model, 150000, 'sample', 13)
            lines.append('%-44s max round error %.3f -> %.3f' % (tag, w1, w2))

print('\n'.join(lines))
print('digest', H.hexdigest())
if problems:
    print('FAIL: synthetic data does not realise the model (%d violations), e.g.' % len(problems))
    for p in problems[:12]:
        print('  -', p)
    sys.exit(1)
print('PASS')

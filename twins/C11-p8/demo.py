#!/usr/bin/env python
"""C11 pair 2 -- GraphicalModel.synthetic_data, walking the elimination order.

The property is quantified over models AND over histories: the 1st, 2nd, 3rd ... data set
drawn from one model object (different sizes, different modes, before/after a re-estimate
with the same engine) must each have the requested number of rows, stay inside the
domain, never hit a zero-probability cell and match the model's clique counts.

The demo draws several data sets in a row from the same model objects and checks every
one of them against the exact distribution computed from the potentials.
"""
import os, sys, hashlib, warnings
if os.environ.get('PYTHONHASHSEED') != '0':
    # synthetic_data iterates over sets of attribute names; pin string hashing so that
    # the order in which random numbers are consumed is reproducible between processes
    os.environ['PYTHONHASHSEED'] = '0'
    os.execv(sys.executable, [sys.executable] + sys.argv)
ROOT = os.path.dirname(os.path.dirname(os.path.dirname(os.path.abspath(__file__))))
sys.path.insert(0, os.path.join(ROOT, 'src'))
warnings.filterwarnings('ignore')
import numpy as np
import pandas as pd


def install_groupby_shim():
    """ pandas 3 drops the grouping columns inside groupby().apply(); restore the
    semantics synthetic_data was written for (group frame with all columns, .name = key,
    result in the original row order).  Only the demo process is affected. """
    orig = pd.DataFrame.groupby

    class GB:
        def __init__(self, df, by):
            self.df, self.by = df, list(by)

        def apply(self, func):
            parts = []
            for name, group in orig(self.df, self.by, sort=True):
                group = group.copy()
                object.__setattr__(group, 'name', name if isinstance(name, tuple) else (name,))
                parts.append(func(group))
            return pd.concat(parts).sort_index()

    pd.DataFrame.groupby = lambda self, by=None, group_keys=True, **kw: GB(self, by)


install_groupby_shim()
from mbi import Domain, GraphicalModel, Factor, CliqueVector, FactoredInference

ROUND_BOUND = 20.0          # N-independent bound on |count - expected| per clique cell
lines, problems = [], []
H = hashlib.sha256()


def truth(model, cl):
    """ exact expected counts on `cl`, straight from the potentials (brute force) """
    x = model.datavector(flatten=False)
    other = tuple(i for i, a in enumerate(model.domain.attrs) if a not in cl)
    return x.sum(axis=other)                  # cl is in canonical (domain) order


def check(tag, model, rows, method, seed):
    np.random.seed(seed)
    try:
        synth = model.synthetic_data(method=method) if rows is None else model.synthetic_data(rows, method)
    except Exception as e:
        problems.append('%s: synthetic_data raised %s: %s' % (tag, type(e).__name__, e))
        lines.append('%-40s rows=%-7s %-6s EXCEPTION' % (tag, rows, method))
        return
    N = int(model.total) if rows is None else rows
    df = synth.df
    H.update(np.ascontiguousarray(df.values.astype(np.int64)).tobytes())
    ok = True
    if df.shape != (N, len(model.domain)) or synth.records != N:
        problems.append('%s: %d rows requested, shape %s' % (tag, N, df.shape)); ok = False
    for a in model.domain.attrs:
        v = df[a].values
        if v.min() < 0 or v.max() >= model.domain[a]:
            problems.append('%s: column %s leaves its domain' % (tag, a)); ok = False
    for cl in model.cliques:
        exp = truth(model, cl) * (N / model.total)
        got = synth.project(cl).datavector(flatten=False)
        if got[exp == 0].sum() > 0:
            problems.append('%s: %d of %d records sit in cells of %s to which the model gives '
                            'probability zero' % (tag, got[exp == 0].sum(), N, cl)); ok = False
        if method == 'round':
            err = np.abs(got - exp).max()
            if err > ROUND_BOUND:
                problems.append('%s: clique %s count off by %.1f with %d rows (bound %.0f)'
                                % (tag, cl, err, N, ROUND_BOUND)); ok = False
        else:
            z = (np.abs(got - exp) / np.sqrt(np.maximum(exp, 1.0))).max()
            if z > 6.0:
                problems.append('%s: clique %s is %.1f standard deviations away from the model '
                                'in sampling mode' % (tag, cl, z)); ok = False
    lines.append('%-40s rows=%-7s %-6s %s' % (tag, rows, method, 'ok' if ok else 'VIOLATION'))


def make_model(attrs, shape, cliques, total, seed, elimination_order=None, marginals=True):
    dom = Domain(list(attrs), shape)
    model = GraphicalModel(dom, cliques, total=total, elimination_order=elimination_order)
    rng = np.random.RandomState(seed)
    pots = {}
    for cl in model.cliques:
        v = rng.normal(size=dom.project(cl).shape) * 1.5
        mask = rng.random(v.shape) < 0.12
        v[mask] = -np.inf                              # scattered structural zeros
        # value 0 of every attribute is impossible: an all-zero column is never legal
        for ax in range(v.ndim):
            idx = [slice(None)] * v.ndim
            idx[ax] = 0
            v[tuple(idx)] = -np.inf
        pots[cl] = Factor(dom.project(cl), v)
    model.potentials = CliqueVector(pots)
    if marginals:
        model.marginals = model.belief_propagation(model.potentials)
    return model


# ---- part 1: several data sets in a row from one model object -----------------------------
HISTORY = [(None, 'round'), (20000, 'round'), (1, 'round'), (20000, 'sample'), (150000, 'round'), (None, 'sample')]
MODELS = [
    ('chain', 'abcd', [4, 5, 3, 6], [('a', 'b'), ('b', 'c'), ('c', 'd')], 5000.7, None, True),
    ('chain/no-marginals', 'abcd', [4, 5, 3, 6], [('a', 'b'), ('b', 'c'), ('c', 'd')], 800.0, None, False),
    ('triangle+tail', 'abcde', [3, 4, 3, 5, 4], [('a', 'b'), ('b', 'c'), ('a', 'c'), ('c', 'd'), ('d', 'e')], 12345, None, True),
    ('star/user-order', 'abcd', [5, 4, 4, 4], [('a', 'b'), ('a', 'c'), ('a', 'd')], 999.99, ['d', 'c', 'b', 'a'], True),
    ('independent', 'abc', [4, 3, 5], [('a',), ('b',), ('c',)], 2500, None, True),
    ('single-attribute', 'a', [7], [('a',)], 300, None, True),
]
for i, (name, attrs, shape, cliques, total, eo, marg) in enumerate(MODELS):
    model = make_model(attrs, shape, cliques, total, 40 + i, eo, marg)
    before = list(model.elimination_order)
    for k, (rows, method) in enumerate(HISTORY):
        check('%s call#%d' % (name, k + 1), model, rows, method, 1000 + 10 * i + k)
    if list(model.elimination_order) != before:
        problems.append('%s: generating data changed model.elimination_order from %s to %s'
                        % (name, before, list(model.elimination_order)))
    if eo is not None and eo != ['d', 'c', 'b', 'a']:
        problems.append('%s: generating data changed the caller\'s elimination order list to %s' % (name, eo))

# ---- part 2: one inference engine, estimate -> data -> estimate again -> data --------------
dom = Domain(['a', 'b', 'c'], [3, 4, 3])
rng = np.random.RandomState(5)
x = rng.random(dom.shape) + 0.1
x *= 4000 / x.sum()
meas = []
for cl in [('a', 'b'), ('b', 'c')]:
    other = tuple(i for i, a in enumerate(dom.attrs) if a not in cl)
    y = x.sum(axis=other).flatten()
    meas.append((np.eye(y.size), y + rng.normal(size=y.size), 1.0, cl))
engine = FactoredInference(dom, iters=150, elim_order=['a', 'c', 'b'])
for rnd in (1, 2):
    np.random.seed(77 + rnd)
    model = engine.estimate(meas, total=4000)
    lines.append('engine round %d: cliques=%s elim=%s' % (rnd, model.cliques, ''.join(model.elimination_order)))
    check('engine round %d call#1' % rnd, model, None, 'round', 500 + rnd)
    check('engine round %d call#2' % rnd, model, 30000, 'round', 600 + rnd)
    meas = meas + [(np.eye(3), x.sum(axis=(1, 2)) + rng.normal(size=3), 1.0, ('a',))]

print('\n'.join(lines))
print('digest', H.hexdigest())
if problems:
    print('FAIL: a data set drawn from an already-used model does not realise the model '
          '(%d violations), e.g.' % len(problems))
    for p in problems[:14]:
        print('  -', p)
    sys.exit(1)
print('PASS')

"""C11 pair 1 -- threading `method` through the per-column generator.

Checks, for several models (connected, several independent components, with
attributes that no clique mentions, with zero-probability cells):
  * round mode : row count, domain conformance, zero support, clique counts
                 within an N-independent rounding error;
  * sample mode: row count, conformance, zero support, and -- for EVERY
                 attribute -- that the one-way counts really fluctuate from seed
                 to seed like a multinomial sample (variance ~ N p (1-p)) and are
                 centred on the model's expectation.
Prints PASS + digest (exit 0) or FAIL + explanation (exit 1).
"""
import os, sys

if os.environ.get('PYTHONHASHSEED') != '0':          # set iteration order -> deterministic digest
    env = dict(os.environ, PYTHONHASHSEED='0')
    os.execve(sys.executable, [sys.executable] + sys.argv, env)

ROOT = os.path.dirname(os.path.dirname(os.path.dirname(os.path.abspath(__file__))))
sys.path.insert(0, os.path.join(ROOT, 'src'))

import hashlib, warnings
warnings.simplefilter('ignore')
import numpy as np
import pandas as pd

# pandas >= 2.2 / 3 no longer hands the grouping columns to groupby.apply, which is
# what synthetic_data relies on.  Emulate the classic behaviour (groups sorted by
# key, grouping columns present, result re-aligned to the original row order).
from pandas.core.groupby.generic import DataFrameGroupBy
def _legacy_apply(self, func, *args, **kwargs):
    pieces = []
    for name, group in self:
        group = group.copy()
        object.__setattr__(group, 'name', name)
        pieces.append(func(group, *args, **kwargs))
    return pd.concat(pieces).reindex(self.obj.index)
DataFrameGroupBy.apply = _legacy_apply

import mbi
from mbi import Domain, Factor, CliqueVector, GraphicalModel
assert os.path.abspath(mbi.__file__).startswith(ROOT), mbi.__file__

failures = []
digest = hashlib.sha256()

def fail(msg):
    failures.append(msg)

def build(name, attrs, shape, cliques, total, seed, zeros=0.25, with_marginals=False):
    dom = Domain(attrs, shape)
    model = GraphicalModel(dom, cliques, total=total)
    prng = np.random.RandomState(seed)
    pots = {}
    for cl in model.cliques:
        d = dom.project(cl)
        vals = prng.normal(0, 1.0, size=d.shape)
        if len(cl) >= 2 and zeros > 0:                       # zero-probability cells
            mask = prng.rand(*d.shape) < zeros
            mask[(0,) * len(cl)] = False
            vals[mask] = -np.inf
        pots[cl] = Factor(d, vals)
    model.potentials = CliqueVector(pots)
    if with_marginals:
        model.marginals = model.belief_propagation(model.potentials)
    model.name = name
    return model

def expected(model, cl, rows):
    p = model.project(cl).datavector()
    return p / p.sum() * rows

def basic_checks(model, synth, rows, tag):
    df = synth.df
    if df.shape[0] != rows:
        fail('%s: %d rows, requested %d' % (tag, df.shape[0], rows))
    for a in model.domain.attrs:
        v = df[a].values
        if v.min() < 0 or v.max() >= model.domain[a]:
            fail('%s: attribute %s leaves its domain' % (tag, a))
    for cl in model.cliques:
        got = synth.project(cl).datavector()
        exp = expected(model, cl, rows)
        if np.any((exp == 0) & (got > 0)):
            fail('%s: record in a zero-probability cell of %s' % (tag, cl))
    digest.update(np.ascontiguousarray(df.loc[:, list(model.domain.attrs)].values, dtype=np.int64).tobytes())

def round_checks(model):
    worst = {}
    for rows in (1, 7, 1000, 100000):
        np.random.seed(1000 + rows)
        synth = model.synthetic_data(rows=rows, method='round')
        tag = '%s/round/N=%d' % (model.name, rows)
        basic_checks(model, synth, rows, tag)
        worst[rows] = max(np.abs(synth.project(cl).datavector() - expected(model, cl, rows)).max()
                          for cl in model.cliques)
    bound = 2.0 * sum(model.domain.shape)
    if max(worst.values()) > bound:
        fail('%s/round: clique counts off by %.1f (bound %.1f): %s' % (model.name, max(worst.values()), bound, worst))
    return worst

def sample_checks(model, rows=4000, seeds=30):
    oneway = {a: [] for a in model.domain.attrs}
    for s in range(seeds):
        np.random.seed(50000 + s)
        synth = model.synthetic_data(rows=rows, method='sample')
        basic_checks(model, synth, rows, '%s/sample/seed=%d' % (model.name, s))
        for a in model.domain.attrs:
            oneway[a].append(np.bincount(synth.df[a].values, minlength=model.domain[a]))
    report = {}
    for a in model.domain.attrs:
        counts = np.array(oneway[a], dtype=float)            # seeds x values
        p = expected(model, (a,), 1.0)
        k = int(np.argmin(np.abs(p - 0.5)))                   # the cell with the largest variance
        var_theory = rows * p[k] * (1 - p[k])
        var_obs = counts[:, k].var(ddof=1)
        ratio = var_obs / var_theory
        z = (counts[:, k].mean() - rows * p[k]) / np.sqrt(var_theory / seeds)
        report[a] = (ratio, z)
        # chi-square(29)/29 lies in [0.33, 2.1] with probability > 1 - 1e-5
        if not (0.30 < ratio < 2.3):
            fail(("%s/sample: attribute '%s' is not sampled -- the count of value %d over %d seeds has variance "
                  "%.2f where iid sampling gives about %.1f (ratio %.4f); the column was produced by "
                  "rounding although method='sample' was requested") % (model.name, a, k, seeds, var_obs, var_theory, ratio))
        if abs(z) > 5:
            fail("%s/sample: attribute '%s' is biased (z = %.1f)" % (model.name, a, z))
    return report

models = [
    build('chain', ['a', 'b', 'c', 'd'], [3, 4, 2, 5], [('a', 'b'), ('b', 'c'), ('c', 'd')], 1000.0, 1),
    build('chain+marginals', ['a', 'b', 'c', 'd'], [3, 4, 2, 5], [('a', 'b'), ('b', 'c'), ('c', 'd')], 250.5, 2,
          with_marginals=True),
    build('triangle+tail', ['p', 'q', 'r', 's'], [3, 3, 3, 2], [('p', 'q', 'r'), ('r', 's')], 1.0, 3),
    # two independent components: the root of the second one has no generated neighbour
    build('two-components', ['a', 'b', 'c', 'd'], [2, 3, 4, 3], [('a', 'b'), ('c', 'd')], 5000.0, 4),
    build('two-components+marginals', ['a', 'b', 'c', 'd'], [2, 3, 4, 3], [('a', 'b'), ('c', 'd')], 5000.0, 5,
          with_marginals=True),
    # attributes that no clique mentions, and singleton cliques
    build('unmeasured-attrs', ['u', 'v', 'w', 'x', 'y'], [4, 3, 2, 6, 3], [('v', 'w'), ('x',)], 800.0, 6),
    build('all-independent', ['a', 'b', 'c'], [5, 2, 7], [('a',), ('b',), ('c',)], 300.0, 7, zeros=0),
]

lines = []
for m in models:
    worst = round_checks(m)
    rep = sample_checks(m)
    lines.append('%-26s round worst |err| %s' % (m.name, ' '.join('N=%d:%.3f' % (n, worst[n]) for n in sorted(worst))))
    lines.append('%-26s sample var-ratio %s' % ('', ' '.join('%s:%.3f' % (a, rep[a][0]) for a in m.domain.attrs)))

if failures:
    print('FAIL')
    for f in failures[:12]:
        print(' -', f)
    if len(failures) > 12:
        print(' - ... %d more' % (len(failures) - 12))
    sys.exit(1)
print('PASS')
for l in lines:
    print(l)
print('digest', digest.hexdigest())

"""C12 / pair 1 -- elimination-based triangulation (JunctionTree._triangulated).

Builds junction trees for
  * every labelled graph on <= 4 attributes under every elimination order,
  * every graph on 5 attributes up to isomorphism under every elimination order,
  * the 5-, 6- and 7-cycle and a few named cyclic graphs under hand-picked orders,
  * random larger clique sets under random permutations, the default order and int orders,
and checks that each result is a valid junction tree with a valid message schedule.

exit 0 + "PASS <digest>"  : all trees valid
exit 1 + "FAIL ..."       : some tree is not a valid junction tree
"""
import os, sys, itertools, hashlib, warnings

ROOT = os.path.dirname(os.path.dirname(os.path.dirname(os.path.abspath(__file__))))
sys.path.insert(0, os.path.join(ROOT, 'src'))
warnings.simplefilter('ignore')

import numpy as np
import networkx as nx
from mbi.domain import Domain
from mbi.junction_tree import JunctionTree
import mbi
assert os.path.abspath(mbi.__file__).startswith(ROOT), mbi.__file__


def violations(domain, cliques, jt):
    """ all the ways in which jt fails to be a valid junction tree for (domain, cliques) """
    bad = []
    tree = jt.tree
    nodes = list(tree.nodes())
    sets = [set(n) for n in nodes]
    if len(set(map(frozenset, nodes))) != len(nodes):
        bad.append('duplicate nodes')
    for cl in cliques:
        if not any(set(cl) <= s for s in sets):
            bad.append('input clique %s is in no node' % (tuple(cl),))
    for a in domain.attrs:
        if not any(a in s for s in sets):
            bad.append('attribute %s appears in no node' % a)
    for i, j in itertools.permutations(range(len(nodes)), 2):
        if sets[i] <= sets[j]:
            bad.append('node %s is contained in node %s' % (nodes[i], nodes[j]))
    if tree.number_of_edges() != len(nodes) - 1 or not nx.is_connected(tree):
        bad.append('not a tree: %d nodes, %d edges' % (len(nodes), tree.number_of_edges()))
    for a in domain.attrs:
        having = [n for n in nodes if a in n]
        if having and not nx.is_connected(tree.subgraph(having)):
            bad.append('nodes containing %s are not connected in the tree: %s' % (a, sorted(having)))
    # observers
    if sorted(jt.maximal_cliques()) != sorted(nodes):
        bad.append('maximal_cliques() differs from the tree nodes')
    nb = jt.neighbors()
    if {n: set(tree.neighbors(n)) for n in nodes} != nb:
        bad.append('neighbors() differs from the tree adjacency')
    # schedule
    sched = jt.mp_order()
    want = sorted([(a, b) for a, b in tree.edges()] + [(b, a) for a, b in tree.edges()])
    if sorted(sched) != want:
        bad.append('schedule does not list each direction of each edge exactly once')
    pos = {m: k for k, m in enumerate(sched)}
    for (i, j) in sched:
        for k in tree.neighbors(i):
            if k != j and pos.get((k, i), 10**9) > pos[(i, j)]:
                bad.append('message %s->%s is scheduled before %s->%s' % (i, j, k, i))
    sep = jt.separator_axes()
    if {m: frozenset(v) for m, v in sep.items()} != {(i, j): frozenset(set(i) & set(j)) for i, j in sched}:
        bad.append('separator_axes() is wrong')
    return bad


def canon(jt):
    nodes = sorted(jt.tree.nodes())
    edges = sorted(tuple(sorted(e)) for e in jt.tree.edges())
    return repr((list(jt.elimination_order), nodes, edges))


failures = []
nfail = [0]
digest = hashlib.sha256()
ncases = 0

def run(label, domain, cliques, order):
    global ncases
    ncases += 1
    jt = JunctionTree(domain, cliques, order)
    digest.update((label + ' ' + canon(jt) + '\n').encode())
    bad = violations(domain, cliques, jt)
    if bad:
        nfail[0] += 1
    if bad and len(failures) < 3:
        failures.append((label, [tuple(c) for c in cliques], list(jt.elimination_order), sorted(jt.tree.nodes()), bad))
    return not bad

letters = 'abcdefghijklmnop'
sizes = [2, 3, 4, 5, 6, 2, 3, 4, 5, 6, 2, 3, 4, 5, 6, 2]

# 1. all labelled graphs on <= 4 attributes, all orders (+ default, + int)
np.random.seed(0)
for n in range(1, 5):
    attrs = list(letters[:n])
    dom = Domain(attrs, sizes[:n])
    pairs = list(itertools.combinations(attrs, 2))
    for mask in range(2 ** len(pairs)):
        cliques = [p for k, p in enumerate(pairs) if mask >> k & 1]
        for order in itertools.permutations(attrs):
            run('lab%d/%d/%s' % (n, mask, ''.join(order)), dom, cliques, list(order))
        run('lab%d/%d/None' % (n, mask), dom, cliques, None)
        run('lab%d/%d/int' % (n, mask), dom, cliques, 2)

# 2. all graphs on 5 attributes up to isomorphism, all 120 orders
attrs = list(letters[:5])
dom = Domain(attrs, sizes[:5])
atlas = [g for g in nx.graph_atlas_g() if g.number_of_nodes() == 5]
assert len(atlas) == 34
for gi, g in enumerate(atlas):
    cliques = [(attrs[u], attrs[v]) for u, v in g.edges()]
    for order in itertools.permutations(attrs):
        run('iso5/%d/%s' % (gi, ''.join(order)), dom, cliques, list(order))
    run('iso5/%d/None' % gi, dom, cliques, None)
    run('iso5/%d/int' % gi, dom, cliques, 3)

# 3. named cyclic graphs under hand-picked orders
def cycle(n):
    at = list(letters[:n])
    return at, [(at[i], at[(i + 1) % n]) for i in range(n)]

for n in (5, 6, 7):
    at, cl = cycle(n)
    dom = Domain(at, sizes[:n])
    run('cycle%d/inorder' % n, dom, cl, list(at))
    run('cycle%d/reverse' % n, dom, cl, list(at[::-1]))
    run('cycle%d/alternate' % n, dom, cl, at[::2] + at[1::2])
    run('cycle%d/None' % n, dom, cl, None)
    run('cycle%d/int' % n, dom, cl, 5)

at = list(letters[:6])
dom = Domain(at, sizes[:6])
prism = [('a','b'),('b','c'),('c','a'),('d','e'),('e','f'),('f','d'),('a','d'),('b','e'),('c','f')]
grid = [('a','b'),('b','c'),('d','e'),('e','f'),('a','d'),('b','e'),('c','f')]
wheel = [('a','b'),('b','c'),('c','d'),('d','e'),('e','a')] + [('f', x) for x in 'abcde']
for name, cl in [('prism', prism), ('grid2x3', grid), ('wheel', wheel)]:
    for order in (list(at), list(at[::-1]), ['b','e','a','c','d','f'], ['f','a','c','e','b','d'], None, 4):
        run('%s/%s' % (name, order), dom, cl, order)

# 4. random larger clique sets, random permutations / default / int
rng = np.random.RandomState(12)
np.random.seed(12)
for t in range(150):
    n = rng.randint(6, 13)
    at = list(letters[:n])
    dom = Domain(at, [int(s) for s in rng.randint(2, 7, size=n)])
    cl = []
    for _ in range(rng.randint(n - 2, 2 * n)):
        k = rng.choice([1, 2, 2, 2, 3, 3, 4])
        cl.append(tuple(rng.choice(at, size=k, replace=False)))
    run('rand%d/perm' % t, dom, cl, list(rng.permutation(at)))
    run('rand%d/None' % t, dom, cl, None)
    run('rand%d/int' % t, dom, cl, 3)

if failures:
    print('FAIL: %d junction trees built, %d of them are not valid junction trees. First examples:' % (ncases, nfail[0]))
    for label, cl, order, nodes, bad in failures:
        print('  case', label)
        print('    cliques          :', cl)
        print('    elimination order:', order)
        print('    tree nodes       :', nodes)
        for b in bad[:4]:
            print('    VIOLATION        :', b)
    print('The elimination order no longer yields a chordal graph (fill-in edges between'
          ' neighbours that were themselves joined by an earlier fill-in are missing).')
    sys.exit(1)

print('PASS %d junction trees valid; digest %s' % (ncases, digest.hexdigest()))
sys.exit(0)

"""C12 / pair 2 -- ordering of the message schedule in JunctionTree.mp_order.

Builds junction trees of many shapes (chains, stars, brooms, caterpillars, random
clique sets, cyclic graphs under several elimination orders) and checks the message
schedule: each direction of each tree edge exactly once, and a message a->b only
after every message c->a (c != b) it is computed from.  As a consequence check,
belief propagation driven by that schedule must reproduce the exact marginals.

The concrete order returned by the unmodified mp_order() depends on PYTHONHASHSEED
(it follows the iteration order of a set), so the digest is taken over order-free
facts only: the set of messages, the tree, and the verdicts.

exit 0 + PASS + digest : every schedule is valid
exit 1 + FAIL          : some schedule sends a message before one it depends on
"""
import os
import sys
import hashlib
import warnings

ROOT = os.path.dirname(os.path.dirname(os.path.dirname(os.path.abspath(__file__))))
sys.path.insert(0, os.path.join(ROOT, 'src'))
sys.path.insert(1, ROOT)
warnings.filterwarnings('ignore')

import numpy as np
import networkx as nx
from mbi import Domain, Factor, GraphicalModel, CliqueVector
from mbi.junction_tree import JunctionTree
import mbi

assert os.path.abspath(mbi.__file__).startswith(os.path.join(ROOT, 'src')), mbi.__file__


def schedule_violations(jt):
    tree = jt.tree
    sched = jt.mp_order()
    bad = []
    want = set()
    for a, b in tree.edges():
        want.add((a, b)); want.add((b, a))
    if len(sched) != len(set(sched)):
        bad.append('a message is listed twice')
    if set(sched) != want:
        bad.append('the schedule is not the set of directed tree edges')
    pos = {m: i for i, m in enumerate(sched)}
    for (a, b) in sched:
        for c in tree.neighbors(a):
            if c != b and pos.get((c, a), 10**9) > pos[(a, b)]:
                bad.append('%s->%s is sent before %s->%s' % (a, b, c, a))
    if set(jt.separator_axes().keys()) != want:
        bad.append('separator_axes() keys differ from the schedule')
    return bad, sched


def bp_is_exact(dom, cliques, order, prng):
    """ belief propagation marginals == marginals of the explicit joint distribution """
    model = GraphicalModel(dom, cliques, total=10.0, elimination_order=order)
    pot = {}
    for cl in model.cliques:
        d = dom.project(cl)
        pot[cl] = Factor(d, prng.normal(size=d.shape))
    model.potentials = CliqueVector(pot)
    mu = model.belief_propagation(model.potentials)
    joint = model.datavector(flatten=False)
    ok = True
    for cl in model.cliques:
        axes = tuple(i for i, a in enumerate(dom.attrs) if a not in cl)
        exact = joint.sum(axis=axes)
        got = mu[cl].transpose(dom.canonical(cl)).values
        ok = ok and np.allclose(got, exact, rtol=1e-8, atol=1e-10)
    return ok


CASES = []    # (label, domain, cliques, order, run_bp)


def letters(n):
    return [chr(ord('a') + i) for i in range(n)]


# chains of 2..9 attributes (the unit tests use the chain a-b-c-d)
for n in range(2, 10):
    attrs = letters(n)
    dom = Domain(attrs, [2 + (i % 3) for i in range(n)])
    cliques = [(attrs[i], attrs[i + 1]) for i in range(n - 1)]
    CASES.append(('chain%d/default' % n, dom, cliques, None, True))
    CASES.append(('chain%d/reversed' % n, dom, cliques, attrs[::-1], True))

# stars: every clique shares the centre
for n in range(3, 8):
    attrs = letters(n)
    dom = Domain(attrs, [2 + (i % 2) for i in range(n)])
    CASES.append(('star%d/default' % n, dom, [(attrs[0], a) for a in attrs[1:]], None, True))

# brooms / caterpillars / small trees
attrs = letters(9)
dom = Domain(attrs, [2, 3, 2, 3, 2, 2, 3, 2, 2])
broom = [('a', 'b'), ('b', 'c'), ('c', 'd'), ('d', 'e'), ('d', 'f'), ('d', 'g')]
cater = [('a', 'b'), ('b', 'c'), ('c', 'd'), ('d', 'e'), ('b', 'f'), ('c', 'g'), ('d', 'h'), ('e', 'i')]
binary = [('a', 'b'), ('a', 'c'), ('b', 'd'), ('b', 'e'), ('c', 'f'), ('c', 'g'), ('d', 'h'), ('d', 'i')]
for name, cl in [('broom', broom), ('caterpillar', cater), ('binary', binary)]:
    CASES.append((name + '/default', dom, cl, None, True))
    CASES.append((name + '/given', dom, cl, list('ihgfedcba'), True))
    CASES.append((name + '/int2', dom, cl, 2, False))

# three-way cliques in a row, and cyclic graphs that need fill-in
dom = Domain(letters(8), [2, 2, 3, 2, 2, 3, 2, 2])
row3 = [('a', 'b', 'c'), ('c', 'd', 'e'), ('e', 'f', 'g'), ('g', 'h')]
CASES.append(('row3/default', dom, row3, None, True))
ring = [(letters(8)[i], letters(8)[(i + 1) % 8]) for i in range(8)]
CASES.append(('ring8/default', dom, ring, None, True))
CASES.append(('ring8/given', dom, ring, list('aebfcgdh'), True))
CASES.append(('ring8/int3', dom, ring, 3, False))

# degenerate: no edges at all, one clique
dom3 = Domain(['a', 'b', 'c'], [2, 3, 4])
CASES.append(('empty/default', dom3, [], None, False))
CASES.append(('single/default', dom3, [('a', 'b', 'c')], None, True))

# random clique sets
prng0 = np.random.RandomState(777)
for t in range(40):
    n = int(prng0.randint(4, 10))
    attrs = ['x%d' % i for i in range(n)]
    dom = Domain(attrs, [int(s) for s in prng0.randint(2, 4, size=n)])
    cliques = []
    for _ in range(int(prng0.randint(3, n + 3))):
        k = int(prng0.randint(1, 4))
        cliques.append(tuple(str(a) for a in prng0.choice(attrs, size=k, replace=False)))
    order = [None, [str(a) for a in prng0.permutation(attrs)], 1][t % 3]
    CASES.append(('random%02d' % t, dom, cliques, order, False))


def main():
    np.random.seed(4242)
    prng = np.random.RandomState(99)
    h = hashlib.sha256()
    failures = []
    wrong_bp = []
    diameters = {}
    for label, dom, cliques, order, run_bp in CASES:
        given = list(order) if isinstance(order, list) else order
        jt = JunctionTree(dom, cliques, given)
        bad, sched = schedule_violations(jt)
        diam = nx.diameter(jt.tree) if jt.tree.number_of_nodes() > 1 else 0
        diameters[label] = diam
        if bad:
            failures.append((label, jt, sched, bad))
        exact = None
        if run_bp and not isinstance(order, int):
            exact = bp_is_exact(dom, cliques, given, prng)
            if not exact:
                wrong_bp.append(label)
        edges = sorted(tuple(sorted(e)) for e in jt.tree.edges())
        h.update(repr((label, sorted(jt.tree.nodes()), edges, sorted(sched), len(sched),
                       diam, bool(bad), exact)).encode())

    print('cases                       : %d' % len(CASES))
    print('invalid schedules           : %d' % len(failures))
    print('wrong belief propagation    : %d' % len(wrong_bp))
    if failures or wrong_bp:
        print('FAIL: mp_order() schedules a message before a message it is computed from')
        print('  failing cases (tree diameter): %s'
              % ' '.join('%s(%d)' % (f[0], diameters[f[0]]) for f in failures))
        ok_diams = sorted(set(d for l, d in diameters.items() if l not in set(f[0] for f in failures)))
        print('  diameters of the trees whose schedule is still valid: %s' % ok_diams)
        for label, jt, sched, bad in failures[:3]:
            print('  case %s' % label)
            print('     schedule : %s' % ' '.join('%s>%s' % (''.join(a), ''.join(b)) for a, b in sched))
            for b in bad[:2]:
                print('     -> %s' % b)
        print('  belief propagation no longer exact for: %s' % ' '.join(wrong_bp))
        print('A message a->b must wait for every message that is (transitively) behind it;')
        print('ranking by the number of direct prerequisites only is right for trees of')
        print('diameter <= 2 (all the unit tests build) and wrong for longer paths.')
        return 1
    print('digest                      : %s' % h.hexdigest())
    print('PASS')
    return 0


if __name__ == '__main__':
    sys.exit(main())

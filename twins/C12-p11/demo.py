""" C12 / pair 1 -- JunctionTree.maximal_cliques() / neighbors() over the lifetime of a tree

Builds junction trees (directly and through GraphicalModel), lets the caller work with the
returned clique lists the way client code does, and checks after every step that the tree
observed through maximal_cliques() / neighbors() / mp_order() is still a valid junction tree.
Prints PASS and a digest of the observations (exit 0) or FAIL and the offending steps (exit 1).
"""
import os, sys, itertools, hashlib

ROOT = os.path.dirname(os.path.dirname(os.path.dirname(os.path.abspath(__file__))))
sys.path.insert(0, os.path.join(ROOT, 'src'))

import numpy as np
import networkx as nx
from mbi.domain import Domain
from mbi.junction_tree import JunctionTree
from mbi.graphical_model import GraphicalModel


def problems(jt, domain, cliques):
    """ list of violations of the junction tree property (empty = valid) """
    out = []
    tree = jt.tree
    nodes = jt.maximal_cliques()
    if len(nodes) != len(set(nodes)) or set(nodes) != set(tree.nodes()):
        out.append('maximal_cliques() differs from the nodes of the tree')
    for cl in cliques:
        if not any(set(cl) <= set(n) for n in nodes):
            out.append('input clique %s is in no node' % (tuple(cl),))
    for a in domain.attrs:
        if not any(a in n for n in nodes):
            out.append('attribute %s is in no node' % (a,))
    for n1, n2 in itertools.permutations(nodes, 2):
        if set(n1) <= set(n2):
            out.append('node %s is contained in node %s' % (n1, n2))
    if tree.number_of_nodes() > 0 and not nx.is_tree(tree):
        out.append('not a tree: %d nodes, %d edges, %d components' % (
            tree.number_of_nodes(), tree.number_of_edges(), nx.number_connected_components(tree)))
    for a in domain.attrs:
        having = [n for n in tree.nodes() if a in n]
        if len(having) > 1 and not nx.is_connected(tree.subgraph(having)):
            out.append('nodes with attribute %s are not connected' % (a,))
    # message schedule
    try:
        sched = jt.mp_order()
    except Exception as e:
        out.append('mp_order() raised %s: %s' % (type(e).__name__, e))
        return out
    want = set()
    for i, j in tree.edges():
        want.add((i, j)); want.add((j, i))
    if len(sched) != len(set(sched)) or set(sched) != want:
        out.append('schedule is not each direction of each edge exactly once')
    pos = { m : k for k, m in enumerate(sched) }
    for (i, j) in sched:
        for k in tree.neighbors(i):
            if k != j and pos.get((k, i), len(sched)) > pos[(i, j)]:
                out.append('message %s sent before %s' % ((i, j), (k, i)))
    sep = jt.separator_axes()
    if set(sep) != want or any(set(sep[i, j]) != set(i) & set(j) for i, j in sep):
        out.append('separator_axes() inconsistent with the tree')
    nbr = jt.neighbors()
    if set(nbr) != set(tree.nodes()) or any(nbr[i] != set(tree.neighbors(i)) for i in nbr):
        out.append('neighbors() inconsistent with the tree')
    return out


def describe(jt):
    edges = sorted(tuple(sorted(e)) for e in jt.tree.edges())
    nbr = jt.neighbors()
    return repr((list(jt.elimination_order), jt.maximal_cliques(), edges,
                 [(k, sorted(nbr[k])) for k in nbr]))


def models():
    dom = Domain(list('abcd'), [10, 20, 30, 40])
    yield 'chain', dom, [('a', 'b'), ('b', 'c'), ('c', 'd')], None
    yield 'chain-order', dom, [('a', 'b'), ('b', 'c'), ('c', 'd')], ['b', 'c', 'a', 'd']
    yield 'four-cycle', dom, [('a', 'b'), ('b', 'c'), ('c', 'd'), ('d', 'a')], ['a', 'b', 'c', 'd']
    dom = Domain(list('abcdef'), [2, 3, 4, 5, 6, 7])
    yield 'six-cycle', dom, [('a', 'b'), ('b', 'c'), ('c', 'd'), ('d', 'e'), ('e', 'f'), ('f', 'a')], None
    yield 'six-cycle-int', dom, [('a', 'b'), ('b', 'c'), ('c', 'd'), ('d', 'e'), ('e', 'f'), ('f', 'a')], 4
    yield 'star', dom, [('a', 'b'), ('a', 'c'), ('a', 'd'), ('a', 'e', 'f')], None
    yield 'singletons', dom, [(x,) for x in 'abcde'], None
    yield 'one-clique', dom, [tuple('abcdef')], list('fedcba')
    prng = np.random.RandomState(7)
    for t in range(12):
        n = prng.randint(5, 9)
        attrs = ['x%d' % i for i in range(n)]
        dom = Domain(attrs, list(prng.randint(2, 5, size=n)))
        cl = [tuple(prng.choice(attrs, size=prng.randint(1, 4), replace=False)) for _ in range(n)]
        order = [None, list(prng.permutation(attrs)), 3][t % 3]
        yield 'rand-%02d' % t, dom, cl, order


def main():
    np.random.seed(99)
    digest = hashlib.sha256()
    bad = []
    steps = 0

    def check(name, step, jt, dom, cl):
        nonlocal steps
        steps += 1
        try:
            found = problems(jt, dom, cl)
            digest.update(('%s %s %s\n' % (name, step, describe(jt))).encode())
        except Exception as e:
            found = ['%s: %s' % (type(e).__name__, e)]
        if found:
            bad.append((name, step, found))

    for name, dom, cl, order in models():
        # A. a JunctionTree used directly
        jt = JunctionTree(dom, cl, elimination_order=order)
        check(name, 'fresh', jt, dom, cl)
        first = jt.maximal_cliques()
        # client code: process the cliques smallest first (in-place sort of ITS list)
        mine = jt.maximal_cliques()
        mine.sort(key=lambda c: (dom.size(c), c))
        check(name, 'after-sort', jt, dom, cl)
        # client code: use the returned list as a work list
        todo = jt.maximal_cliques()
        seen = []
        while todo:
            seen.append(todo.pop())
        check(name, 'after-worklist', jt, dom, cl)
        if jt.maximal_cliques() != first:
            bad.append((name, 'repeat', ['maximal_cliques() changed from %s to %s' % (first, jt.maximal_cliques())]))
        # B. through GraphicalModel: model.cliques is a public list, clients extend it
        #    to form candidate models (cf. mechanisms/aim.py: model.cliques + [cl])
        model = GraphicalModel(dom, cl, elimination_order=order)
        check(name, 'model-fresh', model.junction_tree, dom, cl)
        candidates = model.cliques
        candidates.append((dom.attrs[0],))
        check(name, 'model-after-append', model.junction_tree, dom, cl)

    if bad:
        print('FAIL: %d of %d observations of a junction tree are not valid' % (len(bad), steps))
        for name, step, found in bad[:8]:
            print('  %s [%s]' % (name, step))
            for f in found[:3]:
                print('      - ' + f)
        print('  (a JunctionTree is immutable after construction: what the caller does with a list it')
        print('   got from maximal_cliques() / GraphicalModel.cliques must not change what the tree reports)')
        return 1
    print('PASS: %d observations of junction trees valid' % steps)
    print('digest', digest.hexdigest())
    return 0


if __name__ == '__main__':
    sys.exit(main())

""" C12 / pair 2 -- the spanning tree over the maximal cliques (JunctionTree._make_tree)

Builds junction trees for many models / elimination-order modes and checks that each one
is a valid junction tree with a valid message schedule.  Prints PASS and a digest of the
constructed trees (exit 0) or FAIL and the offending cases (exit 1).
"""
import os, sys, itertools, hashlib

ROOT = os.path.dirname(os.path.dirname(os.path.dirname(os.path.abspath(__file__))))
sys.path.insert(0, os.path.join(ROOT, 'src'))

import numpy as np
import networkx as nx
from mbi.domain import Domain
from mbi.junction_tree import JunctionTree


def problems(jt, domain, cliques):
    """ list of violations of the junction tree property (empty = valid) """
    out = []
    tree = jt.tree
    nodes = jt.maximal_cliques()
    if len(nodes) != len(set(nodes)) or set(nodes) != set(tree.nodes()):
        out.append('maximal_cliques() differs from the nodes of the tree')
    for cl in cliques:
        if not any(set(cl) <= set(n) for n in nodes):
            out.append('input clique %s is in no node' % (tuple(cl),))
    for a in domain.attrs:
        if not any(a in n for n in nodes):
            out.append('attribute %s is in no node' % (a,))
    for n1, n2 in itertools.permutations(nodes, 2):
        if set(n1) <= set(n2):
            out.append('node %s is contained in node %s' % (n1, n2))
    if tree.number_of_nodes() > 0 and not nx.is_tree(tree):
        out.append('not a tree: %d nodes, %d edges, %d components' % (
            tree.number_of_nodes(), tree.number_of_edges(), nx.number_connected_components(tree)))
    for a in domain.attrs:
        having = [n for n in tree.nodes() if a in n]
        if len(having) > 1 and not nx.is_connected(tree.subgraph(having)):
            out.append('nodes with attribute %s are not connected' % (a,))
    # message schedule
    try:
        sched = jt.mp_order()
    except Exception as e:
        out.append('mp_order() raised %s: %s' % (type(e).__name__, e))
        return out
    want = set()
    for i, j in tree.edges():
        want.add((i, j)); want.add((j, i))
    if len(sched) != len(set(sched)) or set(sched) != want:
        out.append('schedule is not each direction of each edge exactly once')
    pos = { m : k for k, m in enumerate(sched) }
    for (i, j) in sched:
        for k in tree.neighbors(i):
            if k != j and pos.get((k, i), len(sched)) > pos[(i, j)]:
                out.append('message %s sent before %s' % ((i, j), (k, i)))
    sep = jt.separator_axes()
    if set(sep) != want or any(set(sep[i, j]) != set(i) & set(j) for i, j in sep):
        out.append('separator_axes() inconsistent with the tree')
    nbr = jt.neighbors()
    if set(nbr) != set(tree.nodes()) or any(nbr[i] != set(tree.neighbors(i)) for i in nbr):
        out.append('neighbors() inconsistent with the tree')
    return out


def describe(jt):
    edges = sorted(tuple(sorted(e)) for e in jt.tree.edges())
    return repr((list(jt.elimination_order), jt.maximal_cliques(), edges))


def cases():
    # 1. every labelled graph on 4 attributes x every elimination order
    attrs = ['a', 'b', 'c', 'd']
    dom = Domain(attrs, [2, 3, 4, 5])
    pairs = list(itertools.combinations(attrs, 2))
    for mask in range(2 ** len(pairs)):
        cl = [p for k, p in enumerate(pairs) if mask >> k & 1]
        for order in itertools.permutations(attrs):
            yield 'g4-%02d-%s' % (mask, ''.join(order)), dom, cl, list(order)
    # 2. every labelled graph on 5 attributes, default order
    attrs = ['a', 'b', 'c', 'd', 'e']
    dom = Domain(attrs, [3, 2, 4, 2, 5])
    pairs = list(itertools.combinations(attrs, 2))
    for mask in range(2 ** len(pairs)):
        cl = [p for k, p in enumerate(pairs) if mask >> k & 1]
        yield 'g5-%04d' % mask, dom, cl, None
    # 3. hand-written models
    dom = Domain(list('abcdef'), [2, 3, 4, 5, 6, 7])
    yield 'two-chains', dom, [('a', 'b'), ('b', 'c'), ('d', 'e'), ('e', 'f')], None
    yield 'two-chains-rev', dom, [('a', 'b'), ('b', 'c'), ('d', 'e'), ('e', 'f')], list('fedcba')
    yield 'two-chains-int', dom, [('a', 'b'), ('b', 'c'), ('d', 'e'), ('e', 'f')], 3
    yield 'six-cycle', dom, [('a', 'b'), ('b', 'c'), ('c', 'd'), ('d', 'e'), ('e', 'f'), ('f', 'a')], None
    yield 'six-cycle-int', dom, [('a', 'b'), ('b', 'c'), ('c', 'd'), ('d', 'e'), ('e', 'f'), ('f', 'a')], 5
    dom = Domain(list('abcdefgh'), [2] * 8)
    blobs = [('a', 'b', 'c'), ('b', 'c', 'd'), ('d', 'e'), ('e', 'f', 'g'), ('f', 'g', 'h')]
    yield 'two-blobs', dom, blobs, None
    yield 'two-blobs-order', dom, blobs, list('ahbgcfde')
    yield 'two-blobs-int', dom, blobs, 4
    yield 'singletons', dom, [(x,) for x in 'abcdefg'], None
    yield 'nothing', dom, [], None
    yield 'one-clique', dom, [tuple('abcdefgh')], None
    # 4. random larger clique sets, the three order modes
    prng = np.random.RandomState(12)
    for t in range(60):
        n = prng.randint(6, 11)
        attrs = ['x%d' % i for i in range(n)]
        dom = Domain(attrs, list(prng.randint(1, 6, size=n)))
        cl = []
        for _ in range(prng.randint(2, n + 2)):
            k = prng.randint(1, 4)
            cl.append(tuple(prng.choice(attrs, size=k, replace=False)))
        mode = t % 3
        order = None if mode == 0 else list(prng.permutation(attrs)) if mode == 1 else int(prng.randint(0, 6))
        yield 'rand-%02d' % t, dom, cl, order


def main():
    np.random.seed(2024)
    digest = hashlib.sha256()
    bad = []
    count = 0
    for name, dom, cl, order in cases():
        count += 1
        try:
            jt = JunctionTree(dom, cl, elimination_order=order)
            found = problems(jt, dom, cl)
            digest.update((name + ' ' + describe(jt) + '\n').encode())
        except Exception as e:
            found = ['construction raised %s: %s' % (type(e).__name__, e)]
        if found:
            bad.append((name, cl, order, found))
    if bad:
        print('FAIL: %d of %d junction trees are not valid' % (len(bad), count))
        for name, cl, order, found in bad[:8]:
            print('  %s: cliques=%s order=%s' % (name, cl, order))
            for f in found[:4]:
                print('      - ' + f)
        print('  (the constructed "tree" has to be a spanning TREE of the maximal cliques in which the')
        print('   cliques holding any attribute are connected, with an acyclic message schedule)')
        return 1
    print('PASS: %d junction trees valid' % count)
    print('digest', digest.hexdigest())
    return 0


if __name__ == '__main__':
    sys.exit(main())

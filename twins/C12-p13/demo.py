"""C12 / pair 1 -- clique-graph weights in JunctionTree._make_tree.

Builds junction trees for a fixed list of (domain, cliques, order) cases, checks
every clause of the property on each and prints a deterministic digest
(the tree edges with their separators).  Exits 1 as soon as a tree is invalid.
"""
import os, sys, hashlib, itertools, warnings
warnings.filterwarnings('ignore')
ROOT = os.path.dirname(os.path.dirname(os.path.dirname(os.path.abspath(__file__))))
sys.path.insert(0, os.path.join(ROOT, 'src'))

import numpy as np
import networkx as nx
from mbi.domain import Domain
from mbi.junction_tree import JunctionTree
import mbi
assert os.path.abspath(mbi.__file__).startswith(ROOT), mbi.__file__


def problems(domain, cliques, jt):
    """ list of violated clauses of the property (empty list = valid) """
    bad = []
    tree = jt.tree
    nodes = jt.maximal_cliques()
    if sorted(nodes) != sorted(tree.nodes()):
        bad.append('maximal_cliques() differs from the nodes of the tree')
    if len(nodes) and not (nx.is_connected(tree) and tree.number_of_edges() == len(nodes) - 1):
        bad.append('not a tree')
    for cl in cliques:
        if not any(set(cl) <= set(n) for n in nodes):
            bad.append('input clique %s is not covered' % (tuple(cl),))
    if set().union(*map(set, nodes)) != set(domain.attrs):
        bad.append('some attribute of the domain is missing')
    for n, m in itertools.permutations(nodes, 2):
        if set(n) <= set(m):
            bad.append('node %s is contained in node %s' % (n, m))
    for a in domain.attrs:
        holders = [n for n in nodes if a in n]
        if holders and not nx.is_connected(tree.subgraph(holders)):
            bad.append('running intersection fails for %r: the nodes %s are not connected'
                       % (a, sorted(holders)))
    # message schedule
    sched = jt.mp_order()
    want = [(a, b) for a, b in tree.edges()] + [(b, a) for a, b in tree.edges()]
    if sorted(sched) != sorted(want):
        bad.append('schedule is not each direction of each tree edge exactly once')
    seen = set()
    for i, j in sched:
        for k in tree.neighbors(i):
            if k != j and (k, i) not in seen:
                bad.append('message %s->%s sent before %s->%s' % (i, j, k, i))
        seen.add((i, j))
    return bad


def cases():
    rng = np.random.RandomState(0)
    out = []
    # the chain of the unit tests
    d = Domain(['a', 'b', 'c', 'd'], [10, 20, 30, 40])
    out.append(('chain', d, [('a', 'b'), ('b', 'c'), ('c', 'd')], None))
    # cycles that need fill-in, several orders
    d = Domain(list('abcde'), [2, 3, 4, 5, 6])
    cyc = [('a', 'b'), ('b', 'c'), ('c', 'd'), ('d', 'e'), ('e', 'a')]
    out.append(('5-cycle default', d, cyc, None))
    out.append(('5-cycle given', d, cyc, list('cadbe')))
    # cliques that share TWO attributes next to cliques that share one
    d = Domain(list('abcde'), [2, 2, 3, 3, 4])
    out.append(('fan abc', d, [('a', 'b'), ('a', 'c', 'd'), ('a', 'c', 'e')], None))
    out.append(('fan abc rev', d, [('a', 'c', 'e'), ('c', 'a', 'd'), ('b', 'a')], list('edcba')))
    d = Domain(list('pqrstu'), [2, 3, 2, 3, 2, 3])
    out.append(('fan pq', d, [('p', 'q'), ('p', 'r', 's', 't'), ('p', 'r', 's', 'u')], None))
    out.append(('two fans', d, [('p', 'q'), ('p', 'r', 's'), ('p', 'r', 't'), ('q', 'u')],
                list('utsrqp')))
    # wide separators only
    d = Domain(list('wxyz'), [3, 3, 3, 3])
    out.append(('wide', d, [('w', 'x', 'y'), ('x', 'y', 'z')], None))
    # isolated attributes and singletons
    d = Domain(list('abcd'), [2, 2, 2, 2])
    out.append(('isolated', d, [('a',), ('b', 'c')], None))
    out.append(('no cliques', d, [], None))
    # random clique sets, default / given / randomised orders
    for t in range(30):
        n = rng.randint(4, 9)
        attrs = ['x%d' % i for i in range(n)]
        d = Domain(attrs, list(rng.randint(1, 5, size=n)))
        cl = []
        for _ in range(rng.randint(2, 7)):
            k = rng.randint(1, 4)
            cl.append(tuple(rng.choice(attrs, size=k, replace=False)))
        mode = t % 3
        order = None if mode == 0 else (list(rng.permutation(attrs)) if mode == 1 else 3)
        out.append(('random %d' % t, d, cl, order))
    return out


def main():
    np.random.seed(1234)
    lines, failures = [], []
    for name, domain, cliques, order in cases():
        cliques = [tuple(str(a) for a in cl) for cl in cliques]
        if isinstance(order, list):
            order = [str(a) for a in order]
        jt = JunctionTree(domain, cliques, elimination_order=order)
        bad = problems(domain, cliques, jt)
        edges = sorted(tuple(sorted((a, b))) for a, b in jt.tree.edges())
        desc = '; '.join('%s-%s|%s' % (','.join(a), ','.join(b),
                                       ','.join(domain.canonical(set(a) & set(b))))
                         for a, b in edges)
        lines.append('%-16s nodes=%d edges=%d  %s' % (name, len(jt.maximal_cliques()),
                                                     len(edges), desc))
        for b in bad:
            failures.append('%s: %s' % (name, b))
    for line in lines:
        print(line)
    print('digest', hashlib.sha256('\n'.join(lines).encode()).hexdigest())
    if failures:
        print('FAIL: %d violation(s) of the junction-tree property' % len(failures))
        for f in failures:
            print('  ' + f)
        print('The weight of a clique-graph edge no longer grows with the NUMBER of shared')
        print('attributes, so the maximum-weight spanning tree is not a junction tree.')
        sys.exit(1)
    print('PASS')


if __name__ == '__main__':
    main()

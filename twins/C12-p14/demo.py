"""C12 / pair 2 -- numbering the cliques in JunctionTree.mp_order.

Builds junction trees for a fixed list of (domain, cliques, order) cases, checks
every clause of the property on each (in particular: the schedule lists each
direction of each TREE EDGE exactly once, after the messages it depends on),
runs belief propagation with the schedule and compares the clique marginals with
brute force.  Prints a deterministic digest; the schedule itself is not printed
because the unmodified code already returns a hash-seed dependent (valid) order.
"""
import os, sys, hashlib, itertools, warnings
warnings.filterwarnings('ignore')
ROOT = os.path.dirname(os.path.dirname(os.path.dirname(os.path.abspath(__file__))))
sys.path.insert(0, os.path.join(ROOT, 'src'))

import numpy as np
import networkx as nx
from mbi.domain import Domain
from mbi.junction_tree import JunctionTree
import mbi
assert os.path.abspath(mbi.__file__).startswith(ROOT), mbi.__file__


def problems(domain, cliques, jt):
    """ list of violated clauses of the property (empty list = valid) """
    bad = []
    tree = jt.tree
    nodes = jt.maximal_cliques()
    if sorted(nodes) != sorted(tree.nodes()):
        bad.append('maximal_cliques() differs from the nodes of the tree')
    if len(nodes) and not (nx.is_connected(tree) and tree.number_of_edges() == len(nodes) - 1):
        bad.append('not a tree')
    for cl in cliques:
        if not any(set(cl) <= set(n) for n in nodes):
            bad.append('input clique %s is not covered' % (tuple(cl),))
    if set().union(*map(set, nodes)) != set(domain.attrs):
        bad.append('some attribute of the domain is missing')
    for n, m in itertools.permutations(nodes, 2):
        if set(n) <= set(m):
            bad.append('node %s is contained in node %s' % (n, m))
    for a in domain.attrs:
        holders = [n for n in nodes if a in n]
        if holders and not nx.is_connected(tree.subgraph(holders)):
            bad.append('running intersection fails for %r: the nodes %s are not connected'
                       % (a, sorted(holders)))
    # message schedule
    sched = jt.mp_order()
    want = [(a, b) for a, b in tree.edges()] + [(b, a) for a, b in tree.edges()]
    if sorted(sched) != sorted(want):
        bad.append('schedule is not each direction of each tree edge exactly once')
    seen = set()
    for i, j in sched:
        for k in tree.neighbors(i):
            if k != j and (k, i) not in seen:
                bad.append('message %s->%s sent before %s->%s' % (i, j, k, i))
        seen.add((i, j))
    return bad


def bp_matches_brute_force(domain, cliques, order, seed):
    """ belief propagation along the schedule vs marginals of the explicit joint """
    from mbi import GraphicalModel, Factor, CliqueVector
    state = np.random.get_state()
    np.random.seed(seed)
    model = GraphicalModel(domain, cliques, total=10.0, elimination_order=order)
    pot = {cl: Factor.random(domain.project(cl)) for cl in model.cliques}
    model.potentials = CliqueVector(pot)
    mu = model.belief_propagation(model.potentials)
    logp = sum(pot.values())
    joint = (logp - logp.logsumexp()).exp() * model.total
    ok = all(np.allclose(mu[cl].values, joint.project(cl).values) for cl in model.cliques)
    np.random.set_state(state)
    return ok


def cases():
    rng = np.random.RandomState(5)
    out = []
    # the chain of the unit tests: sorted cliques are already in path order
    d = Domain(['a', 'b', 'c', 'd'], [2, 3, 4, 5])
    out.append(('chain', d, [('a', 'b'), ('b', 'c'), ('c', 'd')], None))
    # the same shape with other names: the middle of the path sorts last
    out.append(('chain renamed', d, [('a', 'd'), ('b', 'c'), ('c', 'd')], None))
    out.append(('chain renamed 2', d, [('a', 'd'), ('b', 'c'), ('c', 'd')], list('bacd')))
    # star and caterpillar
    d = Domain(list('abcde'), [2, 3, 2, 3, 2])
    out.append(('star', d, [('a', 'e'), ('b', 'e'), ('c', 'e'), ('d', 'e')], None))
    out.append(('caterpillar', d, [('a', 'b'), ('b', 'c'), ('c', 'd'), ('b', 'e')], list('eadbc')))
    out.append(('5-cycle', d, [('a', 'b'), ('b', 'c'), ('c', 'd'), ('d', 'e'), ('e', 'a')], None))
    out.append(('5-cycle rand', d, [('a', 'b'), ('b', 'c'), ('c', 'd'), ('d', 'e'), ('e', 'a')], 4))
    # degenerate: one node, two nodes, isolated attributes
    d = Domain(list('abc'), [2, 2, 2])
    out.append(('single', d, [('a', 'b', 'c')], None))
    out.append(('two nodes', d, [('a', 'b'), ('b', 'c')], list('cba')))
    out.append(('isolated', d, [('a',)], None))
    for t in range(30):
        n = rng.randint(4, 8)
        attrs = ['x%d' % i for i in range(n)]
        d = Domain(attrs, list(rng.randint(2, 4, size=n)))
        cl = []
        for _ in range(rng.randint(2, 7)):
            k = rng.randint(1, 4)
            cl.append(tuple(rng.choice(attrs, size=k, replace=False)))
        mode = t % 3
        order = None if mode == 0 else (list(rng.permutation(attrs)) if mode == 1 else 2)
        out.append(('random %d' % t, d, cl, order))
    return out


def main():
    np.random.seed(4321)
    lines, failures = [], []
    for num, (name, domain, cliques, order) in enumerate(cases()):
        cliques = [tuple(str(a) for a in cl) for cl in cliques]
        if isinstance(order, list):
            order = [str(a) for a in order]
        jt = JunctionTree(domain, cliques, elimination_order=order)
        bad = problems(domain, cliques, jt)
        sched = jt.mp_order()
        if set(jt.separator_axes()) != set(sched):
            bad.append('separator_axes() is not keyed by the messages of the schedule')
        for (i, j), sep in jt.separator_axes().items():
            if set(sep) != set(i) & set(j):
                bad.append('wrong separator for %s->%s' % (i, j))
        nb = jt.neighbors()
        if {(i, j) for i in nb for j in nb[i]} != set(sched):
            bad.append('the schedule and neighbors() disagree about the edges of the tree')
        # a given order is used as it is: the model can be rebuilt with the same tree
        fixed = list(jt.elimination_order)
        bp = bp_matches_brute_force(domain, cliques, fixed, 100 + num)
        if not bp:
            bad.append('belief propagation along the schedule gives wrong clique marginals')
        moved = list(jt.tree.nodes()) != jt.maximal_cliques()
        edges = sorted(tuple(sorted((a, b))) for a, b in jt.tree.edges())
        desc = '; '.join('%s-%s' % (','.join(a), ','.join(b)) for a, b in edges)
        lines.append('%-16s nodes=%d messages=%d dfs-order-differs=%-5s bp=%s  %s'
                     % (name, len(jt.maximal_cliques()), len(sched), moved,
                        'ok' if bp else 'WRONG', desc))
        for b in bad:
            failures.append('%s: %s' % (name, b))
    for line in lines:
        print(line)
    print('digest', hashlib.sha256('\n'.join(lines).encode()).hexdigest())
    if failures:
        print('FAIL: %d violation(s) of the junction-tree property' % len(failures))
        for f in failures[:40]:
            print('  ' + f)
        print('mp_order() numbers the cliques in one order and translates the numbers back')
        print('in another, so whenever the two orders differ the schedule contains messages')
        print('between cliques that are not adjacent in the tree.')
        sys.exit(1)
    print('PASS')


if __name__ == '__main__':
    main()

#!/usr/bin/env python
""" C12 / pair 1 -- `JunctionTree._triangulated` gets an optional `fill` argument.

Builds MANY junction trees one after another in the same process (that is the
"history" the breaking change needs) and checks every one of them against the
definition of a junction tree and of a valid message schedule.

exit 0 + PASS + digest : every tree is valid
exit 1 + FAIL          : some tree is not a valid junction tree
"""
import os, sys, hashlib, itertools, warnings
warnings.simplefilter('ignore')
ROOT = os.path.dirname(os.path.dirname(os.path.dirname(os.path.abspath(__file__))))
sys.path.insert(0, os.path.join(ROOT, 'src'))
import networkx as nx
from mbi.domain import Domain
from mbi.junction_tree import JunctionTree
import mbi
assert os.path.abspath(mbi.__file__).startswith(ROOT), mbi.__file__


def check(domain, cliques, jt):
    """ return a list of violated clauses (empty = valid junction tree + schedule) """
    bad = []
    nodes = jt.maximal_cliques()
    T = jt.tree
    if sorted(map(sorted, nodes)) != sorted(map(sorted, T.nodes())) or len(nodes) != T.number_of_nodes():
        bad.append('maximal_cliques() differs from the nodes of the tree')
    if not nx.is_tree(T):
        bad.append('tree is not a tree')
    sets = [frozenset(n) for n in nodes]
    for cl in cliques:
        if not any(set(cl) <= s for s in sets):
            bad.append('input clique %s is in no node' % (tuple(cl),))
    seen = set().union(*sets) if sets else set()
    if seen != set(domain.attrs):
        bad.append('attributes of the nodes %s != attributes of the domain' % sorted(seen))
    for s, t in itertools.permutations(sets, 2):
        if s <= t:
            bad.append('node %s is contained in node %s' % (sorted(s), sorted(t)))
    for a in sorted(seen, key=str):
        having = [n for n in T.nodes() if a in n]
        if having and not nx.is_connected(T.subgraph(having)):
            bad.append('running intersection fails for attribute %r: %s' % (a, sorted(having)))
    # message schedule
    order = jt.mp_order()
    want = set(T.edges()) | set((b, a) for a, b in T.edges())
    if len(order) != len(want) or set(order) != want:
        bad.append('schedule is not "each direction of each edge exactly once"')
    pos = {m: k for k, m in enumerate(order)}
    for (i, j) in order:
        for k in T.neighbors(i):
            if k != j and pos.get((k, i), 10**9) > pos[(i, j)]:
                bad.append('message %s->%s is sent before %s->%s' % (i, j, k, i))
    sep = jt.separator_axes()
    if set(sep) != want or any(set(sep[i, j]) != set(i) & set(j) for i, j in sep):
        bad.append('separator_axes() is wrong')
    nb = jt.neighbors()
    if set(nb) != set(T.nodes()) or any(set(nb[i]) != set(T.neighbors(i)) for i in nb):
        bad.append('neighbors() is wrong')
    return bad


def summary(jt):
    cl = sorted(tuple(sorted(map(str, n))) for n in jt.tree.nodes())
    seps = sorted(tuple(sorted(map(str, set(a) & set(b)))) for a, b in jt.tree.edges())
    return repr((cl, seps))


def histories():
    """ yield (label, domain, cliques, elimination_order) in the order they are built """
    dom4 = Domain(['a', 'b', 'c', 'd'], [2, 3, 4, 5])
    dom5 = Domain(['a', 'b', 'c', 'd', 'e'], [2, 3, 4, 5, 2])
    # 1. the chain of the unit test, then sparser models over the same attributes
    yield 'chain', dom4, [('a', 'b'), ('b', 'c'), ('c', 'd')], None
    yield 'one-edge', dom4, [('a', 'd')], None
    yield 'two-edges', dom4, [('a', 'c'), ('b', 'd')], None
    yield 'empty', dom4, [], None
    # 2. a 5-cycle under two explicit orders, then a chain over the same attributes
    cyc = [('a', 'b'), ('b', 'c'), ('c', 'd'), ('d', 'e'), ('e', 'a')]
    yield 'cycle/abcde', dom5, cyc, ['a', 'b', 'c', 'd', 'e']
    yield 'cycle/cedab', dom5, cyc, ['c', 'e', 'd', 'a', 'b']
    yield 'chain5', dom5, [('b', 'c'), ('c', 'd'), ('d', 'e')], None
    yield 'chain5/int', dom5, [('e', 'c'), ('c', 'a'), ('a', 'd')], 3
    # 3. every labelled graph on 4 attributes, default order, one after another
    pairs = list(itertools.combinations(dom4.attrs, 2))
    for mask in range(2 ** len(pairs)):
        cl = [p for k, p in enumerate(pairs) if mask >> k & 1]
        yield 'g4/%02d' % mask, dom4, cl, None
    # 4. ... and in the opposite direction, with explicit orders
    for mask in reversed(range(2 ** len(pairs))):
        cl = [p for k, p in enumerate(pairs) if mask >> k & 1]
        yield 'g4r/%02d' % mask, dom4, cl, ['d', 'b', 'a', 'c']
    # 5. a model over a smaller domain built after the larger ones
    yield 'small', Domain(['a', 'b', 'c'], [2, 3, 4]), [('a', 'b')], None


def main():
    import numpy as np
    np.random.seed(0)
    h = hashlib.sha256()
    failures = []
    count = 0
    for label, dom, cliques, order in histories():
        count += 1
        try:
            jt = JunctionTree(dom, cliques, elimination_order=order)
            bad = check(dom, cliques, jt)
        except Exception as e:
            failures.append((label, cliques, ['constructor raised %s: %s' % (type(e).__name__, e)]))
            continue
        if bad:
            failures.append((label, cliques, bad))
        else:
            h.update((label + summary(jt)).encode())
    if failures:
        print('FAIL: %d of %d junction trees built in this process are invalid' % (len(failures), count))
        for label, cliques, bad in failures[:5]:
            print('  %-12s cliques=%s' % (label, cliques))
            for b in bad[:3]:
                print('      - ' + b)
        print('  (each of these models gives a valid tree when it is the first one built in a fresh process:')
        print('   edges of EARLIER models leak into the triangulated graph of later ones)')
        return 1
    print('PASS: %d junction trees built one after another, all valid' % count)
    print('digest', h.hexdigest())
    return 0


if __name__ == '__main__':
    sys.exit(main())

#!/usr/bin/env python
""" C12 / pair 2 -- randomised elimination orders (elimination_order = <int>) with pruning of
candidates that cannot beat the best order found so far.

For many clique sets the junction tree is built in the three order modes
{None, permutation, int} and checked against the definition of a junction tree
and of a valid message schedule; the elimination order that was used must be a
permutation of the attributes.

np.random.choice is replaced by a COUNTER-BASED source: the draw of candidate
number c at the step with n attributes left is a fixed function of (model, c, n),
so the result does not depend on how many draws other candidates consumed.
A second block uses the real numpy generator with fixed seeds; there only the
verdicts are printed (pruning changes how many draws a candidate consumes).

exit 0 + PASS + digest : every tree valid;    exit 1 + FAIL : some tree invalid
"""
import os, sys, hashlib, itertools, zlib, warnings
warnings.simplefilter('ignore')
ROOT = os.path.dirname(os.path.dirname(os.path.dirname(os.path.abspath(__file__))))
sys.path.insert(0, os.path.join(ROOT, 'src'))
import numpy as np
import networkx as nx
from mbi.domain import Domain
from mbi.junction_tree import JunctionTree
import mbi
assert os.path.abspath(mbi.__file__).startswith(ROOT), mbi.__file__


def check(domain, cliques, jt):
    """ return a list of violated clauses (empty = valid junction tree + schedule) """
    bad = []
    order = list(jt.elimination_order)
    if sorted(map(str, order)) != sorted(map(str, domain.attrs)):
        bad.append('elimination order %s is not a permutation of the attributes' % order)
    nodes = jt.maximal_cliques()
    T = jt.tree
    if set(nodes) != set(T.nodes()) or len(nodes) != T.number_of_nodes():
        bad.append('maximal_cliques() differs from the nodes of the tree')
    if not nx.is_tree(T):
        bad.append('tree is not a tree')
    sets = [frozenset(n) for n in nodes]
    for cl in cliques:
        if not any(set(cl) <= s for s in sets):
            bad.append('input clique %s is in no node' % (tuple(cl),))
    seen = set().union(*sets) if sets else set()
    if seen != set(domain.attrs):
        bad.append('attributes of the nodes != attributes of the domain')
    for s, t in itertools.permutations(sets, 2):
        if s <= t:
            bad.append('node %s is contained in node %s' % (sorted(s), sorted(t)))
    for a in sorted(seen):
        having = [n for n in T.nodes() if a in n]
        if having and not nx.is_connected(T.subgraph(having)):
            bad.append('running intersection fails for attribute %r: %s' % (a, sorted(having)))
    sched = jt.mp_order()
    want = set(T.edges()) | set((b, a) for a, b in T.edges())
    if len(sched) != len(want) or set(sched) != want:
        bad.append('schedule is not "each direction of each edge exactly once"')
    pos = {m: k for k, m in enumerate(sched)}
    for (i, j) in sched:
        for k in T.neighbors(i):
            if k != j and pos.get((k, i), 10**9) > pos[(i, j)]:
                bad.append('message %s->%s is sent before %s->%s' % (i, j, k, i))
    return bad


def summary(jt):
    cl = sorted(tuple(sorted(n)) for n in jt.tree.nodes())
    seps = sorted(tuple(sorted(set(a) & set(b))) for a, b in jt.tree.edges())
    return repr((list(jt.elimination_order), cl, seps))


# ---- counter-based replacement of np.random.choice ---------------------------------
STATE = {'model': '', 'cand': 0}
_real_greedy = JunctionTree._greedy_order
_real_choice = np.random.choice

def counting_greedy(self, *args, **kwargs):
    STATE['cand'] += 1
    return _real_greedy(self, *args, **kwargs)

def counter_choice(n, p=None):
    key = ('%s|%d|%d' % (STATE['model'], STATE['cand'], n)).encode()
    u = (zlib.crc32(key) + 0.5) / 2.0 ** 32
    return min(int(np.searchsorted(np.cumsum(p), u)), n - 1)


def models():
    """ yield (label, domain, cliques) """
    attrs = ['a', 'b', 'c', 'd', 'e']
    pairs = list(itertools.combinations(attrs, 2))
    for shape in ([2, 3, 4, 5, 6], [7, 1, 2, 1, 3]):
        dom = Domain(attrs, shape)
        for mask in range(2 ** len(pairs)):
            cl = [p for k, p in enumerate(pairs) if mask >> k & 1]
            yield 'g5-%s-%04d' % (shape[0], mask), dom, cl
    rng = np.random.RandomState(12)
    for t in range(150):
        k = rng.randint(6, 10)
        at = list('abcdefghij')[:k]
        dom = Domain(at, rng.randint(1, 7, size=k).tolist())
        cl = [p for p in itertools.combinations(at, 2) if rng.rand() < 0.3]
        cl += [tuple(map(str, rng.choice(at, 3, replace=False))) for _ in range(rng.randint(0, 3))]
        yield 'rnd-%03d' % t, dom, cl
    # rings with one expensive attribute
    for k in (6, 8, 10):
        at = list('abcdefghij')[:k]
        dom = Domain(at, [9] + [2] * (k - 1))
        yield 'ring-%d' % k, dom, [(at[i], at[(i + 1) % k]) for i in range(k)]


def main():
    h = hashlib.sha256()
    failures, count = [], 0

    def run(label, dom, cl, order, digest=True):
        nonlocal count
        count += 1
        STATE['model'], STATE['cand'] = label, 0
        try:
            jt = JunctionTree(dom, cl, elimination_order=order)
            bad = check(dom, cl, jt)
        except Exception as e:
            bad, jt = ['constructor raised %s: %s' % (type(e).__name__, e)], None
        if bad:
            failures.append((label, order, dom, cl, bad))
        elif digest:
            h.update((label + repr(order) + summary(jt)).encode())

    # block 1: counter-based random source, all three order modes
    JunctionTree._greedy_order = counting_greedy
    np.random.choice = counter_choice
    try:
        prng = np.random.RandomState(5)
        for label, dom, cl in models():
            run(label, dom, cl, None)
            run(label, dom, cl, [dom.attrs[i] for i in prng.permutation(len(dom.attrs))])
            for k in (0, 1, 4):
                run(label, dom, cl, k)
    finally:
        JunctionTree._greedy_order = _real_greedy
        np.random.choice = _real_choice

    # block 2: the real numpy generator, fixed seeds, verdicts only
    for seed, (label, dom, cl) in enumerate(models()):
        if seed % 7 == 0:
            np.random.seed(seed)
            run(label + '/np', dom, cl, 3, digest=False)

    if failures:
        print('FAIL: %d of %d junction trees are invalid' % (len(failures), count))
        modes = sorted(set('int' if type(o) is int else 'None' if o is None else 'permutation'
                           for _, o, _, _, _ in failures))
        print('  order modes affected: %s' % modes)
        struct = [f for f in failures if any('permutation' not in b for b in f[4])]
        print('  %d with a truncated elimination order, %d of them with a structurally invalid tree'
              % (sum(any('permutation' in b for b in f[4]) for f in failures), len(struct)))
        for label, order, dom, cl, bad in failures[:2] + struct[:3]:
            print('  %s elimination_order=%r %s' % (label, order, dom))
            print('      cliques=%s' % (cl,))
            for b in bad[:3]:
                print('      - ' + b)
        return 1
    print('PASS: %d junction trees (modes None / permutation / int), all valid' % count)
    print('digest', h.hexdigest())
    return 0


if __name__ == '__main__':
    sys.exit(main())

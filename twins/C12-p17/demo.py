""" C12 / pair 1 -- the attribute work list of JunctionTree._greedy_order

Builds junction trees for several clique sets under every order mode
(None, an explicit permutation, int = number of randomised candidates) and
checks that each tree is a valid junction tree with a valid message schedule.
"""
import os, sys, hashlib, itertools, warnings
ROOT = os.path.dirname(os.path.dirname(os.path.dirname(os.path.abspath(__file__))))
sys.path.insert(0, os.path.join(ROOT, 'src'))
warnings.simplefilter('ignore')
import numpy as np
import networkx as nx
from mbi.domain import Domain
from mbi.junction_tree import JunctionTree


def check(domain, cliques, jt):
    """ return a list of violated clauses (empty if the tree is fine) """
    bad = []
    nodes = jt.maximal_cliques()
    tree = jt.tree
    if set(nodes) != set(tree.nodes()) or len(nodes) != len(set(nodes)):
        bad.append('maximal_cliques() is not the node set of the tree')
    if len(nodes) > 0 and not nx.is_tree(tree):
        bad.append('not a tree')
    for cl in cliques:
        if not any(set(cl) <= set(n) for n in nodes):
            bad.append('input clique %s in no node' % (tuple(cl),))
    for a in domain.attrs:
        if not any(a in n for n in nodes):
            bad.append('attribute %s in no node' % a)
    for n1, n2 in itertools.permutations(nodes, 2):
        if set(n1) <= set(n2):
            bad.append('node %s inside node %s' % (n1, n2))
    for a in domain.attrs:
        having = [n for n in nodes if a in n]
        if having and not nx.is_connected(tree.subgraph(having)):
            bad.append('running intersection fails for %s' % a)
    # schedule
    sched = jt.mp_order()
    want = set(tree.edges()) | set((b, a) for a, b in tree.edges())
    if len(sched) != len(set(sched)) or set(sched) != want:
        bad.append('schedule is not each direction of each edge exactly once')
    pos = {m: k for k, m in enumerate(sched)}
    for (i, j) in sched:
        for k in tree.neighbors(i):
            if k != j and pos.get((k, i), len(sched)) > pos[(i, j)]:
                bad.append('message %s->%s before %s->%s' % (i, j, k, i))
    sep = jt.separator_axes()
    if set(sep) != want or any(set(sep[i, j]) != set(i) & set(j) for i, j in sep):
        bad.append('separator_axes wrong')
    nb = jt.neighbors()
    if nb != {n: set(tree.neighbors(n)) for n in tree.nodes()}:
        bad.append('neighbors() wrong')
    return bad


def cycle(attrs):
    return [(attrs[i], attrs[(i + 1) % len(attrs)]) for i in range(len(attrs))]


CASES = []
A = list('abcdefgh')
CASES.append(('chain4', A[:4], [2, 3, 4, 5], [('a', 'b'), ('b', 'c'), ('c', 'd')]))
CASES.append(('cycle4', A[:4], [2, 3, 4, 5], cycle(A[:4])))
CASES.append(('cycle5', A[:5], [2, 3, 4, 5, 6], cycle(A[:5])))
CASES.append(('cycle6+iso', A[:7], [3, 2, 4, 2, 5, 2, 3], cycle(A[:6])))
CASES.append(('grid3x2', A[:6], [2] * 6,
              [('a', 'b'), ('b', 'c'), ('d', 'e'), ('e', 'f'), ('a', 'd'), ('b', 'e'), ('c', 'f')]))
CASES.append(('triples', A[:6], [2, 3, 2, 3, 2, 3],
              [('a', 'b', 'c'), ('c', 'd', 'e'), ('e', 'f', 'a')]))
CASES.append(('wheel', A[:6], [4, 2, 2, 2, 2, 2],
              cycle(A[1:6]) + [('a', x) for x in A[1:6]]))
CASES.append(('two-cycles', A[:8], [2] * 8, cycle(A[:4]) + cycle(A[4:8])))

MODES = ['none', 'perm', 'revperm', 0, 1, 5, 25]


def main():
    lines, failures = [], []
    for name, attrs, shape, cliques in CASES:
        domain = Domain(attrs, shape)
        for mode in MODES:
            np.random.seed(1234)
            if mode == 'none':
                order = None
            elif mode == 'perm':
                order = list(np.random.permutation(attrs))
            elif mode == 'revperm':
                order = attrs[::-1]
            else:
                order = mode
            jt = JunctionTree(domain, cliques, elimination_order=order)
            bad = check(domain, cliques, jt)
            eo = list(jt.elimination_order)
            if sorted(eo) != sorted(attrs):
                bad.append('elimination order %s is not a permutation of the domain' % eo)
            # a second tree from the same inputs in the same process must be fine too
            jt2 = JunctionTree(domain, cliques, elimination_order=order)
            bad += ['(2nd construction) ' + b for b in check(domain, cliques, jt2)]
            line = '%-11s mode=%-8s order=%s nodes=%s edges=%s' % (
                name, mode, ''.join(map(str, eo)),
                sorted(jt.maximal_cliques()),
                sorted(tuple(sorted(e)) for e in jt.tree.edges()))
            lines.append(line)
            for b in bad:
                failures.append('%s mode=%s: %s' % (name, mode, b))
    text = '\n'.join(lines)
    if failures:
        print('FAIL: %d violations of the junction-tree property' % len(failures))
        for f in failures[:25]:
            print('  ' + f)
        print('  (an order mode handed the triangulation something that is not a full '
              'elimination order, so chordless cycles survive)')
        return 1
    print('PASS')
    print('cases', len(lines))
    print('digest', hashlib.sha256(text.encode()).hexdigest())
    return 0


if __name__ == '__main__':
    sys.exit(main())

""" C12 / pair 2 -- JunctionTree.neighbors() assembled from the tree edges

Builds junction trees for clique sets whose triangulation has one, two or many
maximal cliques and checks the tree, the schedule and the observers
(maximal_cliques / mp_order / separator_axes / neighbors) against each other.
"""
import os, sys, hashlib, itertools, warnings
ROOT = os.path.dirname(os.path.dirname(os.path.dirname(os.path.abspath(__file__))))
sys.path.insert(0, os.path.join(ROOT, 'src'))
warnings.simplefilter('ignore')
import numpy as np
import networkx as nx
from mbi.domain import Domain
from mbi.junction_tree import JunctionTree


def check(domain, cliques, jt):
    """ return a list of violated clauses (empty if the tree is fine) """
    bad = []
    nodes = jt.maximal_cliques()
    tree = jt.tree
    if set(nodes) != set(tree.nodes()) or len(nodes) != len(set(nodes)):
        bad.append('maximal_cliques() is not the node set of the tree')
    if len(nodes) > 0 and not nx.is_tree(tree):
        bad.append('not a tree')
    for cl in cliques:
        if not any(set(cl) <= set(n) for n in nodes):
            bad.append('input clique %s in no node' % (tuple(cl),))
    for a in domain.attrs:
        if not any(a in n for n in nodes):
            bad.append('attribute %s in no node' % a)
    for n1, n2 in itertools.permutations(nodes, 2):
        if set(n1) <= set(n2):
            bad.append('node %s inside node %s' % (n1, n2))
    for a in domain.attrs:
        having = [n for n in nodes if a in n]
        if having and not nx.is_connected(tree.subgraph(having)):
            bad.append('running intersection fails for %s' % a)
    # schedule
    sched = jt.mp_order()
    want = set(tree.edges()) | set((b, a) for a, b in tree.edges())
    if len(sched) != len(set(sched)) or set(sched) != want:
        bad.append('schedule is not each direction of each edge exactly once')
    pos = {m: k for k, m in enumerate(sched)}
    for (i, j) in sched:
        for k in tree.neighbors(i):
            if k != j and pos.get((k, i), len(sched)) > pos[(i, j)]:
                bad.append('message %s->%s before %s->%s' % (i, j, k, i))
    sep = jt.separator_axes()
    if set(sep) != want or any(set(sep[i, j]) != set(i) & set(j) for i, j in sep):
        bad.append('separator_axes wrong')
    nb = jt.neighbors()
    if nb != {n: set(tree.neighbors(n)) for n in tree.nodes()}:
        bad.append('neighbors() wrong')
    return bad


def cycle(attrs):
    return [(attrs[i], attrs[(i + 1) % len(attrs)]) for i in range(len(attrs))]


A = list('abcdef')
CASES = [
    ('chain4', A[:4], [2, 3, 4, 5], [('a', 'b'), ('b', 'c'), ('c', 'd')], None),
    ('cycle5', A[:5], [2, 3, 4, 5, 6], cycle(A[:5]), None),
    ('cycle5-given', A[:5], [2, 3, 4, 5, 6], cycle(A[:5]), list('cadbe')),
    ('isolated', A[:4], [2, 3, 4, 5], [('a', 'b')], None),
    ('no-cliques', A[:3], [2, 3, 4], [], None),
    ('singletons', A[:3], [2, 3, 4], [('a',), ('b',), ('c',)], 3),
    # triangulations that are ONE complete graph: the tree has a single node
    ('one-attr', A[:1], [7], [], None),
    ('one-attr-measured', A[:1], [7], [('a',)], None),
    ('one-clique', A[:3], [2, 3, 4], [('a', 'b', 'c')], None),
    ('triangle', A[:3], [2, 3, 4], [('a', 'b'), ('b', 'c'), ('a', 'c')], None),
    ('nested', A[:3], [2, 3, 4], [('a', 'b', 'c'), ('a', 'b'), ('c',)], 2),
    ('star-hub-first', A[:4], [2, 3, 4, 5], [('a', 'b'), ('a', 'c'), ('a', 'd')], list('abcd')),
    ('cycle4-bad-order', A[:4], [2, 2, 2, 2], cycle(A[:4]) + [('a', 'c')], list('acbd')),
]


def main():
    lines, failures = [], []
    for name, attrs, shape, cliques, order in CASES:
        domain = Domain(attrs, shape)
        np.random.seed(99)
        jt = JunctionTree(domain, cliques, elimination_order=order)
        bad = check(domain, cliques, jt)
        nb = jt.neighbors()
        for n in jt.maximal_cliques():
            if n not in nb:
                bad.append('clique %s has no entry in neighbors()' % (n,))
        lines.append('%-18s nodes=%s edges=%s neighbors=%s seps=%s' % (
            name, sorted(jt.maximal_cliques()),
            sorted(tuple(sorted(e)) for e in jt.tree.edges()),
            sorted((k, sorted(v)) for k, v in nb.items()),
            sorted((k, tuple(sorted(v))) for k, v in jt.separator_axes().items())))
        failures += ['%s: %s' % (name, b) for b in bad]
    text = '\n'.join(lines)
    if failures:
        print('FAIL: %d violations' % len(failures))
        for f in failures:
            print('  ' + f)
        print('  (neighbors() has to describe the same tree as JunctionTree.tree: every '
              'maximal clique is a key, also the clique of a one-node tree)')
        return 1
    print('PASS')
    print('cases', len(lines))
    print('digest', hashlib.sha256(text.encode()).hexdigest())
    return 0


if __name__ == '__main__':
    sys.exit(main())

""" C12 / pair 1 -- fill-in of JunctionTree._triangulated written straight into both graphs.

Builds junction trees for many clique sets / elimination orders and checks that each one is
a valid junction tree with a valid message schedule.  Prints PASS + digest (exit 0) or FAIL (exit 1).
"""
import os, sys, itertools, hashlib, random

ROOT = os.path.dirname(os.path.dirname(os.path.dirname(os.path.abspath(__file__))))
sys.path.insert(0, os.path.join(ROOT, 'src'))

import numpy as np
import networkx as nx
from mbi import Domain
from mbi.junction_tree import JunctionTree


def check(jt, domain, cliques):
    """ return a list of violated clauses (empty = valid) """
    bad = []
    nodes = jt.maximal_cliques()
    T = jt.tree
    if sorted(nodes) != sorted(T.nodes()):
        bad.append('maximal_cliques() differs from the tree nodes')
    if len(nodes) > 0 and not nx.is_tree(T):
        bad.append('not a tree')
    for cl in cliques:
        if not any(set(cl) <= set(n) for n in nodes):
            bad.append('input clique %s in no node' % (cl,))
    for a in domain.attrs:
        holders = [n for n in nodes if a in n]
        if not holders:
            bad.append('attribute %s in no node' % a)
        elif not nx.is_connected(T.subgraph(holders)):
            bad.append('running intersection fails for %s: %s' % (a, sorted(holders)))
    for n1, n2 in itertools.permutations(nodes, 2):
        if set(n1) <= set(n2):
            bad.append('node %s inside node %s' % (n1, n2))
    # message schedule
    sched = jt.mp_order()
    want = sorted([(a, b) for a, b in T.edges()] + [(b, a) for a, b in T.edges()])
    if sorted(sched) != want:
        bad.append('schedule is not each direction of each edge exactly once')
    pos = {m: k for k, m in enumerate(sched)}
    for (i, j) in sched:
        for k in T.neighbors(i):
            if k != j and pos.get((k, i), 10**9) > pos[(i, j)]:
                bad.append('message %s->%s before %s->%s' % (i, j, k, i))
    if sorted(jt.separator_axes()) != want:
        bad.append('separator_axes keys')
    nb = jt.neighbors()
    if any(nb[n] != set(T.neighbors(n)) for n in nodes):
        bad.append('neighbors()')
    return bad


def describe(jt):
    nodes = sorted(jt.tree.nodes())
    edges = sorted(tuple(sorted(e)) for e in jt.tree.edges())
    return repr((nodes, edges))


def cases():
    """ yield (label, attrs, cliques, order) """
    A5 = list('abcde')
    pairs = list(itertools.combinations(A5, 2))
    rnd = random.Random(12)
    perms = [tuple(A5)] + [tuple(rnd.sample(A5, 5)) for _ in range(5)]
    # every labelled graph on 5 attributes, a few fixed orders + default order
    for mask in range(1 << len(pairs)):
        cl = [p for k, p in enumerate(pairs) if mask >> k & 1]
        for o in perms:
            yield 'g5/%d' % mask, A5, cl, list(o)
        yield 'g5/%d' % mask, A5, cl, None
    # cycles of length 4..8: every rotation start, default and int modes
    for n in range(4, 9):
        at = ['x%d' % i for i in range(n)]
        cyc = [(at[i], at[(i + 1) % n]) for i in range(n)]
        yield 'cycle%d' % n, at, cyc, None
        yield 'cycle%d' % n, at, cyc, 3
        yield 'cycle%d' % n, at, cyc, list(at)
        yield 'cycle%d' % n, at, cyc, list(reversed(at))
        for _ in range(10):
            yield 'cycle%d' % n, at, cyc, rnd.sample(at, n)
    # the 5-cycle: all 120 orders
    at = list('pqrst'); cyc = [(at[i], at[(i + 1) % 5]) for i in range(5)]
    for o in itertools.permutations(at):
        yield 'C5-all', at, cyc, list(o)
    # random larger clique sets (2- and 3-way), with isolated attributes
    for t in range(60):
        n = rnd.randint(7, 11)
        at = ['v%02d' % i for i in range(n)]
        cl = [tuple(rnd.sample(at[:-1], rnd.choice([1, 2, 2, 3]))) for _ in range(rnd.randint(3, 12))]
        yield 'rand%d' % t, at, cl, None
        yield 'rand%d' % t, at, cl, rnd.sample(at, n)
        yield 'rand%d' % t, at, cl, 2


def main():
    np.random.seed(0)
    h = hashlib.sha256()
    count, failures = 0, []
    for label, attrs, cliques, order in cases():
        dom = Domain(attrs, [2 + (k % 3) for k in range(len(attrs))])
        jt = JunctionTree(dom, cliques, order)
        count += 1
        bad = check(jt, dom, cliques)
        if bad:
            failures.append((label, cliques, order, bad))
        h.update(describe(jt).encode())
    # two worked examples, printed in full
    dom = Domain(list('abcde'), [2, 3, 4, 2, 3])
    c5 = [('a', 'b'), ('b', 'c'), ('c', 'd'), ('d', 'e'), ('e', 'a')]
    for order in (None, list('abcde'), list('acebd')):
        jt = JunctionTree(dom, c5, order)
        print('5-cycle, order=%s -> nodes %s' % (order, sorted(jt.tree.nodes())))
    print('trees built: %d' % count)
    if failures:
        print('FAIL: %d of %d trees are not valid junction trees' % (len(failures), count))
        for label, cliques, order, bad in failures[:5]:
            print('  %s cliques=%s order=%s' % (label, cliques, order))
            for b in bad[:3]:
                print('     - ' + b)
        print('  (fill-in edges created by one elimination were not seen by the following ones)')
        return 1
    print('digest', h.hexdigest())
    print('PASS')
    return 0


if __name__ == '__main__':
    sys.exit(main())

"""C12 / pair 2 -- message schedule (JunctionTree.mp_order).

Builds junction trees for
  * the shapes the unit tests use (3-chain, all-singleton star) and longer chains / stars,
  * spiders with legs of unequal length, caterpillars, binary trees, two joined hubs,
  * every labelled graph on <= 4 attributes and every graph on 5 attributes up to
    isomorphism under every elimination order,
  * random larger clique sets under random permutations, the default order and int orders,
checks that each result is a valid junction tree whose message schedule lists each direction
of each edge once and only after every message it depends on, and (for the named shapes)
that belief propagation driven by that schedule reproduces the brute-force marginals.

exit 0 + "PASS <digest>"  : all schedules valid, all marginals right
exit 1 + "FAIL ..."       : some schedule sends a message before one it depends on
"""
import os, sys, itertools, hashlib, warnings

ROOT = os.path.dirname(os.path.dirname(os.path.dirname(os.path.abspath(__file__))))
sys.path.insert(0, os.path.join(ROOT, 'src'))
warnings.simplefilter('ignore')

import numpy as np
import networkx as nx
from mbi.domain import Domain
from mbi.junction_tree import JunctionTree
from mbi import Factor, GraphicalModel, CliqueVector
import mbi
assert os.path.abspath(mbi.__file__).startswith(ROOT), mbi.__file__


def violations(domain, cliques, jt):
    """ all the ways in which jt fails to be a valid junction tree for (domain, cliques) """
    bad = []
    tree = jt.tree
    nodes = list(tree.nodes())
    sets = [set(n) for n in nodes]
    if len(set(map(frozenset, nodes))) != len(nodes):
        bad.append('duplicate nodes')
    for cl in cliques:
        if not any(set(cl) <= s for s in sets):
            bad.append('input clique %s is in no node' % (tuple(cl),))
    for a in domain.attrs:
        if not any(a in s for s in sets):
            bad.append('attribute %s appears in no node' % a)
    for i, j in itertools.permutations(range(len(nodes)), 2):
        if sets[i] <= sets[j]:
            bad.append('node %s is contained in node %s' % (nodes[i], nodes[j]))
    if tree.number_of_edges() != len(nodes) - 1 or not nx.is_connected(tree):
        bad.append('not a tree: %d nodes, %d edges' % (len(nodes), tree.number_of_edges()))
    for a in domain.attrs:
        having = [n for n in nodes if a in n]
        if having and not nx.is_connected(tree.subgraph(having)):
            bad.append('nodes containing %s are not connected in the tree: %s' % (a, sorted(having)))
    # observers
    if sorted(jt.maximal_cliques()) != sorted(nodes):
        bad.append('maximal_cliques() differs from the tree nodes')
    nb = jt.neighbors()
    if {n: set(tree.neighbors(n)) for n in nodes} != nb:
        bad.append('neighbors() differs from the tree adjacency')
    # schedule
    sched = jt.mp_order()
    want = sorted([(a, b) for a, b in tree.edges()] + [(b, a) for a, b in tree.edges()])
    if sorted(sched) != want:
        bad.append('schedule does not list each direction of each edge exactly once')
    pos = {m: k for k, m in enumerate(sched)}
    for (i, j) in sched:
        for k in tree.neighbors(i):
            if k != j and pos.get((k, i), 10**9) > pos[(i, j)]:
                bad.append('message %s->%s is scheduled before %s->%s' % (i, j, k, i))
    sep = jt.separator_axes()
    if {m: frozenset(v) for m, v in sep.items()} != {(i, j): frozenset(set(i) & set(j)) for i, j in sched}:
        bad.append('separator_axes() is wrong')
    return bad


def canon(jt):
    nodes = sorted(jt.tree.nodes())
    edges = sorted(tuple(sorted(e)) for e in jt.tree.edges())
    return repr((list(jt.elimination_order), nodes, edges))


failures = []
nfail = [0]
bpfail = []
digest = hashlib.sha256()
ncases = 0

def shape_of(jt):
    """ degree sequence and diameter of the junction tree: identifies its shape """
    degs = sorted(d for _, d in jt.tree.degree())
    return degs, (nx.diameter(jt.tree) if jt.tree.number_of_nodes() > 1 else 0)

def run(label, domain, cliques, order, bp=False):
    global ncases
    ncases += 1
    jt = JunctionTree(domain, cliques, order)
    digest.update((label + ' ' + canon(jt) + '\n').encode())
    bad = violations(domain, cliques, jt)
    if bad:
        nfail[0] += 1
        if len(failures) < 3:
            failures.append((label, [tuple(c) for c in cliques], shape_of(jt), bad))
    if bp:
        # marginals from belief propagation along the schedule vs. brute force
        model = GraphicalModel(domain, cliques, total=10.0, elimination_order=order)
        state = np.random.RandomState(len(label) + len(cliques))
        pot = {cl: Factor(domain.project(cl), state.rand(*domain.project(cl).shape)) for cl in model.cliques}
        model.potentials = CliqueVector(pot)
        mu = model.belief_propagation(model.potentials)
        logp = sum(pot.values())
        dist = (logp - logp.logsumexp()).exp() * model.total
        err = max(float(np.abs(mu[cl].values - dist.project(cl).values).max()) for cl in model.cliques)
        ok = err < 1e-8
        digest.update(('bp %s %s\n' % (label, ok)).encode())
        if not ok:
            bpfail.append((label, err))
    return not bad

letters = 'abcdefghijklmnop'
sizes = [2, 3, 4, 5, 6, 2, 3, 4, 5, 6, 2, 3, 4, 5, 6, 2]
np.random.seed(0)

# 1. shapes used by the unit tests and their longer relatives
dom4 = Domain(list('abcd'), [2, 3, 4, 5])
run('unit/chain3', dom4, [('a','b'), ('b','c'), ('c','d')], None, bp=True)
dom5 = Domain(list('abcde'), [2, 3, 4, 5, 6])
run('unit/singletons', dom5, [('a',), ('b',), ('c',), ('d',)], None, bp=True)
run('unit/singletons+ab', dom5, [('a',), ('b',), ('c',), ('d',), ('a','b')], None, bp=True)
for n in range(3, 11):
    at = list(letters[:n])
    dom = Domain(at, ([2, 3] * 8)[:n])
    chain = [(at[i], at[i+1]) for i in range(n - 1)]
    run('chain%d/None' % n, dom, chain, None, bp=True)
    run('chain%d/reverse' % n, dom, chain, at[::-1], bp=True)
    star = [(at[0], x) for x in at[1:]]
    run('star%d/None' % n, dom, star, None, bp=True)
    run('star%d/hubfirst' % n, dom, star, list(at), bp=True)

# 2. branching trees whose branches have different depths
def named(name, cliques):
    at = sorted(set(x for cl in cliques for x in cl))
    dom = Domain(at, ([2, 3, 2, 2, 3, 2, 2, 2, 3, 2, 2, 2])[:len(at)])
    for oname, order in [('None', None), ('fwd', list(at)), ('rev', list(at[::-1])), ('int', 3)]:
        run('%s/%s' % (name, oname), dom, cliques, order, bp=True)

named('spider-1-2-3', [('a','b','c'), ('a','d'), ('b','e'), ('e','f'), ('c','g'), ('g','h'), ('h','i')])
named('spider-1-1-3', [('a','b','c'), ('a','d'), ('b','e'), ('c','g'), ('g','h'), ('h','i')])
named('spider-edge', [('a','b'), ('a','c'), ('a','d'), ('b','e'), ('e','f'), ('f','g'), ('c','h')])
named('caterpillar', [('a','b'), ('b','c'), ('c','d'), ('d','e'), ('e','f'), ('b','g'), ('c','h'), ('d','i'), ('e','j')])
named('binary', [('a','b'), ('a','c'), ('b','d'), ('b','e'), ('c','f'), ('c','g'), ('d','h'), ('g','i')])
named('two-hubs', [('a','b','c'), ('a','d'), ('b','e'), ('c','f','g'), ('f','h'), ('g','i'), ('i','j')])
named('triangles', [('a','b','c'), ('b','c','d'), ('c','d','e'), ('d','e','f'), ('c','g'), ('g','h'), ('e','i')])

# 3. all labelled graphs on <= 4 attributes, all orders (+ default, + int)
for n in range(1, 5):
    attrs = list(letters[:n])
    dom = Domain(attrs, sizes[:n])
    pairs = list(itertools.combinations(attrs, 2))
    for mask in range(2 ** len(pairs)):
        cliques = [p for k, p in enumerate(pairs) if mask >> k & 1]
        for order in itertools.permutations(attrs):
            run('lab%d/%d/%s' % (n, mask, ''.join(order)), dom, cliques, list(order))
        run('lab%d/%d/None' % (n, mask), dom, cliques, None)
        run('lab%d/%d/int' % (n, mask), dom, cliques, 2)

# 4. all graphs on 5 attributes up to isomorphism, all 120 orders
attrs = list(letters[:5])
dom = Domain(attrs, sizes[:5])
atlas = [g for g in nx.graph_atlas_g() if g.number_of_nodes() == 5]
assert len(atlas) == 34
for gi, g in enumerate(atlas):
    cliques = [(attrs[u], attrs[v]) for u, v in g.edges()]
    for order in itertools.permutations(attrs):
        run('iso5/%d/%s' % (gi, ''.join(order)), dom, cliques, list(order))
    run('iso5/%d/None' % gi, dom, cliques, None)
    run('iso5/%d/int' % gi, dom, cliques, 3)

# 5. random larger clique sets, random permutations / default / int
rng = np.random.RandomState(12)
np.random.seed(12)
for t in range(150):
    n = rng.randint(6, 13)
    at = list(letters[:n])
    dom = Domain(at, [int(s) for s in rng.randint(2, 7, size=n)])
    cl = []
    for _ in range(rng.randint(n - 2, 2 * n)):
        k = rng.choice([1, 2, 2, 2, 3, 3, 4])
        cl.append(tuple(rng.choice(at, size=k, replace=False)))
    run('rand%d/perm' % t, dom, cl, list(rng.permutation(at)))
    run('rand%d/None' % t, dom, cl, None)
    run('rand%d/int' % t, dom, cl, 3)

if failures or bpfail:
    print('FAIL: %d junction trees built, %d of them have an invalid tree or message schedule;'
          ' belief propagation gives wrong marginals in %d of the named models.' % (ncases, nfail[0], len(bpfail)))
    for label, cl, shape, bad in failures:
        print('  case', label)
        print('    cliques                       :', cl)
        print('    tree degree sequence, diameter:', shape)
        for b in bad[:3]:
            print('    VIOLATION                     :', b)
    for label, err in bpfail[:5]:
        print('  belief propagation on %-22s: max abs error of a clique marginal %.3g (total mass 10)' % (label, err))
    print('A message out of a clique with >= 3 neighbours is scheduled after only ONE of the incoming'
          ' messages it depends on; chains and depth-1 stars (all the unit tests use) are unaffected.')
    sys.exit(1)

print('PASS %d junction trees and schedules valid, belief propagation exact on all named models; digest %s' % (ncases, digest.hexdigest()))
sys.exit(0)

""" C12 / pair 1 -- the clique graph handed to the spanning-tree routine in JunctionTree._make_tree

Checks, for many clique sets and elimination-order modes, that the constructed tree is a valid
junction tree with a valid message schedule, and that belief propagation on it reproduces the
brute-force marginals.  Prints PASS + a digest (exit 0) or FAIL + explanation (exit 1).
"""
import os, sys, itertools, hashlib, warnings
warnings.filterwarnings('ignore')
ROOT = os.path.dirname(os.path.dirname(os.path.dirname(os.path.abspath(__file__))))
sys.path.insert(0, os.path.join(ROOT, 'src'))
import numpy as np
import networkx as nx
from mbi import Domain, Factor, GraphicalModel, CliqueVector
from mbi.junction_tree import JunctionTree
assert os.path.abspath(sys.modules['mbi'].__file__).startswith(ROOT), sys.modules['mbi'].__file__

def check(domain, cliques, jt):
    """ return (list of violated clauses, invariant summary) """
    bad = []
    T = jt.tree
    nodes = jt.maximal_cliques()
    if sorted(nodes) != sorted(T.nodes()): bad.append('maximal_cliques() differs from the tree nodes')
    if len(nodes) > 0 and not nx.is_tree(T): bad.append('not a tree')
    for cl in cliques:
        if not any(set(cl) <= set(n) for n in nodes): bad.append('input clique %s not covered' % (cl,))
    if set(domain.attrs) != set().union(*map(set, nodes)): bad.append('attribute missing')
    for n1, n2 in itertools.permutations(nodes, 2):
        if set(n1) <= set(n2): bad.append('node %s inside %s' % (n1, n2))
    for a in domain.attrs:
        having = [n for n in nodes if a in n]
        if not nx.is_connected(T.subgraph(having)):
            bad.append('running intersection fails for %r: %s' % (a, sorted(having)))
    # message schedule
    order = jt.mp_order()
    want = set(T.edges()) | set((b, a) for a, b in T.edges())
    if len(order) != len(set(order)) or set(order) != want: bad.append('schedule is not each direction once')
    pos = { m : k for k, m in enumerate(order) }
    for (i, j) in order:
        for k in T.neighbors(i):
            if k != j and pos.get((k, i), 1e9) > pos[(i, j)]: bad.append('message sent too early')
    sep = jt.separator_axes()
    for (i, j) in order:
        if set(sep[(i, j)]) != set(i) & set(j): bad.append('wrong separator')
    nb = jt.neighbors()
    if any(nb[n] != set(T.neighbors(n)) for n in nodes): bad.append('neighbors() differs from the tree')
    weight = sum(len(set(i) & set(j)) for i, j in T.edges())
    return bad, (sorted(nodes), weight, len(order))

def bp_error(domain, cliques, seed):
    """ largest gap between belief-propagation marginals and brute-force ones """
    prng = np.random.RandomState(seed)
    model = GraphicalModel(domain, cliques)
    pots = { cl : Factor(domain.project(cl), prng.normal(size=domain.project(cl).shape)) for cl in model.cliques }
    mu = model.belief_propagation(CliqueVector(pots))
    joint = sum(pots.values(), Factor.zeros(domain)).exp()
    joint = joint * (model.total / joint.sum())
    return max(np.abs(mu[cl].datavector() - joint.project(cl).datavector()).max() for cl in model.cliques)

failures, digest, count = [], hashlib.sha256(), 0

def run(label, domain, cliques, order):
    global count
    np.random.seed(count % 97)
    jt = JunctionTree(domain, cliques, order)
    bad, summary = check(domain, cliques, jt)
    count += 1
    digest.update(repr((label, summary)).encode())
    if bad: failures.append((label, sorted(set(bad))[:2]))

# 1. every labelled graph on <= 4 attributes (edges as cliques), every elimination order + None + int
for n in range(1, 5):
    attrs = 'abcd'[:n]
    dom = Domain(list(attrs), [2, 3, 2, 3][:n])
    pairs = list(itertools.combinations(attrs, 2))
    for mask in range(2 ** len(pairs)):
        cl = [p for k, p in enumerate(pairs) if mask >> k & 1]
        for order in [None, 2] + [list(p) for p in itertools.permutations(attrs)]:
            run('g%d/%d/%s' % (n, mask, order), dom, cl, order)

# 2. every labelled graph on 5 attributes, four order modes
attrs = 'abcde'
dom = Domain(list(attrs), [2, 3, 2, 3, 2])
pairs = list(itertools.combinations(attrs, 2))
for mask in range(2 ** len(pairs)):
    cl = [p for k, p in enumerate(pairs) if mask >> k & 1]
    for order in [None, 1, list('edcba'), list('caebd')]:
        run('g5/%d/%s' % (mask, order), dom, cl, order)

# 3. named cases: chains / fans of larger cliques, disconnected models
named = {
  'chain-of-triples' : ('abcde', [('a','b','c'), ('b','c','d'), ('c','d','e')]),
  'chain-of-pairs'   : ('abcde', [('a','b'), ('b','c'), ('c','d'), ('d','e')]),
  'two-components'   : ('abcdef', [('a','b','c'), ('b','c','d'), ('e','f')]),
  'all-singletons'   : ('abcd', [('a',), ('b',), ('c',), ('d',)]),
  'fan'              : ('abcdef', [('a','b','c'), ('a','b','d'), ('a','e'), ('b','f')]),
  'no-cliques'       : ('abc', []),
}
for name, (attrs, cl) in named.items():
    dom = Domain(list(attrs), ([2, 3] * 3)[:len(attrs)])
    for order in [None, 3, list(attrs), list(attrs)[::-1]]:
        run('%s/%s' % (name, order), dom, cl, order)

# 4. random larger clique sets
prng = np.random.RandomState(0)
for t in range(150):
    n = prng.randint(6, 10)
    attrs = [chr(ord('a') + k) for k in range(n)]
    dom = Domain(attrs, list(prng.randint(2, 4, size=n)))
    cl = [tuple(prng.choice(attrs, size=prng.randint(1, 4), replace=False)) for _ in range(prng.randint(1, 8))]
    for order in [None, 2, list(prng.permutation(attrs))]:
        run('r%d/%s' % (t, order), dom, cl, order)

# 5. downstream: belief propagation against brute force on a few of the named models
bp = {}
for name in ['chain-of-triples', 'two-components', 'fan']:
    attrs, cl = named[name]
    dom = Domain(list(attrs), ([2, 3] * 3)[:len(attrs)])
    bp[name] = bp_error(dom, cl, seed=7)
    if bp[name] > 1e-8: failures.append(('belief propagation on ' + name, ['marginals off by %.3g' % bp[name]]))

if failures:
    print('FAIL: %d of %d junction trees / models violate the property' % (len(failures), count))
    for label, bad in failures[:8]:
        print('  ', label, '->', '; '.join(bad))
    sys.exit(1)
print('PASS: %d junction trees valid; belief propagation exact on %d models' % (count, len(bp)))
print('digest', digest.hexdigest())

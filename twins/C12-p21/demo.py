import os, sys, itertools, hashlib, random
ROOT = os.path.dirname(os.path.dirname(os.path.dirname(os.path.abspath(__file__))))
sys.path.insert(0, os.path.join(ROOT, 'src'))
import numpy as np
import networkx as nx
from mbi.domain import Domain
from mbi.junction_tree import JunctionTree

def check(domain, cliques, jt):
    """ return a list of violated clauses of the junction tree property """
    bad = []
    nodes = jt.maximal_cliques()
    tree = jt.tree
    if set(nodes) != set(tree.nodes()): bad.append('maximal_cliques != tree nodes')
    if len(nodes) == 0 or not nx.is_tree(tree): bad.append('not a tree')
    for cl in cliques:
        if not any(set(cl) <= set(n) for n in nodes): bad.append('clique %s not covered' % (cl,))
    for a in domain.attrs:
        holders = [n for n in nodes if a in n]
        if not holders: bad.append('attribute %s in no node' % a)
        elif not nx.is_connected(tree.subgraph(holders)): bad.append('running intersection fails for %s' % a)
    for n, m in itertools.permutations(nodes, 2):
        if set(n) <= set(m): bad.append('node %s inside %s' % (n, m))
    sched = jt.mp_order()
    want = set(tree.edges()) | {(b, a) for a, b in tree.edges()}
    if len(sched) != len(set(sched)) or set(sched) != want: bad.append('schedule is not each direction once')
    pos = {m: k for k, m in enumerate(sched)}
    for (i, j) in sched:
        for k in tree.neighbors(i):
            if k != j and pos.get((k, i), 1e9) > pos[(i, j)]: bad.append('message %s before %s' % ((i, j), (k, i)))
    if set(jt.neighbors()) != set(nodes): bad.append('neighbors() keys')
    return bad

def cases():
    rng = random.Random(12)
    out = []
    A = ['a', 'b', 'c', 'd', 'e']
    dom = Domain(A, [2, 3, 4, 5, 6])
    out.append(('chain', dom, [('a', 'b'), ('b', 'c'), ('c', 'd'), ('d', 'e')]))
    out.append(('cycle5', dom, [('a', 'b'), ('b', 'c'), ('c', 'd'), ('d', 'e'), ('e', 'a')]))
    out.append(('singleton-clique', dom, [('a', 'b'), ('c', 'd'), ('e',)]))
    out.append(('two-components', dom, [('a', 'b', 'c'), ('d', 'e')]))
    # attributes of the domain that occur in NO clique (e.g. mst / aim before a column is measured)
    out.append(('uncovered-e', dom, [('a', 'b'), ('b', 'c'), ('c', 'd')]))
    out.append(('uncovered-c-e', dom, [('a', 'b'), ('b', 'd'), ('d', 'a')]))
    out.append(('no-cliques', dom, []))
    # cliques of four and five attributes: a ring through them is not the complete graph
    out.append(('four-clique', dom, [('a', 'b', 'c', 'd'), ('d', 'e')]))
    out.append(('five-clique', dom, [('a', 'b', 'c', 'd', 'e')]))
    out.append(('four-clique-unordered', dom, [('c', 'a', 'd', 'b'), ('b', 'e'), ('e', 'c')]))
    for t in range(25):
        n = rng.randint(3, 8)
        attrs = ['x%d' % i for i in range(n)]
        rng.shuffle(attrs)
        d = Domain(attrs, [rng.randint(1, 4) for _ in attrs])
        cl = [tuple(rng.sample(attrs, rng.randint(1, min(3 + t % 3, n)))) for _ in range(rng.randint(0, n))]
        out.append(('random%d' % t, d, cl))
    return out

def main():
    failures, lines = [], []
    for name, dom, cliques in cases():
        perm = list(dom.attrs); random.Random(len(cliques)).shuffle(perm)
        for mode, order in [('default', None), ('perm', perm), ('int', 3)]:
            np.random.seed(0)
            try:
                jt = JunctionTree(dom, cliques, elimination_order=order)
                bad = check(dom, cliques, jt)
                desc = '%s | %s' % (sorted(jt.tree.nodes()), sorted(tuple(sorted(e)) for e in jt.tree.edges()))
            except Exception as e:
                bad = ['construction raised %s: %s' % (type(e).__name__, e)]
                desc = 'ERROR'
            lines.append('%s/%s: %s' % (name, mode, desc))
            if bad:
                failures.append('%s/%s cliques=%s: %s' % (name, mode, cliques, '; '.join(bad[:3])))
    if failures:
        print('FAIL: %d of %d junction trees are invalid' % (len(failures), len(lines)))
        for f in failures[:12]:
            print('  ' + f)
        sys.exit(1)
    print('PASS: %d junction trees valid' % len(lines))
    print('digest', hashlib.sha256('\n'.join(lines).encode()).hexdigest())

if __name__ == '__main__':
    main()

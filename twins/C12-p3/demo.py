"""Pair 1 demo: the junction tree must be valid for EVERY way an elimination order can be handed in.

Site: JunctionTree._make_tree (src/mbi/junction_tree.py), the two lines that store the
elimination order and triangulate with it.

The constructor iterates the given order exactly once (`for node in order` in _triangulated), so
besides lists / tuples it has always tolerated one-shot iterables: reversed(attrs), iter(perm),
generator expressions, map objects.  This program builds junction trees for cyclic graphs (which
need fill-in) under all order modes {None, int, permutation} with the permutation handed in as
list, tuple, numpy array, dict view, reversed(), iter(), generator and map object, and checks every
clause of the property on the result.

exit 0 + PASS + digest : every tree is a valid junction tree with a valid schedule
exit 1 + FAIL          : some tree is not
"""
import os, sys

if os.environ.get('PYTHONHASHSEED') != '0':
    # mp_order() goes through a set of tuples of strings: pin the hash seed so that the
    # printed schedules are reproducible byte for byte
    env = dict(os.environ, PYTHONHASHSEED='0')
    os.execve(sys.executable, [sys.executable] + sys.argv, env)

ROOT = os.path.dirname(os.path.dirname(os.path.dirname(os.path.abspath(__file__))))
sys.path.insert(0, os.path.join(ROOT, 'src'))

import hashlib
import itertools
import numpy as np
import networkx as nx
import mbi
from mbi import Domain
from mbi.junction_tree import JunctionTree

assert os.path.abspath(mbi.__file__).startswith(ROOT + os.sep), mbi.__file__


def violations(jt, domain, cliques):
    """ every clause of property C12, returns a list of human readable violations """
    bad = []
    tree = jt.tree
    nodes = list(tree.nodes())
    if sorted(jt.maximal_cliques()) != sorted(nodes):
        bad.append('maximal_cliques() is not the node set of the tree')
    if len(nodes) == 0 or not nx.is_tree(tree):
        bad.append('not a tree: %d nodes, %d edges' % (len(nodes), tree.number_of_edges()))
    for cl in cliques:
        if not any(set(cl) <= set(n) for n in nodes):
            bad.append('input clique %s is in no node' % (tuple(cl),))
    for a in domain.attrs:
        if not any(a in n for n in nodes):
            bad.append('attribute %s appears in no node' % a)
    for n1, n2 in itertools.permutations(nodes, 2):
        if set(n1) <= set(n2):
            bad.append('node %s is contained in node %s' % (n1, n2))
    for a in domain.attrs:
        holders = [n for n in nodes if a in n]
        if holders and not nx.is_connected(tree.subgraph(holders)):
            bad.append('running intersection fails for %s: nodes %s are not a connected subtree'
                       % (a, sorted(holders)))
    # schedule
    sched = jt.mp_order()
    want = set(tree.edges()) | set((b, a) for a, b in tree.edges())
    if len(sched) != len(set(sched)) or set(sched) != want:
        bad.append('schedule is not "each direction of each edge once": %d messages for %d edges'
                   % (len(sched), tree.number_of_edges()))
    pos = {m: k for k, m in enumerate(sched)}
    for (b, c) in sched:
        for a in tree.neighbors(b):
            if a != c and pos.get((a, b), len(sched)) > pos[(b, c)]:
                bad.append('message %s->%s is scheduled before %s->%s' % (b, c, a, b))
    sep = jt.separator_axes()
    if set(sep) != want or any(set(v) != set(i) & set(j) or len(v) != len(set(v))
                               for (i, j), v in sep.items()):
        bad.append('separator_axes() disagrees with the tree')
    if jt.neighbors() != {n: set(tree.neighbors(n)) for n in nodes}:
        bad.append('neighbors() disagrees with the tree')
    return bad


def graphs():
    rng = np.random.RandomState(20240612)
    out = []
    def cyc(n):
        at = [chr(ord('a') + i) for i in range(n)]
        return at, [(at[i], at[(i + 1) % n]) for i in range(n)]
    out.append(('chain4',) + (list('abcd'), [('a', 'b'), ('b', 'c'), ('c', 'd')]))
    for n in (4, 5, 6):
        out.append(('cycle%d' % n,) + cyc(n))
    at = ['x%d%d' % (i, j) for i in range(3) for j in range(3)]
    gr = [('x%d%d' % (i, j), 'x%d%d' % (i, j + 1)) for i in range(3) for j in range(2)]
    gr += [('x%d%d' % (i, j), 'x%d%d' % (i + 1, j)) for i in range(2) for j in range(3)]
    out.append(('grid3x3', at, gr))
    at = list('abcdefg')
    out.append(('mixed7', at, [('a', 'b', 'c'), ('c', 'd'), ('d', 'e', 'f'), ('f', 'a'), ('g',)]))
    for k in range(3):
        n = 8
        at = ['v%d' % i for i in range(n)]
        cl = []
        for _ in range(7):
            size = rng.randint(2, 4)
            cl.append(tuple(at[i] for i in sorted(rng.choice(n, size, replace=False))))
        out.append(('random8_%d' % k, at, cl))
    return out, rng


def order_forms(perm):
    """ the same permutation, handed over in every shape the constructor tolerates """
    perm = list(perm)
    yield 'list', (lambda: list(perm)), True
    yield 'tuple', (lambda: tuple(perm)), True
    yield 'ndarray', (lambda: np.array(perm)), True
    yield 'dict-keys', (lambda: dict.fromkeys(perm).keys()), True
    yield 'iter(list)', (lambda: iter(perm)), False
    yield 'reversed(list)', (lambda: reversed(perm[::-1])), False
    yield 'generator', (lambda: (a for a in perm)), False
    yield 'map', (lambda: map(str, perm)), False


def main():
    lines, failures, ncases = [], [], 0
    gs, rng = graphs()
    for name, attrs, cliques in gs:
        shape = [int(s) for s in rng.randint(2, 5, size=len(attrs))]
        domain = Domain(attrs, shape)
        perms = [list(attrs), list(attrs)[::-1]] + [[attrs[i] for i in rng.permutation(len(attrs))] for _ in range(3)]
        cases = [('order=None', (lambda: None), True), ('order=0', (lambda: 0), True), ('order=4', (lambda: 4), True)]
        for p, perm in enumerate(perms):
            for form, make, reiterable in order_forms(perm):
                cases.append(('perm%d as %s' % (p, form), make, reiterable))
        for label, make, reiterable in cases:
            np.random.seed(7)
            jt = JunctionTree(domain, cliques, make())
            bad = violations(jt, domain, cliques)
            tag = '%s / %s' % (name, label)
            ncases += 1
            lines.append(tag)
            lines.append('   nodes    %s' % sorted(jt.tree.nodes()))
            lines.append('   edges    %s' % sorted(tuple(sorted(e)) for e in jt.tree.edges()))
            lines.append('   dfs      %s' % jt.maximal_cliques())
            lines.append('   schedule %s' % jt.mp_order())
            if reiterable:
                lines.append('   order    %s' % [str(a) for a in jt.elimination_order])
            lines.append('   valid    %s' % (not bad))
            if bad:
                failures.append((tag, bad))

    if failures:
        print('FAIL: %d of %d junction trees violate property C12' % (len(failures), ncases))
        for tag, bad in failures[:12]:
            print(' *', tag)
            for b in bad[:3]:
                print('      -', b)
        print('Every failing case hands the elimination order over as a one-shot iterable; the order')
        print('was consumed before the triangulation ran, so no fill-in edge was added and the maximal')
        print('cliques of the non-chordal graph were joined into a tree without running intersection.')
        return 1
    print('PASS')
    for l in lines:
        print(l)
    print('sha256', hashlib.sha256('\n'.join(lines).encode()).hexdigest())
    return 0


if __name__ == '__main__':
    sys.exit(main())

"""Pair 2 demo: the message schedule must list each direction of each tree edge exactly once.

Site: JunctionTree.mp_order (src/mbi/junction_tree.py), construction of the dependency DiGraph
that is topologically sorted.

A message only shows up in a dependency pair if the tree has a third node: in a tree with exactly
TWO nodes the messages A->B and B->A neither wait for anything nor are waited for.  This program
builds junction trees with 1, 2, 3 and more nodes (two-node trees arise from a chain of three
attributes, from a 4-cycle after fill-in, from two unrelated cliques, from one clique plus an
unmeasured attribute, ...) under the order modes None / permutation / int, checks every clause of
the property, and - for the models small enough to enumerate - compares the marginals computed by
GraphicalModel.belief_propagation (which just walks the schedule) with brute force.

exit 0 + PASS + digest : every tree is a valid junction tree with a valid, complete schedule
exit 1 + FAIL          : some schedule is incomplete / out of order
"""
import os, sys

if os.environ.get('PYTHONHASHSEED') != '0':
    # mp_order() goes through a set of tuples of strings: pin the hash seed so that the
    # printed schedules are reproducible byte for byte
    env = dict(os.environ, PYTHONHASHSEED='0')
    os.execve(sys.executable, [sys.executable] + sys.argv, env)

ROOT = os.path.dirname(os.path.dirname(os.path.dirname(os.path.abspath(__file__))))
sys.path.insert(0, os.path.join(ROOT, 'src'))

import hashlib
import itertools
import numpy as np
import networkx as nx
import mbi
from mbi import Domain, Factor, GraphicalModel, CliqueVector
from mbi.junction_tree import JunctionTree

assert os.path.abspath(mbi.__file__).startswith(ROOT + os.sep), mbi.__file__


def violations(jt, domain, cliques):
    """ every clause of property C12, returns a list of human readable violations """
    bad = []
    tree = jt.tree
    nodes = list(tree.nodes())
    if sorted(jt.maximal_cliques()) != sorted(nodes):
        bad.append('maximal_cliques() is not the node set of the tree')
    if len(nodes) == 0 or not nx.is_tree(tree):
        bad.append('not a tree: %d nodes, %d edges' % (len(nodes), tree.number_of_edges()))
    for cl in cliques:
        if not any(set(cl) <= set(n) for n in nodes):
            bad.append('input clique %s is in no node' % (tuple(cl),))
    for a in domain.attrs:
        if not any(a in n for n in nodes):
            bad.append('attribute %s appears in no node' % a)
    for n1, n2 in itertools.permutations(nodes, 2):
        if set(n1) <= set(n2):
            bad.append('node %s is contained in node %s' % (n1, n2))
    for a in domain.attrs:
        holders = [n for n in nodes if a in n]
        if holders and not nx.is_connected(tree.subgraph(holders)):
            bad.append('running intersection fails for %s' % a)
    # schedule
    sched = jt.mp_order()
    want = set(tree.edges()) | set((b, a) for a, b in tree.edges())
    if len(sched) != len(set(sched)) or set(sched) != want:
        bad.append('schedule has %d messages, the tree has %d edges = %d directed messages; missing: %s'
                   % (len(sched), tree.number_of_edges(), len(want), sorted(want - set(sched))))
    pos = {m: k for k, m in enumerate(sched)}
    for (b, c) in sched:
        for a in tree.neighbors(b):
            if a != c and pos.get((a, b), len(sched)) > pos[(b, c)]:
                bad.append('message %s->%s is scheduled before %s->%s' % (b, c, a, b))
    sep = jt.separator_axes()
    if set(sep) != want or any(set(v) != set(i) & set(j) or len(v) != len(set(v))
                               for (i, j), v in sep.items()):
        bad.append('separator_axes() does not have one entry i&j per directed message')
    if jt.neighbors() != {n: set(tree.neighbors(n)) for n in nodes}:
        bad.append('neighbors() disagrees with the tree')
    return bad


def bp_error(domain, cliques, order, rng):
    """ max abs difference between belief-propagation marginals and brute-force marginals """
    model = GraphicalModel(domain, cliques, total=1.0, elimination_order=order)
    pot = {cl: Factor(domain.project(cl), rng.normal(size=domain.project(cl).shape))
           for cl in model.cliques}
    model.potentials = CliqueVector(pot)
    marg = model.belief_propagation(model.potentials)
    full = model.datavector(flatten=False)
    err = 0.0
    for cl in model.cliques:
        axes = tuple(i for i, a in enumerate(domain.attrs) if a not in cl)
        truth = full.sum(axis=axes)
        got = marg[cl].transpose(domain.canonical(cl)).datavector(flatten=False)
        err = max(err, float(np.abs(truth - got).max()))
    return err


def models():
    out = []
    # (name, attrs, shape, cliques, orders)
    out.append(('single-attribute', ['a'], [3], [('a',)], [None, ['a'], 2]))
    out.append(('one-clique', list('abc'), [2, 3, 2], [('a', 'b', 'c')], [None, list('cab'), 2]))
    out.append(('triangle-from-pairs', list('abc'), [2, 3, 2], [('a', 'b'), ('b', 'c'), ('a', 'c')], [None, 1]))
    out.append(('chain3', list('abc'), [2, 3, 4], [('a', 'b'), ('b', 'c')], [None, list('abc'), list('bca'), 3]))
    out.append(('two-unrelated-cliques', list('abcd'), [2, 3, 2, 3], [('a', 'b'), ('c', 'd')], [None, list('dcba'), 2]))
    out.append(('clique+unmeasured-attribute', list('abc'), [2, 3, 4], [('a', 'b')], [None, list('cba'), 2]))
    out.append(('two-unmeasured-attributes', list('ab'), [2, 1], [], [None, list('ba'), 1]))
    out.append(('size-1-attribute', list('abc'), [1, 3, 1], [('a', 'b'), ('b', 'c')], [None, list('cab')]))
    out.append(('cycle4 (two triangles after fill-in)', list('abcd'), [2, 3, 2, 3],
                [('a', 'b'), ('b', 'c'), ('c', 'd'), ('d', 'a')], [None, list('abcd'), list('bcda'), 3]))
    out.append(('two-overlapping-triples', list('abcd'), [2, 2, 3, 2], [('a', 'b', 'c'), ('b', 'c', 'd')], [None, list('dabc'), 2]))
    out.append(('chain4', list('abcd'), [2, 3, 4, 5], [('a', 'b'), ('b', 'c'), ('c', 'd')], [None, list('bcad'), 2]))
    out.append(('star5', list('abcde'), [2, 3, 2, 3, 2], [('a', 'b'), ('a', 'c'), ('a', 'd'), ('a', 'e')], [None, list('edcba'), list('abcde'), 2]))
    out.append(('cycle5', list('abcde'), [2, 3, 2, 3, 2], [('a', 'b'), ('b', 'c'), ('c', 'd'), ('d', 'e'), ('e', 'a')], [None, list('abcde'), list('cedab'), 3]))
    out.append(('cycle6', list('abcdef'), [2] * 6, [('a', 'b'), ('b', 'c'), ('c', 'd'), ('d', 'e'), ('e', 'f'), ('f', 'a')], [None, list('fedcba'), 3]))
    out.append(('mixed7', list('abcdefg'), [2, 3, 2, 2, 3, 2, 2], [('a', 'b', 'c'), ('c', 'd'), ('d', 'e', 'f'), ('f', 'a'), ('g',)], [None, list('gfedcba'), 3]))
    return out


def main():
    lines, failures, ncases = [], [], 0
    rng = np.random.RandomState(1234)
    for name, attrs, shape, cliques, orders in models():
        domain = Domain(attrs, shape)
        for order in orders:
            np.random.seed(11)
            jt = JunctionTree(domain, cliques, order)
            bad = violations(jt, domain, cliques)
            np.random.seed(11)
            err = bp_error(domain, cliques, order, rng)
            if err > 1e-9:
                bad.append('belief propagation along this schedule gives wrong marginals (max abs error %.3g)' % err)
            ncases += 1
            tag = '%s / order=%s' % (name, order if order is None or type(order) is int else ''.join(order))
            lines.append(tag)
            lines.append('   nodes     %s' % sorted(jt.tree.nodes()))
            lines.append('   edges     %s' % sorted(tuple(sorted(e)) for e in jt.tree.edges()))
            lines.append('   schedule  %s' % jt.mp_order())
            lines.append('   separator %s' % [(i, j, tuple(sorted(v))) for (i, j), v in jt.separator_axes().items()])
            lines.append('   neighbors %s' % sorted((k, sorted(v)) for k, v in jt.neighbors().items()))
            lines.append('   bp-exact  %s' % (err <= 1e-9))
            lines.append('   valid     %s' % (not bad))
            if bad:
                failures.append((tag, len(jt.tree), bad))

    if failures:
        print('FAIL: %d of %d junction trees violate property C12' % (len(failures), ncases))
        for tag, n, bad in failures:
            print(' * %s   [%d-node tree]' % (tag, n))
            for b in bad[:4]:
                print('      -', b)
        print('All failing trees have exactly two nodes: their two messages take part in no dependency')
        print('pair, so a dependency graph that is built from the pairs alone never contains them and')
        print('the schedule comes out empty - no message is ever passed between the two cliques.')
        return 1
    print('PASS')
    for l in lines:
        print(l)
    print('sha256', hashlib.sha256('\n'.join(lines).encode()).hexdigest())
    return 0


if __name__ == '__main__':
    sys.exit(main())

#!/usr/bin/env python
"""C12 / pair 2 -- reading the maximal cliques off the elimination order
(JunctionTree._elimination_cliques, called from JunctionTree._make_tree).

Builds junction trees for many (domain, cliques, elimination order) inputs and checks every clause
of property C12 on each of them.  Special attention goes to elimination orders in which a node whose
elimination clique is NOT maximal is eliminated later than, but not directly after, the node whose
clique contains it (e.g. triangle a-b-c with pendant d-c under the order a, d, b, c): then
"no node of the tree contains another" is at stake.

exit 0 + "PASS <digest>"  when every junction tree is valid
exit 1 + "FAIL ..."       otherwise
"""
import os, sys, itertools, hashlib, collections

ROOT = os.path.dirname(os.path.dirname(os.path.dirname(os.path.abspath(__file__))))
sys.path.insert(0, os.path.join(ROOT, 'src'))

import warnings
warnings.filterwarnings('ignore')
import numpy as np
import networkx as nx
from mbi.domain import Domain
from mbi.junction_tree import JunctionTree
import mbi
assert os.path.abspath(mbi.__file__).startswith(ROOT), 'wrong mbi imported: %s' % mbi.__file__


def violations(jt, domain, cliques):
    """ all clauses of C12, checked through the public observers of JunctionTree """
    bad = []
    tree = jt.tree
    nodes = list(tree.nodes())
    listed = jt.maximal_cliques()
    if len(nodes) == 0:
        bad.append('tree has no node at all')
    elif not nx.is_tree(tree):
        bad.append('tree is not a (connected, acyclic) tree')
    if sorted(listed) != sorted(nodes) or len(set(listed)) != len(listed):
        bad.append('maximal_cliques() differs from the nodes of the tree')
    for cl in cliques:
        if not any(set(cl) <= set(n) for n in listed):
            bad.append('input clique %s is contained in no node' % (tuple(cl),))
    for a in domain.attrs:
        if not any(a in n for n in listed):
            bad.append('attribute %r appears in no node' % (a,))
    for n, m in itertools.permutations(listed, 2):
        if set(n) <= set(m):
            bad.append('node %s is contained in node %s' % (n, m))
    for a in domain.attrs:
        holders = [n for n in nodes if a in n]
        if len(holders) > 1 and not nx.is_connected(tree.subgraph(holders)):
            bad.append('nodes containing %r are not connected (running intersection)' % (a,))
    # schedule
    sched = jt.mp_order()
    want = collections.Counter()
    for u, v in tree.edges():
        want[(u, v)] += 1
        want[(v, u)] += 1
    if collections.Counter(sched) != want:
        bad.append('schedule is not "each direction of each edge exactly once"')
    pos = {}
    for k, m in enumerate(sched):
        pos.setdefault(m, k)
    for (i, j) in sched:
        if i in tree:
            for h in tree.neighbors(i):
                if h != j and pos.get((h, i), len(sched)) > pos[(i, j)]:
                    bad.append('message %s->%s scheduled before %s->%s' % (i, j, h, i))
    sep = jt.separator_axes()
    if set(sep) != set(sched):
        bad.append('separator_axes() keys differ from the schedule')
    for (i, j), s in sep.items():
        if set(s) != set(i) & set(j) or len(s) != len(set(s)):
            bad.append('separator of %s,%s is %s' % (i, j, s))
    nb = jt.neighbors()
    if {k: set(v) for k, v in nb.items()} != {n: set(tree.neighbors(n)) for n in nodes}:
        bad.append('neighbors() differs from the adjacency of the tree')
    return bad


def fingerprint(jt):
    """ deterministic, hash-seed independent description of what was built """
    edges = sorted(tuple(sorted(e)) for e in jt.tree.edges())
    sep = sorted((k, tuple(sorted(v))) for k, v in jt.separator_axes().items())
    nb = sorted((k, sorted(v)) for k, v in jt.neighbors().items())
    return repr((jt.maximal_cliques(), edges, sorted(jt.mp_order()), sep, nb, list(jt.elimination_order)))


def cases():
    # --- hand picked -----------------------------------------------------------------------
    d1 = Domain(['x'], [7])
    yield 'one attribute, no clique', d1, [], None
    yield 'one attribute, its own clique', d1, [('x',)], None
    d3 = Domain(['a', 'b', 'c'], [2, 3, 4])
    yield 'single clique covering the domain', d3, [('a', 'b', 'c')], None
    yield 'single clique, given order', d3, [('c', 'a', 'b')], ['b', 'c', 'a']
    yield 'single clique, randomised order', d3, [('a', 'b', 'c')], 4
    yield 'triangle given as pairs', d3, [('a', 'b'), ('b', 'c'), ('a', 'c')], None
    yield 'nested cliques', d3, [('a', 'b', 'c'), ('a', 'b'), ('c',)], None
    yield 'two attributes one pair', Domain(['p', 'q'], [5, 1]), [('q', 'p')], None
    d4 = Domain(['d', 'c', 'b', 'a'], [2, 3, 4, 5])   # canonical order is not alphabetical
    yield '4-cycle, default', d4, [('a', 'b'), ('b', 'c'), ('c', 'd'), ('d', 'a')], None
    yield '4-cycle, order eliminating opposite corners last', d4, [('a', 'b'), ('b', 'c'), ('c', 'd'), ('d', 'a')], ['a', 'c', 'b', 'd']
    yield '4-cycle whose fill-in completes the graph', d4, [('a', 'b'), ('b', 'c'), ('c', 'd'), ('d', 'a'), ('a', 'c')], ['a', 'b', 'c', 'd']
    yield 'triangle + pendant', d4, [('a', 'b', 'c'), ('c', 'd')], ['a', 'd', 'b', 'c']
    yield 'star', d4, [('a', 'b'), ('a', 'c'), ('a', 'd')], ['b', 'a', 'c', 'd']
    yield 'unmeasured attributes', Domain(['a', 'b', 'c', 'd', 'e'], [2, 3, 4, 5, 6]), [('a',), ('b', 'c')], None
    d6 = Domain(list('abcdef'), [2, 3, 2, 4, 1, 3])
    yield '6-cycle, default', d6, [tuple('ab'), tuple('bc'), tuple('cd'), tuple('de'), tuple('ef'), tuple('fa')], None
    yield '6-cycle, given', d6, [tuple('ab'), tuple('bc'), tuple('cd'), tuple('de'), tuple('ef'), tuple('fa')], list('adbecf')
    yield '6-cycle, randomised', d6, [tuple('ab'), tuple('bc'), tuple('cd'), tuple('de'), tuple('ef'), tuple('fa')], 5
    yield 'two triangles sharing an edge + tail', d6, [tuple('abc'), tuple('bcd'), tuple('de'), tuple('f')], list('fbeacd')

    # --- exhaustive: every labelled graph on 4 attributes x every elimination order ----------
    attrs = ['a', 'b', 'c', 'd']
    dom = Domain(attrs, [2, 3, 2, 4])
    pairs = list(itertools.combinations(attrs, 2))
    for mask in range(1 << len(pairs)):
        cl = [p for k, p in enumerate(pairs) if mask >> k & 1]
        yield 'g4/%02d default' % mask, dom, cl, None
        yield 'g4/%02d randomised' % mask, dom, cl, 2
        for perm in itertools.permutations(attrs):
            yield 'g4/%02d %s' % (mask, ''.join(perm)), dom, cl, list(perm)

    # --- every labelled graph on 5 attributes, default order + three fixed permutations --------
    attrs = ['a', 'b', 'c', 'd', 'e']
    dom = Domain(attrs, [3, 2, 2, 4, 2])
    pairs = list(itertools.combinations(attrs, 2))
    perms = [list('edcba'), list('caebd'), list('bdace')]
    for mask in range(1 << len(pairs)):
        cl = [p for k, p in enumerate(pairs) if mask >> k & 1]
        yield 'g5/%04d default' % mask, dom, cl, None
        for perm in perms:
            yield 'g5/%04d %s' % (mask, ''.join(perm)), dom, cl, perm

    # --- random larger clique sets ----------------------------------------------------------------
    rng = np.random.RandomState(12)
    for t in range(60):
        n = rng.randint(6, 10)
        attrs = ['v%d' % i for i in range(n)]
        dom = Domain(attrs, [int(x) for x in rng.randint(1, 5, size=n)])
        k = rng.randint(1, n + 2)
        cl = [tuple(str(a) for a in rng.choice(attrs, size=rng.randint(1, 4), replace=False)) for _ in range(k)]
        mode = t % 3
        if mode == 0:
            order = None
        elif mode == 1:
            order = [str(a) for a in rng.permutation(attrs)]
        else:
            order = 3
        yield 'random/%02d' % t, dom, cl, order


def main():
    h = hashlib.sha256()
    failures = []
    count = 0
    for name, dom, cl, order in cases():
        count += 1
        np.random.seed(1000 + count % 97)
        try:
            jt = JunctionTree(dom, cl, elimination_order=order)
            bad = violations(jt, dom, cl)
            fp = fingerprint(jt)
        except Exception as e:   # a crash is a failure too
            bad = ['raised %s: %s' % (type(e).__name__, e)]
            fp = 'crash'
        h.update(name.encode()); h.update(fp.encode())
        if bad:
            failures.append((name, dom, cl, order, bad))
    if failures:
        print('FAIL: %d of %d junction trees violate property C12' % (len(failures), count))
        for name, dom, cl, order, bad in failures[:8]:
            print('  case %-45s domain=%s cliques=%s order=%s' % (name, dom.attrs, cl, order))
            for b in bad[:3]:
                print('      - ' + b)
        if len(failures) > 8:
            print('  ... and %d more' % (len(failures) - 8))
        sys.exit(1)
    print('PASS: %d junction trees valid; digest %s' % (count, h.hexdigest()))
    sys.exit(0)


if __name__ == '__main__':
    main()

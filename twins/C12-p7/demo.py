"""C12 / pair 1 -- junction trees built one after another in the same process.

Every tree a JunctionTree constructs must be a valid junction tree FOR THE DOMAIN
AND CLIQUES IT WAS GIVEN, no matter which other trees were built before it:
  (1) every input clique is contained in some node,
  (2) every attribute of the domain appears (and no foreign attribute does),
  (3) no node contains another,
  (4) the nodes containing an attribute form a connected subtree,
  (5) the message schedule lists each direction of each tree edge exactly once,
  (6) ... and only after every message it depends on.

The demo builds sequences of trees (default elimination order, explicit orders,
integer "number of random restarts") over families of domains that share their
clique lists, checks every tree, and prints a digest of what was built.
"""
import os, sys, itertools, hashlib, warnings

ROOT = os.path.dirname(os.path.dirname(os.path.dirname(os.path.abspath(__file__))))
sys.path.insert(0, os.path.join(ROOT, 'src'))
warnings.filterwarnings('ignore')

import numpy as np
import networkx as nx
from mbi.domain import Domain
from mbi.junction_tree import JunctionTree
from mbi.graphical_model import GraphicalModel
import mbi
assert os.path.abspath(mbi.__file__).startswith(os.path.join(ROOT, 'src')), mbi.__file__


def violations(domain, cliques, jt):
    """ all the ways in which jt fails to be a valid junction tree for (domain, cliques) """
    bad = []
    nodes = jt.maximal_cliques()
    tree = jt.tree
    if sorted(nodes) != sorted(tree.nodes()) or len(set(nodes)) != len(nodes):
        bad.append('maximal_cliques() %s is not the node set of the tree %s' % (nodes, list(tree.nodes())))
    for cl in cliques:
        if not any(set(cl) <= set(n) for n in nodes):
            bad.append('(1) input clique %s is contained in no node' % (tuple(cl),))
    for a in domain.attrs:
        if not any(a in n for n in nodes):
            bad.append('(2) attribute %r of the domain appears in no node' % (a,))
    for n in nodes:
        for a in n:
            if a not in domain.attrs:
                bad.append('(2) node %s mentions %r, which is not in the domain %s' % (n, a, domain.attrs))
    for n1, n2 in itertools.permutations(nodes, 2):
        if set(n1) <= set(n2):
            bad.append('(3) node %s is contained in node %s' % (n1, n2))
    if len(nodes) > 0 and not nx.is_tree(tree):
        bad.append('the clique graph is not a tree')
    for a in set(itertools.chain(domain.attrs, *nodes)):
        holders = [n for n in tree.nodes() if a in n]
        if holders and not nx.is_connected(tree.subgraph(holders)):
            bad.append('(4) the nodes containing %r are not connected: %s' % (a, holders))
    sched = jt.mp_order()
    want = [(i, j) for i, j in tree.edges()] + [(j, i) for i, j in tree.edges()]
    if sorted(sched) != sorted(want):
        bad.append('(5) schedule %s is not each direction of each edge once' % (sched,))
    pos = {m: k for k, m in enumerate(sched)}
    for (i, j) in sched:
        for k in tree.neighbors(i):
            if k != j and pos.get((k, i), len(sched)) > pos[(i, j)]:
                bad.append('(6) message %s->%s is sent before %s->%s' % (i, j, k, i))
    sep = jt.separator_axes()
    if set(sep) != set(want) or any(set(sep[i, j]) != set(i) & set(j) for i, j in sep):
        bad.append('separator_axes() does not match the tree')
    nb = jt.neighbors()
    if nb != {n: set(tree.neighbors(n)) for n in tree.nodes()}:
        bad.append('neighbors() does not match the tree')
    return bad


LINES = []      # everything that was built (hashed into the digest)
SHOWN = []      # the part of it that is also printed
FAILS = []

def emit(s, show=True):
    LINES.append(s)
    if show:
        SHOWN.append(s)

def record(label, domain, cliques, jt):
    bad = violations(domain, cliques, jt)
    sep = jt.separator_axes()
    emit('%s' % label)
    emit('   domain   %s' % (dict(zip(domain.attrs, domain.shape)),))
    emit('   cliques  %s' % ([tuple(c) for c in cliques],))
    emit('   order    %s' % (list(jt.elimination_order),))
    emit('   nodes    %s' % (jt.maximal_cliques(),))
    emit('   edges    %s' % (list(jt.tree.edges()),))
    emit('   messages %s' % (sorted(jt.mp_order()),))
    emit('   seps     %s' % (sorted((k, tuple(sorted(v))) for k, v in sep.items()),))
    emit('   nbrs     %s' % (sorted((k, sorted(v)) for k, v in jt.neighbors().items()),))
    emit('   valid    %s' % (not bad))
    for b in bad:
        FAILS.append('%s: %s' % (label, b))


def build(label, attrs, shape, cliques, order=None, via_model=False):
    domain = Domain(attrs, shape)
    if via_model:
        try:
            model = GraphicalModel(domain, cliques, elimination_order=order)
            jt = model.junction_tree
            if sorted(model.cliques) != sorted(jt.tree.nodes()):
                FAILS.append('%s: GraphicalModel and its junction tree disagree' % label)
        except Exception as e:
            FAILS.append('%s: GraphicalModel(...) raised %s: %s' % (label, type(e).__name__, e))
            jt = JunctionTree(domain, cliques, order)
    else:
        jt = JunctionTree(domain, cliques, order)
    record(label, domain, cliques, jt)
    return jt


np.random.seed(20261004)

# ---- A. one clique list, a family of domains -------------------------------------------------
# (attribute-selection loops do this: the same few measured marginals, models over
#  different projections of the data; all attributes binary, so every shape is the same)
chain = [('a', 'b'), ('b', 'c')]
build('A1 chain on (a,b,c,d)', 'abcd', (2, 2, 2, 2), chain)
build('A2 chain on (a,b,c,e)', 'abce', (2, 2, 2, 2), chain)
build('A3 chain on (a,b,c,f) via GraphicalModel', 'abcf', (2, 2, 2, 2), chain, via_model=True)
build('A4 chain on (a,b,c,d) again', 'abcd', (2, 2, 2, 2), chain)
build('A5 chain on (d,c,b,a): same names, other canonical order', 'dcba', (2, 2, 2, 2), chain)
build('A6 chain on (a,b,c,d,e)', 'abcde', (2, 2, 2, 2, 2), chain)
build('A7 chain on (a,b,c)', 'abc', (2, 2, 2), chain)

# ---- B. same attributes and cliques, different sizes (the greedy order depends on sizes) -----
cyc = [('a', 'b'), ('b', 'c'), ('c', 'd'), ('d', 'a')]
build('B1 4-cycle, sizes 2,9,2,9', 'abcd', (2, 9, 2, 9), cyc)
build('B2 4-cycle, sizes 9,2,9,2', 'abcd', (9, 2, 9, 2), cyc)
build('B3 4-cycle, sizes 2,9,2,9 again', 'abcd', (2, 9, 2, 9), cyc)
build('B4 4-cycle on (a,b,c,d,x), sizes 2,9,2,9,3', 'abcdx', (2, 9, 2, 9, 3), cyc)
build('B5 4-cycle on (a,b,c,d,y), sizes 2,9,2,9,3', 'abcdy', (2, 9, 2, 9, 3), cyc)

# ---- C. the other order modes, interleaved with the default one ------------------------------
build('C1 4-cycle, explicit order', 'abcd', (2, 9, 2, 9), cyc, order=['a', 'b', 'c', 'd'])
build('C2 4-cycle, default order', 'abcd', (2, 9, 2, 9), cyc)
build('C3 4-cycle, explicit order (tuple)', 'abcd', (2, 9, 2, 9), cyc, order=('b', 'a', 'd', 'c'))
build('C4 4-cycle, 3 random restarts', 'abcd', (2, 9, 2, 9), cyc, order=3)
build('C5 4-cycle on (a,b,c,d,z), 3 random restarts', 'abcdz', (2, 9, 2, 9, 3), cyc, order=3)
build('C6 4-cycle on (a,b,c,d,z), default order', 'abcdz', (2, 9, 2, 9, 3), cyc)

# ---- D. degenerate clique lists over several domains -----------------------------------------
build('D1 no cliques on (p,q)', 'pq', (3, 3), [])
build('D2 no cliques on (r,s)', 'rs', (3, 3), [])
build('D3 one 1-clique on (p,q)', 'pq', (3, 3), [('p',)])
build('D4 one 1-clique on (p,t)', 'pt', (3, 3), [('p',)])
build('D5 empty clique on (u,)', 'u', (4,), [()])
build('D6 empty clique on (v,)', 'v', (4,), [()])

# ---- E. exhaustive: every graph on 4 labelled attributes, over two 5-attribute domains --------
pairs = list(itertools.combinations('abcd', 2))
count = 0
for mask in range(1 << len(pairs)):
    cl = [p for k, p in enumerate(pairs) if mask >> k & 1]
    for attrs in ('abcdg', 'abcdh'):
        domain = Domain(attrs, (2, 3, 2, 3, 2))
        jt = JunctionTree(domain, cl)
        bad = violations(domain, cl, jt)
        count += 1
        for b in bad:
            FAILS.append('E graph %s on %s: %s' % (cl, attrs, b))
        emit('E %02d %s nodes %s edges %s' % (mask, attrs, jt.maximal_cliques(), list(jt.tree.edges())), show=False)
emit('E checked %d trees' % count)

digest = hashlib.sha256('\n'.join(LINES).encode()).hexdigest()
for line in SHOWN:
    print(line)
if FAILS:
    print('FAIL: %d violations of the junction-tree property; the first ones:' % len(FAILS))
    for f in FAILS[:12]:
        print('  -', f)
    print('A tree was handed out that belongs to a different domain: the tree depends on the')
    print('attribute NAMES of the domain (attributes outside every clique become singleton nodes,')
    print('node tuples follow the domain order), not only on the sizes and the cliques.')
    sys.exit(1)
print('PASS digest', digest)
sys.exit(0)

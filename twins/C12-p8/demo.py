"""C12 / pair 2 -- the forms in which the clique collection can be handed over.

`JunctionTree(domain, cliques, order)` / `GraphicalModel(domain, cliques)` only ever
iterate `cliques` (and each clique) once, so the library accepts any iterable of
iterables: lists, tuples, sets, dict views, and also one-shot iterables such as
generator expressions, `itertools.combinations(attrs, 2)`, `map`/`zip`/`filter`
objects.  Whatever the form, the tree must be a valid junction tree for the cliques
that were handed over:
  (1) every input clique is contained in some node,
  (2) every attribute of the domain appears,
  (3) no node contains another,
  (4) the nodes containing an attribute form a connected subtree,
  (5)/(6) the message schedule is complete and respects its dependencies.

The demo passes the SAME clique sets in many forms, under all three order modes,
checks each tree and checks that the form makes no difference.
"""
import os, sys, itertools, hashlib, warnings

ROOT = os.path.dirname(os.path.dirname(os.path.dirname(os.path.abspath(__file__))))
sys.path.insert(0, os.path.join(ROOT, 'src'))
warnings.filterwarnings('ignore')

import numpy as np
import networkx as nx
from mbi.domain import Domain
from mbi.junction_tree import JunctionTree
from mbi.graphical_model import GraphicalModel
import mbi
assert os.path.abspath(mbi.__file__).startswith(os.path.join(ROOT, 'src')), mbi.__file__


def violations(domain, cliques, jt):
    """ all the ways in which jt fails to be a valid junction tree for (domain, cliques) """
    bad = []
    nodes = jt.maximal_cliques()
    tree = jt.tree
    if sorted(nodes) != sorted(tree.nodes()) or len(set(nodes)) != len(nodes):
        bad.append('maximal_cliques() %s is not the node set of the tree %s' % (nodes, list(tree.nodes())))
    for cl in cliques:
        if not any(set(cl) <= set(n) for n in nodes):
            bad.append('(1) input clique %s is contained in no node' % (tuple(cl),))
    for a in domain.attrs:
        if not any(a in n for n in nodes):
            bad.append('(2) attribute %r of the domain appears in no node' % (a,))
    for n in nodes:
        for a in n:
            if a not in domain.attrs:
                bad.append('(2) node %s mentions %r, which is not in the domain %s' % (n, a, domain.attrs))
    for n1, n2 in itertools.permutations(nodes, 2):
        if set(n1) <= set(n2):
            bad.append('(3) node %s is contained in node %s' % (n1, n2))
    if len(nodes) > 0 and not nx.is_tree(tree):
        bad.append('the clique graph is not a tree')
    for a in set(itertools.chain(domain.attrs, *nodes)):
        holders = [n for n in tree.nodes() if a in n]
        if holders and not nx.is_connected(tree.subgraph(holders)):
            bad.append('(4) the nodes containing %r are not connected: %s' % (a, holders))
    sched = jt.mp_order()
    want = [(i, j) for i, j in tree.edges()] + [(j, i) for i, j in tree.edges()]
    if sorted(sched) != sorted(want):
        bad.append('(5) schedule %s is not each direction of each edge once' % (sched,))
    pos = {m: k for k, m in enumerate(sched)}
    for (i, j) in sched:
        for k in tree.neighbors(i):
            if k != j and pos.get((k, i), len(sched)) > pos[(i, j)]:
                bad.append('(6) message %s->%s is sent before %s->%s' % (i, j, k, i))
    sep = jt.separator_axes()
    if set(sep) != set(want) or any(set(sep[i, j]) != set(i) & set(j) for i, j in sep):
        bad.append('separator_axes() does not match the tree')
    nb = jt.neighbors()
    if nb != {n: set(tree.neighbors(n)) for n in tree.nodes()}:
        bad.append('neighbors() does not match the tree')
    return bad


LINES = []      # everything that was built (hashed into the digest)
SHOWN = []      # the part of it that is also printed
FAILS = []

def emit(s, show=True):
    LINES.append(s)
    if show:
        SHOWN.append(s)

def record(label, domain, cliques, jt):
    bad = violations(domain, cliques, jt)
    sep = jt.separator_axes()
    emit('%s' % label)
    emit('   domain   %s' % (dict(zip(domain.attrs, domain.shape)),))
    emit('   cliques  %s' % ([tuple(c) for c in cliques],))
    emit('   order    %s' % (list(jt.elimination_order),))
    emit('   nodes    %s' % (jt.maximal_cliques(),))
    emit('   edges    %s' % (list(jt.tree.edges()),))
    emit('   messages %s' % (sorted(jt.mp_order()),))
    emit('   seps     %s' % (sorted((k, tuple(sorted(v))) for k, v in sep.items()),))
    emit('   nbrs     %s' % (sorted((k, sorted(v)) for k, v in jt.neighbors().items()),))
    emit('   valid    %s' % (not bad))
    for b in bad:
        FAILS.append('%s: %s' % (label, b))



FORMS = [
    ('list of tuples',        lambda cs: [tuple(c) for c in cs]),
    ('tuple of lists',        lambda cs: tuple(list(c) for c in cs)),
    ('dict keys',             lambda cs: {tuple(c): 1.0 for c in cs}.keys()),
    ('generator expression',  lambda cs: (c for c in cs)),
    ('map object',            lambda cs: map(tuple, cs)),
    ('set of frozensets',     lambda cs: {frozenset(c) for c in cs}),
    ('zip object',            lambda cs: (c for c, _ in zip(cs, itertools.count()))),
    ('filter object',         lambda cs: filter(lambda c: True, cs)),
    ('list of one-shot iterators', lambda cs: [iter(c) for c in cs]),
]

def run(label, attrs, shape, cliques, order=None, via_model=False):
    """ build the tree from every form of `cliques`; all must be valid and identical """
    reference = None
    for name, form in FORMS:
        domain = Domain(attrs, shape)
        np.random.seed(12)
        arg = form(cliques)
        if via_model:
            jt = GraphicalModel(domain, arg, elimination_order=order).junction_tree
        else:
            jt = JunctionTree(domain, arg, order)
        full = '%s [%s]' % (label, name)
        record(full, domain, cliques, jt)
        shape_of_tree = (jt.maximal_cliques(), list(jt.tree.edges()))
        if reference is None:
            reference = shape_of_tree
        elif shape_of_tree != reference:
            FAILS.append('%s: tree differs from the one built from a list: %s vs %s' % (full, shape_of_tree, reference))


attrs5, shape5 = 'abcde', (2, 3, 4, 5, 6)
chain = [('a', 'b'), ('b', 'c'), ('c', 'd')]
tri3 = [('a', 'b', 'c'), ('c', 'd', 'e')]
cyc5 = [('a', 'b'), ('b', 'c'), ('c', 'd'), ('d', 'e'), ('e', 'a')]
single = [('a',), ('b',), ('d', 'e')]

run('chain, default order', attrs5, shape5, chain)
run('chain via GraphicalModel', attrs5, shape5, chain, via_model=True)
run('two triples, default order', attrs5, shape5, tri3)
run('5-cycle, default order', attrs5, shape5, cyc5)
run('5-cycle, explicit order', attrs5, shape5, cyc5, order=['c', 'a', 'e', 'b', 'd'])
run('5-cycle, 4 random restarts', attrs5, shape5, cyc5, order=4)
run('1-cliques and a pair', attrs5, shape5, single)
run('no cliques', 'ab', (2, 2), [])

# the idiom "a model over all pairs / all triples of attributes"
for k in (2, 3):
    for name, arg in [('list(combinations)', list(itertools.combinations('abcd', k))),
                      ('combinations', itertools.combinations('abcd', k))]:
        domain = Domain('abcd', (2, 3, 4, 5))
        jt = JunctionTree(domain, arg)
        record('all %d-subsets of abcd [%s]' % (k, name), domain, list(itertools.combinations('abcd', k)), jt)
        model = GraphicalModel(domain, itertools.combinations('abcd', k))
        if sorted(model.cliques) != sorted(jt.maximal_cliques()):
            FAILS.append('all %d-subsets: GraphicalModel from an iterator has cliques %s' % (k, model.cliques))

# measurements -> cliques, the way callers of the library usually derive them
measurements = [(None, None, 1.0, cl) for cl in cyc5]
domain = Domain(attrs5, shape5)
jt = JunctionTree(domain, (m[3] for m in measurements))
record('cliques streamed from a measurement list', domain, cyc5, jt)

# exhaustive: every graph on 4 labelled attributes, list form vs generator form, three order modes
pairs = list(itertools.combinations('abcd', 2))
count = 0
for mask in range(1 << len(pairs)):
    cl = [p for k, p in enumerate(pairs) if mask >> k & 1]
    for order in (None, ['d', 'b', 'a', 'c'], 2):
        domain = Domain('abcd', (3, 2, 3, 2))
        np.random.seed(mask)
        t1 = JunctionTree(domain, cl, order)
        np.random.seed(mask)
        t2 = JunctionTree(domain, (c for c in cl), order)
        count += 2
        for tag, t in (('list', t1), ('generator', t2)):
            for b in violations(domain, cl, t):
                FAILS.append('graph %s, order %s, cliques as %s: %s' % (cl, order, tag, b))
        if (t1.maximal_cliques(), list(t1.tree.edges())) != (t2.maximal_cliques(), list(t2.tree.edges())):
            FAILS.append('graph %s, order %s: list and generator give different trees' % (cl, order))
        emit('X %02d %s nodes %s edges %s' % (mask, order, t2.maximal_cliques(), list(t2.tree.edges())), show=False)
emit('exhaustive part: checked %d trees' % count)

digest = hashlib.sha256('\n'.join(LINES).encode()).hexdigest()
for line in SHOWN:
    print(line)
if FAILS:
    print('FAIL: %d violations of the junction-tree property; the first ones:' % len(FAILS))
    for f in FAILS[:12]:
        print('  -', f)
    print('The clique collection (or the cliques in it) was iterated more than once: a one-shot')
    print('iterable is empty the second time, so the graph is built without those cliques and the')
    print('tree silently fails to cover them.')
    sys.exit(1)
print('PASS digest', digest)
sys.exit(0)

"""C12 / pair 1 -- early exit of the elimination loop in JunctionTree._triangulated.

Builds junction trees for many clique sets under given / default / randomised
elimination orders and checks that every one of them is a valid junction tree
(cover, all attributes, maximality, running intersection) with a valid schedule.

exit 0 + PASS + digest : every tree is valid
exit 1 + FAIL          : some tree violates the property
"""
import os
import sys
import hashlib
import itertools
import warnings

ROOT = os.path.dirname(os.path.dirname(os.path.dirname(os.path.abspath(__file__))))
sys.path.insert(0, os.path.join(ROOT, 'src'))
sys.path.insert(1, ROOT)
warnings.filterwarnings('ignore')

import numpy as np
import networkx as nx
from mbi import Domain
from mbi.junction_tree import JunctionTree
import mbi

assert os.path.abspath(mbi.__file__).startswith(os.path.join(ROOT, 'src')), mbi.__file__


def violations(domain, cliques, jt):
    """ list of violated clauses of property C12 for one constructed tree """
    bad = []
    tree = jt.tree
    nodes = list(tree.nodes())
    sets = {n: frozenset(n) for n in nodes}
    if sorted(jt.maximal_cliques()) != sorted(nodes):
        bad.append('maximal_cliques() differs from the tree nodes')
    if len(nodes) == 0 or not nx.is_tree(tree):
        bad.append('not a tree')
    for cl in cliques:
        if not any(set(cl) <= sets[n] for n in nodes):
            bad.append('input clique %s is in no node' % (tuple(cl),))
    for a in domain.attrs:
        if not any(a in sets[n] for n in nodes):
            bad.append('attribute %s is in no node' % (a,))
    for n, m in itertools.permutations(nodes, 2):
        if sets[n] <= sets[m]:
            bad.append('node %s is contained in node %s' % (n, m))
    for a in domain.attrs:
        holders = [n for n in nodes if a in sets[n]]
        if holders and not nx.is_connected(tree.subgraph(holders)):
            bad.append('running intersection fails for %s: nodes %s are not a subtree'
                       % (a, sorted(holders)))
    nb = jt.neighbors()
    if {n: set(tree.neighbors(n)) for n in nodes} != nb:
        bad.append('neighbors() differs from the tree')
    # message schedule
    sched = jt.mp_order()
    want = set()
    for a, b in tree.edges():
        want.add((a, b)); want.add((b, a))
    if len(sched) != len(set(sched)) or set(sched) != want:
        bad.append('schedule is not "each direction of each edge exactly once"')
    pos = {m: i for i, m in enumerate(sched)}
    for (a, b) in sched:
        for c in tree.neighbors(a):
            if c != b and pos.get((c, a), 10**9) > pos[(a, b)]:
                bad.append('message %s->%s scheduled before %s->%s' % (a, b, c, a))
    sep = jt.separator_axes()
    for (a, b), s in sep.items():
        if set(s) != set(a) & set(b) or len(s) != len(set(s)):
            bad.append('separator of %s,%s is wrong' % (a, b))
    return bad


def describe(jt):
    """ canonical, hash-seed independent description of a constructed tree """
    edges = sorted(tuple(sorted(e)) for e in jt.tree.edges())
    return (sorted(jt.tree.nodes()), edges, list(jt.elimination_order))


CASES = []   # (label, domain, cliques, order)


def add(label, domain, cliques, order):
    CASES.append((label, domain, cliques, order))


# 1. the configuration of the unit tests
dom = Domain(['a', 'b', 'c', 'd'], [10, 20, 30, 40])
add('chain/default', dom, [('a', 'b'), ('b', 'c'), ('c', 'd')], None)

# 2. a 4-cycle, every elimination order
dom = Domain(['a', 'b', 'c', 'd'], [2, 3, 4, 5])
cyc = [('a', 'b'), ('b', 'c'), ('c', 'd'), ('d', 'a')]
for p in itertools.permutations(dom.attrs):
    add('cycle4/' + ''.join(p), dom, cyc, list(p))
add('cycle4/default', dom, cyc, None)

# 3. a wheel: hub h joined to the 4-cycle p-q-r-s; every elimination order
dom = Domain(['p', 'q', 'r', 's', 'h'], [2, 3, 2, 3, 4])
wheel = [('p', 'q'), ('q', 'r'), ('r', 's'), ('s', 'p'),
         ('h', 'p'), ('h', 'q'), ('h', 'r'), ('h', 's')]
for p in itertools.permutations(dom.attrs):
    add('wheel/' + ''.join(p), dom, wheel, list(p))
add('wheel/default', dom, wheel, None)
add('wheel/int3', dom, wheel, 3)

# 4. the same wheel where the rim attributes have a single value and the hub
#    comes first in the domain: all greedy costs tie, the default order starts at h
dom = Domain(['h', 'p', 'q', 'r', 's'], [3, 1, 1, 1, 1])
add('wheel-size1/default', dom, wheel, None)
add('wheel-size1/int2', dom, wheel, 2)

# 5. 3-way cliques around a cycle, a few orders
dom = Domain(['a', 'b', 'c', 'd', 'e', 'f'], [2, 2, 3, 2, 3, 2])
tri3 = [('a', 'b', 'c'), ('c', 'd'), ('d', 'e', 'f'), ('f', 'a')]
for p in [list('abcdef'), list('fedcba'), list('cfadbe'), list('dacfeb')]:
    add('tri3/' + ''.join(p), dom, tri3, p)
add('tri3/default', dom, tri3, None)
add('tri3/int4', dom, tri3, 4)

# 6. degenerate inputs
dom = Domain(['a', 'b', 'c'], [2, 3, 4])
add('empty/default', dom, [], None)
add('single/default', dom, [('a', 'b', 'c')], None)
add('singletons/perm', dom, [('a',), ('c',)], ['c', 'a', 'b'])
add('dups/perm', dom, [('a', 'b'), ('b', 'a'), ('a', 'b')], ['b', 'c', 'a'])

# 7. random clique sets with random permutations / default / int orders
prng = np.random.RandomState(20240712)
for t in range(60):
    n = int(prng.randint(4, 9))
    attrs = ['x%d' % i for i in range(n)]
    shape = [int(s) for s in prng.randint(1, 4, size=n)]
    dom = Domain(attrs, shape)
    cliques = []
    for _ in range(int(prng.randint(2, 2 * n))):
        k = int(prng.randint(1, 4))
        cliques.append(tuple(str(a) for a in prng.choice(attrs, size=k, replace=False)))
    mode = t % 3
    if mode == 0:
        order = [str(a) for a in prng.permutation(attrs)]
    elif mode == 1:
        order = None
    else:
        order = int(prng.randint(0, 4))
    add('random%02d/%s' % (t, 'perm' if mode == 0 else 'default' if mode == 1 else 'int%d' % order),
        dom, cliques, order)


def main():
    np.random.seed(12345)      # the int mode draws from numpy's global generator
    h = hashlib.sha256()
    failures = []
    for label, dom, cliques, order in CASES:
        given = list(order) if isinstance(order, list) else order
        jt = JunctionTree(dom, cliques, given)
        bad = violations(dom, cliques, jt)
        if bad:
            failures.append((label, cliques, order, jt, bad))
        h.update(repr((label, describe(jt), bool(bad))).encode())

    print('cases            : %d' % len(CASES))
    print('invalid trees    : %d' % len(failures))
    if failures:
        print('FAIL: JunctionTree built trees that are not valid junction trees')
        print('  failing cases: %s' % ' '.join(f[0] for f in failures))
        shown = [f for f in failures if not f[0].startswith('wheel/h')][:4]
        for label, cliques, order, jt, bad in failures[:2] + shown:
            print('  case %s  (elimination order %s)' % (label, jt.elimination_order))
            print('     nodes : %s' % sorted(jt.tree.nodes()))
            print('     edges : %s' % sorted(tuple(sorted(e)) for e in jt.tree.edges()))
            for b in bad[:3]:
                print('     -> %s' % b)
        print('The elimination loop stopped before all fill-in edges were added, so the')
        print('"triangulated" graph still has a chordless cycle and no spanning tree over its')
        print('maximal cliques satisfies the running intersection property.')
        return 1
    print('digest           : %s' % h.hexdigest())
    print('PASS')
    return 0


if __name__ == '__main__':
    sys.exit(main())

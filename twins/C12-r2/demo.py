"""Equivalence demo for refactoring 2 (JunctionTree._greedy_order: shared super-clique helper).

Prints a deterministic digest of everything observable about JunctionTree on a
collection of ordinary and unusual inputs.  The output must be byte-identical on the
unmodified source and on the refactored source.

Focus of this demo: the greedy / stochastic elimination order (orders, total costs, and
the state of the numpy random stream afterwards), for order modes None and int, with
ties, duplicate / nested / list-typed cliques, uncovered attributes and empty clique sets.
The remaining observables are digested as well.
"""
import os
import sys

# Set iteration order of strings depends on the hash seed; pin it so that raw reprs
# (which expose iteration order, i.e. the strongest possible equivalence check) are
# reproducible between runs.
if os.environ.get('PYTHONHASHSEED') != '0':
    os.environ['PYTHONHASHSEED'] = '0'
    os.execv(sys.executable, [sys.executable] + sys.argv)

ROOT = os.path.abspath(os.path.join(os.path.dirname(os.path.abspath(__file__)), '..', '..'))
sys.path.insert(0, ROOT)
sys.path.insert(0, os.path.join(ROOT, 'src'))

import hashlib
import itertools
import random

import numpy as np
import networkx as nx

import mbi.junction_tree as jtmod
from mbi import Domain
from mbi.junction_tree import JunctionTree

assert os.path.abspath(jtmod.__file__).startswith(ROOT + os.sep), jtmod.__file__

FOCUS = 'greedy_order'


def is_valid(domain, cliques, jt):
    """ junction-tree validity + message-schedule validity, as one bool each """
    nodes = list(jt.tree.nodes())
    maximal = jt.maximal_cliques()
    ok = sorted(nodes) == sorted(maximal)
    ok &= nx.is_tree(jt.tree) if len(nodes) > 0 else True
    ok &= all(any(set(cl) <= set(n) for n in nodes) for cl in cliques)
    ok &= all(any(a in n for n in nodes) for a in domain.attrs)
    ok &= not any(set(a) <= set(b) for a in nodes for b in nodes if a != b)
    for a in domain.attrs:
        having = [n for n in nodes if a in n]
        ok &= nx.is_connected(jt.tree.subgraph(having))
    sched = jt.mp_order()
    expect = sorted([(a, b) for a, b in jt.tree.edges()] + [(b, a) for a, b in jt.tree.edges()])
    ok2 = sorted(sched) == expect and len(set(sched)) == len(sched)
    seen = set()
    for (i, j) in sched:
        for k in jt.tree.neighbors(i):
            if k != j:
                ok2 &= (k, i) in seen
        seen.add((i, j))
    return bool(ok), bool(ok2)


def describe(domain, cliques, order, seed=0):
    np.random.seed(seed)
    jt = JunctionTree(domain, cliques, order)
    lines = []
    lines.append('elimination_order=%r order=%r' % (jt.elimination_order, jt.order))
    lines.append('cliques=%r' % (jt.cliques,))
    lines.append('graph_edges=%r' % (list(jt.graph.edges()),))
    lines.append('maximal=%r' % (jt.maximal_cliques(),))
    lines.append('tree_nodes=%r' % (list(jt.tree.nodes()),))
    lines.append('tree_edges=%r' % (list(jt.tree.edges(data=True)),))
    lines.append('mp_order=%r' % (jt.mp_order(),))
    lines.append('separators=%r' % (jt.separator_axes(),))
    lines.append('neighbors=%r' % (jt.neighbors(),))
    lines.append('valid=%r' % (is_valid(domain, cliques, jt),))
    # the random stream must have been consumed identically
    lines.append('rng_after=%.12f' % np.random.random())
    return jt, lines


def show(title, domain, cliques, order, seed=0):
    print('=== %s | attrs=%r shape=%r order=%r seed=%d' % (title, domain.attrs, domain.shape, order, seed))
    jt, lines = describe(domain, cliques, order, seed)
    for l in lines:
        print('  ' + l)
    return jt


def digest(domain, cliques, order, seed=0):
    _, lines = describe(domain, cliques, order, seed)
    return '\n'.join(lines)


# --------------------------------------------------------------------------------------
# 1. hand-written cases, printed in full
# --------------------------------------------------------------------------------------
dom4 = Domain(['a', 'b', 'c', 'd'], [10, 20, 30, 40])
chain = [('a', 'b'), ('b', 'c'), ('c', 'd')]
show('chain (unit-test input)', dom4, chain, None)
show('chain, explicit order', dom4, chain, ['d', 'c', 'b', 'a'])
show('chain, explicit order as tuple', dom4, chain, ('b', 'c', 'a', 'd'))

# permuted attribute order and heterogeneous sizes, 5-cycle (needs fill-in)
dom5 = Domain(['e', 'b', 'd', 'a', 'c'], [7, 2, 5, 3, 11])
cyc5 = [('a', 'b'), ('b', 'c'), ('c', 'd'), ('d', 'e'), ('e', 'a')]
show('5-cycle default', dom5, cyc5, None)
for perm in [('a', 'b', 'c', 'd', 'e'), ('e', 'd', 'c', 'b', 'a'), ('c', 'a', 'e', 'b', 'd')]:
    show('5-cycle explicit', dom5, cyc5, list(perm))
for n, seed in [(0, 0), (1, 1), (5, 2), (25, 3)]:
    show('5-cycle int order', dom5, cyc5, n, seed)

# cliques given as lists, with duplicates, nested cliques, reversed spellings, singletons
messy = [['c', 'a'], ('a', 'c'), ['a', 'c', 'b'], ('b',), ['d', 'e'], ('e', 'd'), ('e',)]
show('messy cliques default', dom5, messy, None)
show('messy cliques int', dom5, messy, 4, 11)
show('messy cliques explicit', dom5, messy, ['b', 'e', 'a', 'd', 'c'])

# no cliques at all / only singletons / attributes not covered by any clique
show('empty clique list', dom5, [], None)
show('empty clique list int', dom5, [], 3, 5)
show('singletons only', dom4, [('a',), ('c',)], None)
show('uncovered attributes', dom5, [('a', 'e')], ['e', 'a', 'b', 'c', 'd'])
show('one attribute', Domain(['x'], [4]), [('x',)], None)
show('one attribute int', Domain(['x'], [4]), [], 2, 9)
show('full clique', dom4, [('d', 'c', 'b', 'a')], None)

# star, K4 minus an edge, 3x3 grid, two components, integer attribute names
dom6 = Domain(['h', 'l1', 'l2', 'l3', 'l4', 'l5'], [2, 3, 4, 5, 6, 7])
star = [('h', 'l%d' % i) for i in range(1, 6)]
show('star default', dom6, star, None)
show('star hub first', dom6, star, ['h', 'l1', 'l2', 'l3', 'l4', 'l5'])
show('star int', dom6, star, 6, 21)

show('K4 minus edge', dom4, [('a', 'b'), ('a', 'c'), ('a', 'd'), ('b', 'c'), ('b', 'd')], ['a', 'b', 'c', 'd'])

gattrs = ['g%d%d' % (i, j) for i in range(3) for j in range(3)]
gshape = [2, 3, 2, 4, 5, 3, 2, 6, 2]
gdom = Domain(gattrs[::-1], gshape)
grid = []
for i in range(3):
    for j in range(3):
        if i + 1 < 3:
            grid.append(('g%d%d' % (i, j), 'g%d%d' % (i + 1, j)))
        if j + 1 < 3:
            grid.append(('g%d%d' % (i, j), 'g%d%d' % (i, j + 1)))
show('grid default', gdom, grid, None)
show('grid int', gdom, grid, 10, 4)
show('grid explicit', gdom, grid, gattrs)

two = [('a', 'b'), ('b', 'c'), ('c', 'a'), ('d', 'e')]
show('two components', dom5, two, None)
show('two components int', dom5, two, 3, 8)

idom = Domain([3, 0, 2, 1, 4], [5, 4, 3, 2, 6])
show('integer attrs', idom, [(0, 1, 2), (2, 3), (3, 4), (4, 0)], None)
show('integer attrs int', idom, [(0, 1, 2), (2, 3), (3, 4), (4, 0)], 7, 13)
show('integer attrs explicit', idom, [(0, 1, 2), (2, 3), (3, 4), (4, 0)], [4, 3, 2, 1, 0])

# all sizes equal -> many ties in the greedy choice and in the spanning tree
edom = Domain(list('pqrstu'), [3] * 6)
ring6 = [('p', 'q'), ('q', 'r'), ('r', 's'), ('s', 't'), ('t', 'u'), ('u', 'p')]
show('6-ring ties default', edom, ring6, None)
show('6-ring ties int', edom, ring6, 12, 17)
show('6-ring + chords', edom, ring6 + [('p', 's'), ('q', 't', 'u')], 2, 19)

# --------------------------------------------------------------------------------------
# 2. private pieces called directly
# --------------------------------------------------------------------------------------
print('=== direct calls')
for dom, cl, name in [(dom5, cyc5, 'cyc5'), (gdom, grid, 'grid'), (edom, ring6, 'ring6'), (dom5, [], 'empty'), (dom5, messy, 'messy')]:
    jt = JunctionTree(dom, cl)
    print('  %s greedy deterministic: %r' % (name, jt._greedy_order(stochastic=False)))
    np.random.seed(123)
    for _ in range(4):
        print('  %s greedy stochastic: %r' % (name, jt._greedy_order(stochastic=True)))
    print('  %s greedy default arg: %r' % (name, jt._greedy_order()))
    print('  %s rng_after=%.12f' % (name, np.random.random()))
    rnd = random.Random(5)
    for _ in range(3):
        perm = list(dom.attrs)
        rnd.shuffle(perm)
        tri, cost = jt._triangulated(perm)
        print('  %s triangulated %r: nodes=%r edges=%r cost=%r type=%s' % (
            name, perm, list(tri.nodes()), list(tri.edges()), cost, type(cost).__name__))
        print('  %s graph untouched: %r' % (name, list(jt.graph.edges())))
    tree, order = jt._make_tree(list(dom.attrs))
    print('  %s _make_tree explicit: %r %r %r' % (name, order, list(tree.edges(data=True)), jt.elimination_order))
    np.random.seed(77)
    tree, order = jt._make_tree(3)
    print('  %s _make_tree int: %r %r %r' % (name, order, list(tree.edges(data=True)), jt.elimination_order))
    # bool is not treated as an int order mode (type(order) is int): it is used as the order itself
    try:
        JunctionTree(dom, cl, True)
        print('  %s bool order: no error' % name)
    except Exception as e:
        print('  %s bool order: %s' % (name, type(e).__name__))

# --------------------------------------------------------------------------------------
# 3. exhaustive: all labelled graphs on 4 attributes x all elimination orders + None + int
# --------------------------------------------------------------------------------------
print('=== exhaustive 4 attributes')
attrs = ['w', 'z', 'x', 'y']
xdom = Domain(attrs, [2, 5, 3, 4])
pairs = list(itertools.combinations(sorted(attrs), 2))
h = hashlib.sha256()
count = 0
allvalid = True
for mask in range(1 << len(pairs)):
    cl = [pairs[i] for i in range(len(pairs)) if mask >> i & 1]
    modes = [None, 0, 2] + [list(p) for p in itertools.permutations(attrs)]
    for mode in modes:
        text = digest(xdom, cl, mode, seed=mask)
        allvalid &= "valid=(True, True)" in text
        h.update(text.encode())
        count += 1
print('  cases=%d allvalid=%r sha256=%s' % (count, allvalid, h.hexdigest()))

# --------------------------------------------------------------------------------------
# 4. random larger clique sets
# --------------------------------------------------------------------------------------
print('=== random larger')
rnd = random.Random(2024)
for trial in range(40):
    n = rnd.randint(6, 14)
    names = ['v%02d' % i for i in range(n)]
    rnd.shuffle(names)
    rdom = Domain(names, [rnd.randint(1, 9) for _ in range(n)])
    cl = []
    for _ in range(rnd.randint(0, 2 * n)):
        k = rnd.randint(1, 4)
        cl.append(tuple(rnd.sample(names, k)))
    perm = list(names)
    rnd.shuffle(perm)
    for mode in [None, perm, rnd.randint(0, 6)]:
        text = digest(rdom, cl, mode, seed=trial)
        tag = hashlib.sha256(text.encode()).hexdigest()[:16]
        print('  trial=%d n=%d ncl=%d mode=%s valid=%s %s' % (
            trial, n, len(cl), 'perm' if isinstance(mode, list) else mode,
            "valid=(True, True)" in text, tag))
    if trial % 10 == 0:
        print(text)

# --------------------------------------------------------------------------------------
# 5. through GraphicalModel (public consumer of the junction tree)
# --------------------------------------------------------------------------------------
print('=== GraphicalModel')
from mbi import GraphicalModel
for dom, cl, eo in [(dom5, cyc5, None), (dom5, cyc5, ['c', 'a', 'e', 'b', 'd']), (gdom, grid, None), (dom5, messy, None)]:
    model = GraphicalModel(dom, cl, elimination_order=eo)
    print('  cliques=%r' % (model.cliques,))
    print('  message_order=%r' % (model.message_order,))
    print('  sep_axes=%r' % (model.sep_axes,))
    print('  neighbors=%r' % (model.neighbors,))
    print('  elimination_order=%r size=%r' % (model.elimination_order, model.size))

print('FOCUS', FOCUS)

"""
Pair 1 demo -- FactoredInference.estimate(): per-call state in the `options` dict.

Property clause exercised: an estimator is history-free.  What a call does (which callbacks run,
whether it returns a model at all, and which model) must not depend on calls made earlier -- on
the same estimator, on ANOTHER estimator (the default `options={}` dict is one object shared by
every FactoredInference in the process), or through an options dict the caller reuses.

exit 0 + "PASS" + digest : unmodified code, and the preserving change
exit 1 + "FAIL" + reasons: the breaking change
"""
import os, sys, io, hashlib, contextlib, warnings

ROOT = os.path.dirname(os.path.dirname(os.path.dirname(os.path.abspath(__file__))))
sys.path.insert(0, os.path.join(ROOT, 'src'))
warnings.filterwarnings('ignore')

import numpy as np
import mbi
from mbi import Domain, FactoredInference

if not os.path.abspath(mbi.__file__).startswith(ROOT + os.sep):
    print('ERROR: mbi imported from %s, expected a copy under %s' % (mbi.__file__, ROOT))
    sys.exit(2)

failures = []
digest = []


def fail(msg):
    failures.append(msg)


class Recorder:
    """ a user callback: counts its invocations, remembers nothing else """
    def __init__(self, name):
        self.name = name
        self.n = 0

    def __call__(self, marginals):
        self.n += 1


def quiet(fn, *args, **kwargs):
    """ run fn with stdout swallowed (the Logger prints wall-clock times) """
    with contextlib.redirect_stdout(io.StringIO()):
        return fn(*args, **kwargs)


def measurements(domain, projs, seed, total=100.0, noise=2.0):
    prng = np.random.RandomState(seed)
    out = []
    for proj in projs:
        n = domain.size(proj)
        p = prng.dirichlet(np.ones(n))
        y = total * p + prng.normal(0, noise, n)
        out.append((None, y, noise, proj))
    return out


def answers(model, projs):
    return np.concatenate([model.project(p).datavector() for p in projs])


def record(tag, vec):
    vec = np.asarray(vec, dtype=float)
    h = hashlib.sha256(np.round(vec, 8).tobytes()).hexdigest()[:16]
    digest.append('%-28s n=%-3d sum=%.6f sha=%s' % (tag, vec.size, vec.sum(), h))


dom = Domain(['a', 'b', 'c'], [3, 4, 2])
PROJS = [('a',), ('b',), ('c',), ('a', 'b')]
meas1 = measurements(dom, [('a',), ('b',)], seed=1)
meas2 = measurements(dom, [('a',), ('b',), ('a', 'b')], seed=2)

# ---------------------------------------------------------------------------------------------
# S1  same estimator: call 1 has a user callback, call 2 (MD) and call 3 (RDA) have none
# ---------------------------------------------------------------------------------------------
E = FactoredInference(dom, iters=40)
rec = Recorder('S1')
m1 = quiet(E.estimate, meas1, 100.0, callback=rec)
n_after_1 = rec.n
m2 = quiet(E.estimate, meas2, 100.0)
n_after_2 = rec.n
m3 = quiet(E.estimate, meas2, 100.0, engine='RDA')
n_after_3 = rec.n
if n_after_1 == 0:
    fail('S1: the callback passed to call 1 was never invoked')
if n_after_2 != n_after_1:
    fail('S1: callback given to call 1 only was invoked %d more times during call 2 (no callback given)'
         % (n_after_2 - n_after_1))
if n_after_3 != n_after_2:
    fail('S1: callback given to call 1 only was invoked %d more times during call 3 (RDA, no callback given)'
         % (n_after_3 - n_after_2))
fresh2 = quiet(FactoredInference(dom, iters=40).estimate, meas2, 100.0)
if not np.array_equal(answers(m2, PROJS), answers(fresh2, PROJS)):
    fail('S1: model of call 2 differs from the model of a fresh estimator')
record('S1 call1 (MD, callback)', answers(m1, PROJS))
record('S1 call2 (MD)', answers(m2, PROJS))
record('S1 call3 (RDA)', np.round(answers(m3, PROJS), 6))
digest.append('S1 callback invocations      after1=%d after2=%d after3=%d' % (n_after_1, n_after_2, n_after_3))

# ---------------------------------------------------------------------------------------------
# S2  the caller re-uses one options dict for two calls
# ---------------------------------------------------------------------------------------------
opts = {}
rec2 = Recorder('S2')
quiet(E.estimate, meas1, 100.0, callback=rec2, options=opts)
k = rec2.n
m = quiet(E.estimate, meas1, 100.0, options=opts)
if rec2.n != k:
    fail('S2: re-used options dict: callback of the first call ran %d times in the second call' % (rec2.n - k))
if opts.get('callback', None) is not None:
    fail('S2: after a call without callback the options dict still carries %r' % type(opts['callback']).__name__)
record('S2 second call', answers(m, PROJS))

# ---------------------------------------------------------------------------------------------
# S3  two unrelated estimators.  A logs (log=True), B does not.  B works on a domain whose
#     attribute 'a' has a different size, so A's Logger cannot evaluate B's marginals.
# ---------------------------------------------------------------------------------------------
domA = Domain(['a', 'b'], [2, 3])
domB = Domain(['a', 'b'], [4, 3])
A = FactoredInference(domA, log=True, iters=50)
quiet(A.estimate, measurements(domA, [('a',), ('b',)], seed=3), 100.0)
B = FactoredInference(domB, iters=50)
measB = measurements(domB, [('a',), ('b',)], seed=4)
out = io.StringIO()
try:
    with contextlib.redirect_stdout(out):
        mB = B.estimate(measB, 100.0)
except Exception as e:
    mB = None
    fail('S3: estimate() on a brand new estimator B raised %s: %s  (the Logger of estimator A, '
         'left behind by an earlier call, was run on B\'s marginals)' % (type(e).__name__, e))
if mB is not None:
    if out.getvalue() != '':
        fail('S3: estimator B has log=False and no callback, yet its estimate() printed %d characters '
             '(log lines of estimator A)' % len(out.getvalue()))
    record('S3 estimator B', answers(mB, [('a',), ('b',)]))
    # history-free: same as in a world where A never existed is checked by the digest (fixed seeds)

# ---------------------------------------------------------------------------------------------
# S4  deprecated alias infer(): callback first, none afterwards
# ---------------------------------------------------------------------------------------------
F = FactoredInference(dom, iters=25)
rec4 = Recorder('S4')
quiet(F.infer, meas1, 100.0, 'MD', rec4)
k = rec4.n
m = quiet(F.infer, meas1, 100.0)
if rec4.n != k:
    fail('S4: infer(): callback of the first call ran %d times in the second call' % (rec4.n - k))
record('S4 infer second call', answers(m, PROJS))

if failures:
    print('FAIL')
    for f in failures:
        print(' -', f)
    sys.exit(1)

print('PASS')
for line in digest:
    print(line)
sys.exit(0)

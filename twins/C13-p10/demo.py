"""C13 / pair 1 -- mirror_descent: "nothing to fit" guard for an empty measurement list.

History-freeness: the model returned by the k-th estimate() call of a re-used
estimator must equal the model a fresh estimator returns for the same arguments,
including the degenerate call estimate([], total=N) (uniform model of size N).
"""
import os, sys, hashlib, warnings
ROOT = os.path.dirname(os.path.dirname(os.path.dirname(os.path.abspath(__file__))))
sys.path.insert(0, os.path.join(ROOT, 'src'))
warnings.filterwarnings('ignore')
import numpy as np
from mbi import Domain, FactoredInference

domain = Domain(['a', 'b', 'c'], [2, 3, 4])
QUERIES = [('a',), ('b',), ('c',), ('a', 'b'), ('b', 'c'), ('a', 'c')]


def measurements(seed, total, projs):
    prng = np.random.RandomState(seed)
    out = []
    for proj in projs:
        n = domain.size(proj)
        p = prng.dirichlet(np.ones(n))
        out.append((np.eye(n), total * p + prng.normal(0, 1.0, n), 1.0, proj))
    return out


def answers(model):
    vec = [float(model.total)]
    for q in QUERIES:
        vec.extend(model.project(q).datavector().tolist())
    return np.round(np.array(vec), 7)


def new_engine(**kw):
    return FactoredInference(domain, iters=60, **kw)


M1 = measurements(1, 100.0, [('a', 'b'), ('c',)])
M2 = measurements(2, 250.0, [('b', 'c'), ('a',)])
ZEROS = {('a', 'b'): [(0, 0), (1, 2)]}

# every history is a list of (measurements, total, engine) calls on ONE estimator
HISTORIES = {
    'nonempty-only': [(M1, 100.0, 'MD'), (M2, 250.0, 'MD')],
    'empty-first': [([], 40.0, 'MD'), (M1, 100.0, 'MD')],
    'empty-after-fit': [(M1, 100.0, 'MD'), ([], 40.0, 'MD')],
    'empty-between': [(M1, None, 'MD'), ([], None, 'MD'), (M2, 250.0, 'MD')],
    'empty-after-RDA': [(M1, 100.0, 'RDA'), ([], 7.0, 'MD'), ([], 9.0, 'RDA'), ([], 11.0, 'MD')],
}

failures = []
digest = hashlib.sha256()
devnull = open(os.devnull, 'w')

for config in ({}, {'structural_zeros': ZEROS}):
    for name, calls in HISTORIES.items():
        engine = new_engine(**config)
        returned = []
        for k, (meas, total, solver) in enumerate(calls):
            tag = '%s zeros=%s call %d' % (name, bool(config), k)
            stdout, sys.stdout = sys.stdout, devnull   # dual averaging prints
            try:
                got = engine.estimate(list(meas), total, engine=solver)
                got_ans = answers(got)
            except Exception as e:
                failures.append('%s: re-used estimator raised %r' % (tag, e))
                break
            finally:
                sys.stdout = stdout
            sys.stdout, stdout = devnull, sys.stdout
            try:
                ref = answers(new_engine(**config).estimate(list(meas), total, engine=solver))
            except Exception as e:
                ref = None
                failures.append('%s: a fresh estimator raised %r' % (tag, e))
            finally:
                sys.stdout = stdout
            if ref is None:
                want = 1.0 if total is None else total
                if len(meas) == 0 and abs(got_ans[0] - want) > 1e-9:
                    failures.append('%s: estimate([]) returned a model of total %.3f, '
                                    'asked for %.3f (stale model of an earlier call)'
                                    % (tag, got_ans[0], want))
            elif got_ans.shape != ref.shape or not np.allclose(got_ans, ref, atol=1e-6):
                failures.append('%s: model differs from a fresh estimator '
                                '(total %.3f vs %.3f, max answer gap %.4f)'
                                % (tag, got_ans[0], ref[0], np.abs(got_ans - ref).max()))
            if any(got is old for old, _ in returned):
                failures.append('%s: estimate() handed back the SAME model object as an '
                                'earlier call' % tag)
            returned.append((got, got_ans))
            digest.update(got_ans.tobytes())
        # snapshots: earlier models keep their answers
        for k, (model, before) in enumerate(returned):
            if not np.array_equal(answers(model), before):
                failures.append('%s zeros=%s: model of call %d changed afterwards'
                                % (name, bool(config), k))

if failures:
    print('FAIL')
    for f in failures:
        print('  -', f)
    sys.exit(1)
print('PASS', digest.hexdigest())

"""C13 / pair 2 -- FactoredInference._setup: filing measurements under model cliques.

Clause checked: "the caller's measurement list [and] arrays ... are left unmodified",
for every way of running a solver on one estimator object: estimate(...) and the
public solver methods mirror_descent / dual_averaging / interior_gradient (which the
unit tests also call directly with the caller's own list).
"""
import os, sys, copy, hashlib, warnings
ROOT = os.path.dirname(os.path.dirname(os.path.dirname(os.path.abspath(__file__))))
sys.path.insert(0, os.path.join(ROOT, 'src'))
warnings.filterwarnings('ignore')
import numpy as np
from scipy import sparse
from mbi import Domain, FactoredInference

domain = Domain(['a', 'b', 'c', 'd'], [2, 3, 4, 5])
QUERIES = [('a',), ('b',), ('c',), ('d',), ('c', 'd'), ('a', 'b'), ('a', 'd')]
TOTAL = 200.0


def make(seed, projs):
    """measurement log in the order the 'mechanism' took the measurements"""
    prng = np.random.RandomState(seed)
    log, labels = [], []
    for r, proj in enumerate(projs):
        n = domain.size(proj)
        p = prng.dirichlet(np.ones(n))
        Q = sparse.eye(n, format='csr') if r % 2 else np.eye(n)
        log.append((Q, TOTAL * p + prng.normal(0, 2.0, n), 2.0, proj))
        labels.append('round %d: %s' % (r, '+'.join(proj)))
    return log, labels


def answers(model):
    vec = [float(model.total)]
    for q in QUERIES:
        vec.extend(model.project(q).datavector().tolist())
    return np.round(np.array(vec), 6)


def same_tuple(m, n):
    (Q1, y1, s1, p1), (Q2, y2, s2, p2) = m, n
    A1 = Q1.toarray() if sparse.issparse(Q1) else Q1
    A2 = Q2.toarray() if sparse.issparse(Q2) else Q2
    return np.array_equal(A1, A2) and np.array_equal(y1, y2) and s1 == s2 and p1 == p2


LOGS = {
    'already-in-clique-size-order': [('a',), ('b',), ('c', 'd')],
    'wide-marginal-first': [('c', 'd'), ('a',), ('d',), ('b',), ('c',)],
    'interleaved-repeats': [('b', 'c'), ('a',), ('b', 'c'), ('d',), ('a',), ('b',)],
}
RUNS = ['estimate-MD', 'estimate-RDA', 'mirror_descent', 'dual_averaging',
        'interior_gradient', '_setup']

failures = []
digest = hashlib.sha256()
devnull = open(os.devnull, 'w')

for name, projs in LOGS.items():
    for warm in (False, True):
        engine = FactoredInference(domain, iters=40, warm_start=warm)
        for run in RUNS:
            log, labels = make(7, projs)
            frozen = copy.deepcopy(log)
            ids = [id(m) for m in log]
            stdout, sys.stdout = sys.stdout, devnull
            try:
                if run.startswith('estimate'):
                    engine.estimate(log, TOTAL, engine=run.split('-')[1])
                elif run == '_setup':
                    engine._setup(log, None)
                    engine.model.marginals = engine.model.belief_propagation(engine.model.potentials)
                else:
                    getattr(engine, run)(log, TOTAL)
            finally:
                sys.stdout = stdout
            tag = '%s warm=%s %s' % (name, warm, run)
            digest.update(answers(engine.model).tobytes())
            if len(log) != len(frozen):
                failures.append('%s: caller list changed length' % tag)
                continue
            if [id(m) for m in log] != ids:
                moved = [labels[ids.index(id(m))] for m in log]
                failures.append('%s: the caller\'s measurement list was reordered in place; '
                                'entry k no longer belongs to label k: now %s' % (tag, moved))
            elif not all(same_tuple(m, n) for m, n in zip(log, frozen)):
                failures.append('%s: a measurement tuple / array was modified' % tag)
            # what a mechanism would do next: read back its latest measurement
            if not same_tuple(log[-1], frozen[-1]):
                failures.append('%s: log[-1] is no longer the measurement taken last (%s)'
                                % (tag, labels[-1]))

# history-freeness through estimate(): k-th call equals a fresh estimator
engine = FactoredInference(domain, iters=40)
for k, (name, projs) in enumerate(LOGS.items()):
    log, _ = make(11 + k, projs)
    got = answers(engine.estimate(log, TOTAL))
    ref = answers(FactoredInference(domain, iters=40).estimate(make(11 + k, projs)[0], TOTAL))
    digest.update(got.tobytes())
    if not np.array_equal(got, ref):
        failures.append('estimate call %d differs from a fresh estimator' % k)

if failures:
    print('FAIL')
    for f in failures:
        print('  -', f)
    sys.exit(1)
print('PASS', digest.hexdigest())

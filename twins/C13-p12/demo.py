"""C13 / pair 1 -- the clique list handed to GraphicalModel by FactoredInference._setup.

History-freedom: the model returned by the k-th estimate() call of one engine must be the
model a fresh engine returns for the same arguments (same cliques, same size, same answers).
Warm start: after the measurement list CHANGED, the warm-started engine must still arrive at
the optimum of a cold start (here: the maximum-entropy model of the current measurements).
"""
import os, sys, itertools, hashlib
ROOT = os.path.dirname(os.path.dirname(os.path.dirname(os.path.abspath(__file__))))
sys.path.insert(0, os.path.join(ROOT, 'src'))
import warnings
warnings.filterwarnings('ignore')
import numpy as np
from mbi import Domain, FactoredInference
import mbi
assert os.path.abspath(mbi.__file__).startswith(ROOT), mbi.__file__

ATTRS, SHAPE = ['a', 'b', 'c', 'd'], [2, 3, 4, 3]
domain = Domain(ATTRS, SHAPE)
N = 1000.0
prng = np.random.RandomState(13)
joint = prng.dirichlet(0.3 * np.ones(int(np.prod(SHAPE)))).reshape(SHAPE) * N

def marginal(proj):
    axes = tuple(i for i, a in enumerate(ATTRS) if a not in proj)
    return joint.sum(axis=axes).flatten()

def measure(proj, noise=2.0):
    x = marginal(proj)
    return (np.eye(x.size), x + prng.normal(0, noise, x.size), noise, proj)

M = {p: measure(p) for p in [('a', 'b'), ('b', 'c'), ('c', 'd'), ('a',), ('d',), ('b', 'd')]}
HISTORY = [
    ('MD', [M['a', 'b'], M['b', 'c']], N),
    ('MD', [M['c', 'd']], N),
    ('MD', [M['a',], M['d',]], None),
    ('IG', [M['b', 'd'], M['a',]], N),
    ('MD', [M['c', 'd'], M['a', 'b']], None),
]
PROJECTIONS = [p for r in (1, 2) for p in itertools.combinations(ATTRS, r)]
ZEROS = {('a', 'b'): [(0, 0), (1, 2)]}

def options(solver):
    return {'lipschitz': 1.0} if solver == 'IG' else {}

def describe(model):
    ans = np.concatenate([model.project(p).datavector() for p in PROJECTIONS])
    return list(model.cliques), int(model.size), float(model.total), ans

def run(engine, step):
    solver, meas, total = step
    return describe(engine.estimate(list(meas), total, engine=solver, options=options(solver)))

failures, lines = [], []

def scenario(name, warm, zeros, tol):
    make = lambda: FactoredInference(domain, iters=200, warm_start=warm, structural_zeros=dict(zeros))
    engine = make()
    for k, step in enumerate(HISTORY):
        got = run(engine, step)
        ref = run(make(), step)          # a fresh estimator, same arguments
        lines.append('%s call %d cliques=%s size=%d total=%.6f answers=%s' % (
            name, k, ref[0], ref[1], ref[2], np.round(ref[3], 4).tolist()))
        err = float(np.abs(got[3] - ref[3]).max())
        if got[0] != ref[0] or got[1] != ref[1]:
            failures.append('%s, call %d: model structure depends on the earlier calls: cliques %s '
                            '(size %d) but a fresh estimator gives %s (size %d)'
                            % (name, k, got[0], got[1], ref[0], ref[1]))
        if err > tol:
            failures.append('%s, call %d: answers differ from the fresh/cold estimate by %.3g '
                            '(tolerance %.3g)' % (name, k, err, tol))

scenario('cold', False, {}, 1e-9)
scenario('cold+zeros', False, ZEROS, 1e-9)
scenario('warm', True, {}, 0.5)

if failures:
    print('FAIL')
    for f in failures:
        print('  ' + f)
    sys.exit(1)
print('PASS')
print(hashlib.sha256('\n'.join(lines).encode()).hexdigest())
for l in lines:
    print(l[:150])

"""C13 / pair 2 -- GraphicalModel.datavector() on models handed back by FactoredInference.

Snapshot clause: a model returned by estimate() never changes its answers because of later
calls.  Here the later call is the model's own datavector(); afterwards the model must still
give the same datavector(), krondot(), project() answers and hold the same parameters, and an
engine that warm-starts from it must produce the same next model as if nobody had looked.
"""
import os, sys, itertools, hashlib
ROOT = os.path.dirname(os.path.dirname(os.path.dirname(os.path.abspath(__file__))))
sys.path.insert(0, os.path.join(ROOT, 'src'))
import warnings
warnings.filterwarnings('ignore')
import numpy as np
from mbi import Domain, FactoredInference
import mbi
assert os.path.abspath(mbi.__file__).startswith(ROOT), mbi.__file__

prng = np.random.RandomState(1313)

def make_case(attrs, shape, projs, total, noise=1.5):
    domain = Domain(attrs, shape)
    joint = prng.dirichlet(0.4 * np.ones(int(np.prod(shape)))).reshape(shape) * 500
    meas = []
    for proj in projs:
        axes = tuple(i for i, a in enumerate(attrs) if a not in proj)
        x = joint.sum(axis=axes).flatten()
        meas.append((np.eye(x.size), x + prng.normal(0, noise, x.size), noise, proj))
    return domain, meas, total

CASES = {
    'chain a-b-c':      make_case(['a', 'b', 'c'], [2, 3, 4], [('a', 'b'), ('b', 'c')], 500.0),
    'singletons':       make_case(['a', 'b', 'c'], [2, 3, 4], [('a',), ('c',)], None),
    'one clique (a,b)': make_case(['a', 'b'], [3, 4], [('a', 'b')], None),
    'full table a,b,c': make_case(['a', 'b', 'c'], [2, 3, 2], [('a', 'b'), ('a', 'b', 'c')], 500.0),
    'one attribute':    make_case(['a'], [5], [('a',)], None),
}

def answers(model):
    attrs = model.domain.attrs
    projs = [p for r in range(1, len(attrs) + 1) for p in itertools.combinations(attrs, r)]
    out = [model.project(p).datavector() for p in projs]
    out.append(model.krondot([np.eye(n) for n in model.domain.shape]).flatten())
    out.append(np.concatenate([model.potentials[cl].datavector() for cl in model.cliques]))
    return np.concatenate(out)

failures, lines = [], []

for name, (domain, meas, total) in CASES.items():
    for solver in ['MD', 'IG']:
        opts = {'lipschitz': 1.0} if solver == 'IG' else {}
        engine = FactoredInference(domain, iters=150, warm_start=True)
        model = engine.estimate(list(meas), total, engine=solver, options=opts)
        before = answers(model)
        first = model.datavector()           # the caller looks at the full table ...
        second = model.datavector()          # ... twice
        after = answers(model)
        tag = '%s / %s (cliques %s)' % (name, solver, model.cliques)
        lines.append('%s table=%s answers=%s' % (tag, np.round(first, 4).tolist(), np.round(before, 4).tolist()))
        if not np.allclose(first.sum(), model.total):
            failures.append('%s: datavector() does not sum to the total' % tag)
        if not np.array_equal(first, second):
            failures.append('%s: two successive datavector() calls disagree by %.3g'
                            % (tag, np.abs(first - second).max()))
        if not np.array_equal(before, after):
            failures.append('%s: answers/parameters of the returned model changed by %.3g after '
                            'datavector() was called on it' % (tag, np.nanmax(np.abs(before - after))))
        # the engine warm-starts its next call from this model; a twin engine whose model
        # nobody inspected must return exactly the same next model
        twin = FactoredInference(domain, iters=150, warm_start=True)
        twin.estimate(list(meas), total, engine=solver, options=dict(opts))
        grown = list(meas) + [meas[0]]
        nxt = answers(engine.estimate(grown, total, engine='MD', options={}))
        ref = answers(twin.estimate(grown, total, engine='MD', options={}))
        lines.append('%s next=%s' % (tag, np.round(ref, 4).tolist()))
        if not np.array_equal(nxt, ref):
            failures.append('%s: the next warm-started estimate differs by %.3g from the one of an '
                            'engine whose model was not inspected' % (tag, np.nanmax(np.abs(nxt - ref))))

if failures:
    print('FAIL')
    for f in failures:
        print('  ' + f)
    sys.exit(1)
print('PASS')
print(hashlib.sha256('\n'.join(lines).encode()).hexdigest())
for l in lines:
    print(l[:160])

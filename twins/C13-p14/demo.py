"""C13 / pair 1 -- the elimination order is ONE list shared by caller, estimator and models.

`FactoredInference(domain, elim_order=order)` stores the caller's list; every
`_setup` hands it to `GraphicalModel` -> `JunctionTree`, which keeps it as
`model.elimination_order` WITHOUT copying.  So
    caller's `order`  is  engine.elim_order  is  model_k.elimination_order   (for every k).
Nothing in the library may therefore modify that list in place.

The demo runs a history   estimate -> model.synthetic_data() -> estimate   on one
estimator that was configured with an explicit elimination order and checks
  (a) the caller's list is unchanged,
  (b) the model handed back by the first call still carries the same order,
  (c) the estimator is history-free: the model of the second call has the same
      junction tree and bit-identical answers as the model a FRESH estimator
      (built from a pristine copy of the arguments) returns.
`synthetic_data` is wrapped in try/except because it cannot finish under pandas 3
(groupby KeyError in its column loop); whatever it does to shared state before
that point is exactly what we want to observe.
"""
import os, sys, copy, hashlib, warnings
ROOT = os.path.dirname(os.path.dirname(os.path.dirname(os.path.abspath(__file__))))
sys.path.insert(0, os.path.join(ROOT, 'src'))
warnings.simplefilter('ignore')
import numpy as np
import mbi
assert os.path.abspath(mbi.__file__).startswith(os.path.join(ROOT, 'src')), mbi.__file__
from mbi import Domain, FactoredInference

dom = Domain(['a', 'b', 'c', 'd', 'e'], [2, 3, 2, 3, 2])
CYCLE = [('a', 'b'), ('b', 'c'), ('c', 'd'), ('a', 'd'), ('d', 'e')]
QUERIES = CYCLE + [('a', 'c'), ('b', 'd'), ('a', 'e'), ('b', 'e')]


def measurements(seed, total=200.0, sigma=2.0):
    rs = np.random.RandomState(seed)
    out = []
    for cl in CYCLE:
        n = dom.size(cl)
        out.append((np.eye(n), rs.dirichlet(np.ones(n)) * total + rs.normal(0, sigma, n), sigma, cl))
    return out


def answers(model):
    return {q: model.project(q).datavector() for q in QUERIES}


def sample(model, times):
    for _ in range(times):
        np.random.seed(11)
        try:
            model.synthetic_data(rows=20)
        except Exception:
            pass  # pandas 3: groupby KeyError -- expected in this environment


failures = []
digest = hashlib.sha256()
lines = []

for label, order, warm, nsamples in [
        ('explicit order, cold', ['a', 'b', 'c', 'd', 'e'], False, 1),
        ('explicit order, warm', ['e', 'c', 'a', 'b', 'd'], True, 1),
        ('explicit order, 3 draws', ['b', 'a', 'd', 'c', 'e'], False, 3),
        ('explicit order, 2 draws', ['a', 'b', 'c', 'd', 'e'], False, 2),
        ('default greedy order', None, False, 1)]:
    pristine = copy.deepcopy(order)
    ms1, ms2 = measurements(1), measurements(2)
    eng = FactoredInference(dom, iters=60, warm_start=warm, elim_order=order)
    m1 = eng.estimate(ms1, total=200.0)
    order1 = list(m1.elimination_order)
    cliques1 = list(m1.cliques)
    ans1 = answers(m1)

    sample(m1, nsamples)          # a later call on the model that was handed back

    if order != pristine:
        failures.append('%s: caller\'s elimination order changed from %s to %s'
                        % (label, pristine, order))
    if list(m1.elimination_order) != order1:
        failures.append('%s: elimination order of the returned model changed from %s to %s'
                        % (label, order1, list(m1.elimination_order)))
    again = answers(m1)
    if any(not np.array_equal(ans1[q], again[q]) for q in QUERIES):
        failures.append('%s: answers of the returned model changed' % label)

    m2 = eng.estimate(ms2, total=200.0)
    fresh = FactoredInference(dom, iters=60, warm_start=warm, elim_order=copy.deepcopy(pristine))
    if warm:
        fresh.estimate(measurements(1), total=200.0)   # same history, minus the sampling
    ref = fresh.estimate(measurements(2), total=200.0)
    if list(m2.elimination_order) != list(ref.elimination_order) or m2.cliques != ref.cliques:
        failures.append('%s: after the history the estimator builds cliques %s (order %s); '
                        'a fresh estimator builds %s (order %s)'
                        % (label, m2.cliques, list(m2.elimination_order),
                           ref.cliques, list(ref.elimination_order)))
    a2, aref = answers(m2), answers(ref)
    worst = max(np.abs(a2[q] - aref[q]).max() for q in QUERIES)
    if worst != 0.0:
        failures.append('%s: answers differ from a fresh estimator by up to %.3g' % (label, worst))
    for q in QUERIES:
        digest.update(np.round(a2[q], 8).tobytes())
    lines.append('%-26s order=%s cliques=%s size=%d' % (label, ''.join(m2.elimination_order),
                 ['' .join(c) for c in m2.cliques], m2.size))

for l in lines:
    print(l)
print('digest', digest.hexdigest())
if failures:
    print('FAIL: a call on a returned model leaked into the caller\'s arguments / the estimator:')
    for f in failures:
        print('   ', f)
    sys.exit(1)
print('PASS')

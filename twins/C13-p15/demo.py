"""C13 / pair 2 -- the returned model must be a self-consistent snapshot.

`FactoredInference.mirror_descent` hands back a GraphicalModel whose
`potentials` (used by out-of-clique `project`, `datavector`, `krondot`,
`calculate_many_marginals` and by the next warm-started call) and `marginals`
(used by in-clique `project`) describe the SAME distribution.  If they do not,
the answers of the model change as soon as somebody calls
`model.calculate_many_marginals(...)` (which refreshes `marginals` from
`potentials`), i.e. the snapshot is not immutable.

The demo runs several estimation histories -- among them very accurate
measurements with a tiny iteration budget, where the Armijo line search runs
out of its 25 halvings in the LAST iteration -- and checks for every returned
model that
  (a) belief_propagation(model.potentials) == model.marginals  (bitwise)
  (b) in-clique answers are unchanged by a later calculate_many_marginals call
  (c) in-clique answers agree with variable elimination on the potentials.
"""
import os, sys, hashlib, warnings
ROOT = os.path.dirname(os.path.dirname(os.path.dirname(os.path.abspath(__file__))))
sys.path.insert(0, os.path.join(ROOT, 'src'))
warnings.simplefilter('ignore')
import numpy as np
import mbi
assert os.path.abspath(mbi.__file__).startswith(os.path.join(ROOT, 'src')), mbi.__file__
from mbi import Domain, FactoredInference, GraphicalModel

dom = Domain(['a', 'b', 'c', 'd'], [3, 4, 2, 3])
PAIRS = [('a', 'b'), ('b', 'c'), ('c', 'd')]


def measurements(total, sigma, seed, weight=1.0, upto=3):
    rs = np.random.RandomState(seed)
    out = []
    for cl in PAIRS[:upto]:
        n = dom.size(cl)
        p = rs.dirichlet(np.ones(n)) * total
        Q = weight * np.eye(n)
        out.append((Q, Q @ p + rs.normal(0, sigma, n), sigma, cl))
    return out


failures = []
digest = hashlib.sha256()
lines = []


def check(tag, model):
    # (a) potentials and marginals describe the same distribution
    bp = model.belief_propagation(model.potentials)
    gap = max(np.abs(bp[cl].values - model.marginals[cl].values).max() for cl in model.cliques)
    # (b) in-clique answers before / after a later call on the model
    before = {cl: model.project(cl).datavector() for cl in model.cliques}
    # (c) the same answers computed from the potentials only
    bare = GraphicalModel(model.domain, model.cliques, model.total,
                          elimination_order=model.elimination_order)
    bare.potentials = model.potentials
    ve = max(np.abs(bare.project(cl).datavector() - before[cl]).max() for cl in model.cliques)
    model.calculate_many_marginals([('a', 'd'), ('a', 'c')])
    after = {cl: model.project(cl).datavector() for cl in model.cliques}
    drift = max(np.abs(after[cl] - before[cl]).max() for cl in model.cliques)
    scale = float(model.total)
    if gap != 0.0:
        failures.append('%s: belief_propagation(potentials) differs from marginals by %.3g (total %g)'
                        % (tag, gap, scale))
    if drift != 0.0:
        failures.append('%s: in-clique answers moved by %.3g after calculate_many_marginals'
                        % (tag, drift))
    if ve > 1e-9 * scale:
        failures.append('%s: marginals disagree with variable elimination on potentials by %.3g'
                        % (tag, ve))
    for cl in sorted(before):
        digest.update(np.round(before[cl] / scale, 10).tobytes())
    lines.append('%-34s cliques=%d  max=%.6f' % (tag, len(model.cliques),
                 max(before[cl].max() for cl in before) / scale))


# --- S1: cold estimator, one call each --------------------------------------------
for total, rel, iters in [(1.0, 1e-2, 50), (100.0, 1e-2, 25), (1.0, 1e-4, 200),
                          (1.0, 1e-4, 1), (1.0, 1e-5, 1), (1.0, 1e-4, 2), (2.0, 1e-4, 1)]:
    for seed in (0, 1):
        eng = FactoredInference(dom, iters=iters)
        m = eng.estimate(measurements(total, rel * total, seed), total=total)
        check('cold total=%g rel=%g iters=%d s%d' % (total, rel, iters, seed), m)

# --- S2: heavily weighted workload (Q = 300 I), unit noise -----------------------
for iters in (1, 3, 40):
    eng = FactoredInference(dom, iters=iters)
    m = eng.estimate(measurements(1.0, 1.0, 5, weight=300.0), total=1.0)
    check('weighted iters=%d' % iters, m)

# --- S3: warm-started estimator, one iteration per call, growing measurement list --
eng = FactoredInference(dom, iters=1, warm_start=True)
for k in (1, 2, 3, 3, 3):
    ms = measurements(1.0, 1e-4, 7, upto=k)
    m = eng.estimate(ms, total=1.0)
    check('warm online k=%d' % k, m)

# --- S4: fixed step size (no line search) -----------------------------------------
eng = FactoredInference(dom, iters=30)
m = eng.estimate(measurements(1.0, 1e-2, 3), total=1.0, options={'stepsize': 1e-5})
check('fixed stepsize', m)

for l in lines:
    print(l)
print('digest', digest.hexdigest())
if failures:
    print('FAIL: a returned model is not a self-consistent snapshot '
          '(its potentials and its marginals are different distributions):')
    for f in failures:
        print('   ', f)
    sys.exit(1)
print('PASS')

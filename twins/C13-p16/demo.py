"""C13 / pair 1 -- FactoredInference.fix_measurements: sparse measurement matrices -> CSR.

Clause exercised: "the caller's measurement list, arrays and zero specification are
left unmodified" (and, as a consequence, a caller that refreshes the stored values of
its workload matrix between calls gets what a fresh estimator returns).
"""
import os, sys, io, copy, hashlib, contextlib, warnings
ROOT = os.path.dirname(os.path.dirname(os.path.dirname(os.path.abspath(__file__))))
sys.path.insert(0, os.path.join(ROOT, 'src'))
warnings.filterwarnings('ignore')
import numpy as np
from scipy import sparse
from mbi import Domain, FactoredInference

assert os.path.abspath(sys.modules['mbi'].__file__).startswith(ROOT), sys.modules['mbi'].__file__

DOM = Domain(['a', 'b', 'c'], [3, 4, 2])
lines, problems = [], []


def quiet(f, *a, **k):
    with contextlib.redirect_stdout(io.StringIO()):
        return f(*a, **k)


def fingerprint(Q):
    """ everything a caller can observe about a matrix it owns """
    if Q is None:
        return ('none',)
    if sparse.issparse(Q):
        parts = [Q.format, Q.shape, Q.nnz]
        for name in ('data', 'indices', 'indptr', 'row', 'col', 'offsets'):
            if hasattr(Q, name):
                arr = getattr(Q, name)
                parts.append((name, arr.dtype.str, arr.shape, arr.tobytes()))
        return tuple(parts)
    return ('dense', Q.dtype.str, Q.shape, Q.tobytes())


def snapshot(ms):
    return [(fingerprint(Q), y.tobytes(), noise, copy.deepcopy(proj)) for Q, y, noise, proj in ms]


def answers(model):
    cls = [('a', 'b'), ('b', 'c'), ('a',), ('b',), ('c',)]
    return np.concatenate([model.project(cl).datavector() for cl in cls])


def record(tag, vec):
    lines.append('%-26s %s' % (tag, ' '.join('%.5f' % (v + 0.0) for v in np.round(vec, 5))))


def prefix_workload(n, keep_pattern):
    """ lower-triangular 'prefix sum' workload; with keep_pattern the full n x n pattern is
        stored (upper part as explicit zeros) so that the values can be refreshed in place """
    dense = np.tril(np.ones((n, n)))
    if not keep_pattern:
        return sparse.csr_matrix(dense)
    indptr = np.arange(0, n * n + 1, n)
    indices = np.tile(np.arange(n), n)
    return sparse.csr_matrix((dense.ravel().copy(), indices, indptr), shape=(n, n))


def make(seed, kinds):
    rng = np.random.RandomState(seed)
    ms = []
    for proj, kind in kinds:
        n = DOM.size(proj)
        if kind == 'none':
            Q = None; m = n
        elif kind == 'dense':
            Q = np.eye(n); m = n
        elif kind == 'csr':
            Q = prefix_workload(n, False); m = n
        elif kind == 'csr0':
            Q = prefix_workload(n, True); m = n
        elif kind == 'coo':
            Q = sparse.coo_matrix(np.eye(n)); m = n
        y = rng.rand(m) * 30 + rng.normal(0, 1.0, m)
        ms.append((Q, y, 1.0, proj))
    return ms


def check_inputs(tag, ms, before):
    after = snapshot(ms)
    same = (after == before)
    lines.append('%-26s caller inputs unchanged: %s' % (tag, same))
    if not same:
        for k, (x, z) in enumerate(zip(before, after)):
            if x != z:
                problems.append('%s: measurement %d (%s) was modified: stored entries %s -> %s'
                                % (tag, k, ms[k][3], x[0][2], z[0][2]))


def scenario(tag, kinds, solver='MD', total=None, warm=False):
    ms = make(7, kinds)
    before = snapshot(ms)
    eng = FactoredInference(DOM, iters=150, warm_start=warm)
    m1 = quiet(eng.estimate, ms, total, engine=solver)
    record(tag + ' call0', answers(m1))
    check_inputs(tag, ms, before)
    m2 = quiet(eng.estimate, ms, total, engine=solver)
    fresh = quiet(FactoredInference(DOM, iters=150, warm_start=warm).estimate, make(7, kinds), total, engine=solver)
    if not warm:
        gap = float(np.abs(answers(m2) - answers(fresh)).max())
        lines.append('%-26s second call equals fresh: %s' % (tag, gap < 1e-8))
        if not gap < 1e-8:
            problems.append('%s: second call differs from a fresh estimator by %.3g' % (tag, gap))


scenario('dense+none', [(('a', 'b'), 'dense'), (('b', 'c'), 'none')])
scenario('csr canonical', [(('a', 'b'), 'csr'), (('c',), 'none')])
scenario('csr canonical total', [(('a', 'b'), 'csr'), (('c',), 'none')], total=80.0)
scenario('coo', [(('a', 'b'), 'coo'), (('b', 'c'), 'coo')])
scenario('csr stored zeros', [(('a', 'b'), 'csr0'), (('b', 'c'), 'none')])
scenario('csr stored zeros warm', [(('a', 'b'), 'csr0'), (('b',), 'csr0')], warm=True)

# a caller that keeps ONE workload matrix with a fixed sparsity pattern and refreshes its
# stored values between calls (first the prefix workload, then the full "all ranges from 0" one)
n = DOM.size(('a', 'b'))
Q = prefix_workload(n, True)
rng = np.random.RandomState(11)
y = rng.rand(n) * 30
eng = FactoredInference(DOM, iters=150)
record('template call0', answers(quiet(eng.estimate, [(Q, y, 1.0, ('a', 'b'))], 60.0)))
new_vals = np.triu(np.ones((n, n))).ravel()
try:
    Q.data[:] = new_vals
    got = answers(quiet(eng.estimate, [(Q, y, 1.0, ('a', 'b'))], 60.0))
    record('template call1', got)
    ref = sparse.csr_matrix(np.triu(np.ones((n, n))))
    want = answers(quiet(FactoredInference(DOM, iters=150).estimate, [(ref, y, 1.0, ('a', 'b'))], 60.0))
    if not np.abs(got - want).max() < 1e-6:
        problems.append('template: refreshed workload gives a different model than a fresh estimator')
except ValueError as e:
    problems.append('template: the caller can no longer refresh its matrix after estimate(): %s' % e)

digest = hashlib.sha256('\n'.join(lines).encode()).hexdigest()
print('\n'.join(lines))
print('digest', digest)
if problems:
    print('FAIL')
    for p in problems:
        print('  -', p)
    sys.exit(1)
print('PASS')

"""C13 / pair 2 -- CliqueVector.combine: fast path for a clique present on both sides.

Clause exercised: "With warm start, estimation over a grown or changed measurement
list still converges to the same optimum as a cold start" (and the structural zeros
configured on the estimator stay in force for every call of a history).
"""
import os, sys, io, hashlib, contextlib, warnings
ROOT = os.path.dirname(os.path.dirname(os.path.dirname(os.path.abspath(__file__))))
sys.path.insert(0, os.path.join(ROOT, 'src'))
warnings.filterwarnings('ignore')
import numpy as np
from mbi import Domain, FactoredInference

assert os.path.abspath(sys.modules['mbi'].__file__).startswith(ROOT), sys.modules['mbi'].__file__

DOM = Domain(['a', 'b', 'c'], [2, 3, 2])
ZEROS = {('a', 'b'): [(0, 0), (1, 2)]}
TOTAL = 100.0
lines, problems = [], []


def quiet(f, *a, **k):
    with contextlib.redirect_stdout(io.StringIO()):
        return f(*a, **k)


def meas(seed, cliques, hot=None):
    rng = np.random.RandomState(seed)
    out = []
    for cl in cliques:
        n = DOM.size(cl)
        p = rng.rand(n) + 0.2
        if hot is not None and cl == ('a', 'b'):
            p = p.reshape(2, 3); p[0, 0] += hot; p[1, 2] += hot; p = p.ravel()
        y = TOTAL * p / p.sum() + rng.normal(0, 1.0, n)
        out.append((np.eye(n), y, 1.0, cl))
    return out


def answers(model, cliques=(('a', 'b'), ('b', 'c'), ('a',), ('c',))):
    return np.concatenate([model.project(cl).datavector() for cl in cliques])


def record(tag, vec):
    lines.append('%-28s %s' % (tag, ' '.join('%.5f' % (v + 0.0) for v in np.round(vec, 5))))


def zero_mass(model):
    m = model.project(('a', 'b')).datavector(flatten=False)
    return float(m[0, 0] + m[1, 2])


def run_history(tag, solvers, warm, iters=400, step=None):
    """ one estimator, a sequence of calls; compare the last call with a cold start """
    eng = FactoredInference(DOM, structural_zeros=ZEROS, iters=iters, warm_start=warm)
    for k, (solver, ms) in enumerate(solvers):
        opts = {'stepsize': step} if (step is not None and solver == 'MD') else {}
        model = quiet(eng.estimate, ms, TOTAL, engine=solver, options=opts)
        z = zero_mass(model)
        record('%s call%d %s' % (tag, k, solver), answers(model))
        if z != 0.0:
            problems.append('%s: call %d (%s) puts mass %.4f on the structural zeros' % (tag, k, solver, z))
    cold = FactoredInference(DOM, structural_zeros=ZEROS, iters=2 * iters, warm_start=False)
    opts = {'stepsize': step} if (step is not None and solvers[-1][0] == 'MD') else {}
    ref = quiet(cold.estimate, solvers[-1][1], TOTAL, engine=solvers[-1][0], options=opts)
    gap = float(np.abs(answers(model) - answers(ref)).max())
    lines.append('%-28s gap_to_cold_start<0.5: %s' % (tag, gap < 0.5))
    if not gap < 0.5:
        problems.append('%s: last call differs from a cold start by %.3f records' % (tag, gap))


M1 = meas(1, [('a', 'b')])
M2 = meas(2, [('a', 'b'), ('b', 'c')], hot=3.0)      # wants mass on the forbidden cells
M3 = meas(3, [('a', 'b'), ('b', 'c'), ('a', 'c')], hot=1.0)

run_history('cold MD,MD', [('MD', M1), ('MD', M2)], warm=False)
run_history('warm MD,MD', [('MD', M1), ('MD', M2)], warm=True)
run_history('warm MD,MD,MD', [('MD', M1), ('MD', M2), ('MD', M3)], warm=True)
run_history('warm RDA,MD', [('RDA', M2), ('MD', M2)], warm=True)
run_history('warm IG,MD', [('IG', M1), ('MD', M2)], warm=True)
run_history('warm MD,IG,MD', [('MD', M1), ('IG', M2), ('MD', M2)], warm=True)
run_history('warm RDA,RDA', [('RDA', M1), ('RDA', M2)], warm=True)
# same histories, mirror descent with a constant step (no line search), more iterations
run_history('warm MD,MD step', [('MD', M1), ('MD', M2)], warm=True, iters=1500, step=0.01)
run_history('warm IG,MD step', [('IG', M1), ('MD', M2)], warm=True, iters=1500, step=0.01)
run_history('warm RDA,MD step', [('RDA', M2), ('MD', M2)], warm=True, iters=1500, step=0.01)

digest = hashlib.sha256('\n'.join(lines).encode()).hexdigest()
print('\n'.join(lines))
print('digest', digest)
if problems:
    print('FAIL')
    for p in problems:
        print('  -', p)
    sys.exit(1)
print('PASS')

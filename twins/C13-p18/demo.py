""" C13 / pair 1 -- the iteration counter shared by the three solvers of FactoredInference.

History-freeness under a changing `engine.iters` (mechanisms/aim.py does `engine.iters = 2500`
before its last estimate): the k-th call of an engine whose `iters` attribute was re-assigned
between calls must return exactly what a fresh engine constructed with that `iters` returns,
and must run exactly `engine.iters` solver iterations.
"""
import os, sys, io, hashlib, contextlib
ROOT = os.path.dirname(os.path.dirname(os.path.dirname(os.path.abspath(__file__))))
sys.path.insert(0, os.path.join(ROOT, 'src'))
import warnings; warnings.simplefilter('ignore')
import numpy as np
from mbi import Domain, FactoredInference

dom = Domain(['a', 'b', 'c'], [4, 3, 2])
rng = np.random.RandomState(7)
true_ab = rng.randint(5, 60, size=12).astype(float)
true_bc = rng.randint(5, 60, size=6).astype(float); true_bc *= true_ab.sum() / true_bc.sum()
MS1 = [(None, true_ab + rng.normal(0, 3, 12), 3.0, ('a', 'b'))]
MS2 = MS1 + [(None, true_bc + rng.normal(0, 3, 6), 3.0, ('b', 'c'))]
QUERIES = [('a',), ('b',), ('c',), ('a', 'b'), ('b', 'c'), ('a', 'c')]
LIP = {'RDA': {'lipschitz': 0.5}, 'IG': {'lipschitz': 0.5}, 'MD': {}}   # no eigsh -> deterministic

class Count:
    def __init__(self): self.n = 0
    def __call__(self, mu): self.n += 1

def call(engine, ms, solver, total=None):
    cb = Count()
    with contextlib.redirect_stdout(io.StringIO()):
        model = engine.estimate(ms, total=total, engine=solver, callback=cb, options=dict(LIP[solver]))
    return np.concatenate([model.project(q).datavector() for q in QUERIES]), cb.n

def fresh(iters, ms, solver, total=None, **kw):
    return call(FactoredInference(dom, iters=iters, **kw), ms, solver, total)

failures, digest = [], hashlib.sha256()
def check(label, got, want, engine):
    (ans, n), (ans0, n0) = got, want
    digest.update(np.round(ans, 6).tobytes()); digest.update(str(n).encode())
    same = np.array_equal(ans, ans0)
    print('%-46s iters=%-3d ran=%-3d fresh ran=%-3d identical=%s' % (label, engine.iters, n, n0, same))
    if n != engine.iters or n != n0 or not same:
        failures.append('%s: engine.iters=%d but the solver ran %d iterations (fresh engine: %d); '
                        'max |diff| to the fresh engine = %.3g' % (label, engine.iters, n, n0, np.abs(ans - ans0).max()))

# 1. control: iters re-assigned BEFORE the first call
e = FactoredInference(dom, iters=40); e.iters = 15
check('control: iters set before first call (MD)', call(e, MS2, 'MD'), fresh(15, MS2, 'MD'), e)

# 2. call, raise iters, call again -- for each solver, also across solvers
for s1, s2 in [('MD', 'MD'), ('RDA', 'RDA'), ('IG', 'IG'), ('MD', 'IG'), ('RDA', 'MD')]:
    e = FactoredInference(dom, iters=12)
    check('%s first call' % s1, call(e, MS1, s1), fresh(12, MS1, s1), e)
    e.iters = 45
    check('%s -> iters=45 -> %s' % (s1, s2), call(e, MS2, s2, 700.0), fresh(45, MS2, s2, 700.0), e)
    e.iters = 5
    check('%s -> ... -> iters=5 -> %s' % (s1, s2), call(e, MS2, s2), fresh(5, MS2, s2), e)

# 3. the aim.py pattern: warm-started rounds, then a longer final fit
e = FactoredInference(dom, iters=10, warm_start=True)
call(e, MS1, 'MD'); call(e, MS2, 'MD')
e.iters = 80
ans, n = call(e, MS2, 'MD')
digest.update(np.round(ans, 6).tobytes()); digest.update(str(n).encode())
print('%-46s iters=%-3d ran=%-3d' % ('aim pattern: final fit with iters=80', e.iters, n))
if n != e.iters:
    failures.append('aim pattern: final fit asked for %d iterations, solver ran %d' % (e.iters, n))

if failures:
    print('FAIL: the result of a call depends on the calls made before `engine.iters` was changed')
    for f in failures: print('  -', f)
    sys.exit(1)
print('PASS', digest.hexdigest())

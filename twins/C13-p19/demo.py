""" C13 pair 1 -- where the warm-start switch is tested (`FactoredInference.__init__` + `_setup`).

`engine.warm_start` is a public attribute (like `engine.iters`, which AIM re-assigns between
calls).  The property: whenever the estimator is configured WITHOUT warm start at the time of
a call, the returned model is identical to what a fresh estimator returns for the same
arguments, whatever calls (and whatever configuration) came before; with warm start on, the
result still converges to the cold-start optimum.

The demo replays several call histories on ONE engine, toggling `warm_start` between calls,
and compares every call made with warm_start == False against a fresh engine (exact equality),
and every warm call against the cold optimum (tolerance).
"""
import os, sys, io, hashlib, contextlib, warnings
ROOT = os.path.dirname(os.path.dirname(os.path.dirname(os.path.abspath(__file__))))
sys.path.insert(0, os.path.join(ROOT, 'src'))
warnings.simplefilter('ignore')
import numpy as np
from mbi import Domain, FactoredInference

DOM = Domain(['a', 'b', 'c', 'd'], [3, 4, 2, 3])
QUERIES = [('a',), ('b',), ('c',), ('d',), ('a', 'b'), ('b', 'c'), ('a', 'd'), ('c', 'd')]
ZEROS = {('a', 'b'): [(0, 0), (2, 3)]}

def measurement_sets():
    prng = np.random.RandomState(20260)
    x = prng.dirichlet(np.ones(DOM.size()) * 0.3).reshape(DOM.shape) * 500.0
    x[0, 0] = 0; x[2, 3] = 0
    def marg(proj, sigma):
        ax = tuple(i for i, a in enumerate(DOM.attrs) if a not in proj)
        y = x.sum(axis=ax).flatten()
        return (None, y + prng.normal(0, sigma, y.size), sigma, proj)
    A = [marg(('a',), 4.0), marg(('b',), 4.0), marg(('a', 'b'), 6.0)]
    B = A + [marg(('b', 'c'), 5.0)]
    C = [marg(('c', 'd'), 3.0), marg(('a', 'd'), 3.0), marg(('b',), 2.0)]
    D = [marg(('a', 'b'), 2.0), marg(('b', 'c'), 2.0)]
    return {'A': A, 'B': B, 'C': C, 'D': D}

SETS = measurement_sets()

def answers(model):
    return np.concatenate([model.project(q).datavector() for q in QUERIES])

def run(engine, name, total, solver):
    with contextlib.redirect_stdout(io.StringIO()):   # dual_averaging prints the Lipschitz constant
        return engine.estimate(SETS[name], total=total, engine=solver)

def fresh(zeros, iters, **kw):
    return FactoredInference(DOM, iters=iters, structural_zeros=zeros, **kw)

# (label, structural zeros, iters, initial warm_start, [(warm_start at call time, set, total, solver)])
HISTORIES = [
    ('never-warm', ZEROS, 60, False,
        [(False, 'A', None, 'MD'), (False, 'B', 480.0, 'RDA'), (False, 'C', None, 'IG'), (False, 'A', None, 'MD')]),
    ('always-warm', ZEROS, 400, True,
        [(True, 'A', None, 'MD'), (True, 'B', None, 'MD'), (True, 'D', 500.0, 'MD')]),
    ('cold-then-warm', {}, 400, False,
        [(False, 'A', None, 'MD'), (False, 'C', None, 'MD'), (True, 'D', None, 'MD'), (True, 'B', None, 'MD')]),
    # the history AIM-like drivers produce when they finish with a cold re-fit
    ('warm-then-cold', ZEROS, 60, True,
        [(True, 'A', None, 'MD'), (True, 'B', None, 'MD'), (False, 'B', None, 'MD'), (False, 'C', 510.0, 'MD'),
         (False, 'D', None, 'RDA')]),
    ('warm-cold-warm-cold', {}, 400, True,
        [(True, 'D', None, 'MD'), (False, 'A', None, 'IG'), (True, 'A', None, 'MD'), (False, 'A', None, 'MD')]),
]

def main():
    problems, digest = [], hashlib.sha256()
    for label, zeros, iters, warm0, calls in HISTORIES:
        engine = fresh(zeros, iters, warm_start=warm0)
        returned = []
        for k, (warm, name, total, solver) in enumerate(calls):
            engine.warm_start = warm
            model = run(engine, name, total, solver)
            got = answers(model)
            returned.append((model, got.copy()))
            digest.update(np.round(got, 4).tobytes())
            cold = answers(run(fresh(zeros, iters), name, total, solver))
            if not warm:
                # clause 1: configured without warm start => identical to a fresh estimator
                # (dual_averaging / interior_gradient get their Lipschitz constant from ARPACK, which
                #  starts from a random vector: those are compared up to 1e-9 of the total)
                same = np.array_equal(got, cold) if solver == 'MD' else abs(got - cold).max() <= 1e-9*model.total
                if not same:
                    problems.append('%s call %d (%s,%s) warm_start=False differs from a fresh estimator: '
                                    'max |diff| = %.3e' % (label, k, name, solver, abs(got - cold).max()))
            else:
                # clause 3: a warm start still reaches the cold-start optimum
                err = abs(got - cold).max() / model.total
                if err > 2e-3:
                    problems.append('%s call %d (%s,%s) warm start ends %.3e away from the cold optimum'
                                    % (label, k, name, solver, err))
        # clause 2: models handed back earlier did not change
        for k, (model, before) in enumerate(returned):
            if not np.array_equal(answers(model), before):
                problems.append('%s: model returned by call %d changed afterwards' % (label, k))
    if problems:
        print('FAIL')
        for p in problems:
            print('  ' + p)
        print('An estimator whose warm_start is False at the time of the call must not depend on earlier calls.')
        return 1
    print('PASS')
    print('digest', digest.hexdigest())
    return 0

if __name__ == '__main__':
    sys.exit(main())

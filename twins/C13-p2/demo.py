"""
Pair 2 demo -- FactoredInference._setup(): assignment of measurements to model cliques.

Property clause exercised: "With warm start, estimation over a grown or changed measurement list
still converges to the same optimum as a cold start."  One warm-started estimator is driven
through several histories of measurement lists; after the last call its model is compared with
 (a) a cold-start estimator (warm_start=False, more iterations) run once on the final list, and
 (b) the value of the least-squares objective over the FULL final list, computed here from the
     model's answers only (not through engine internals).
The histories differ in what the new measurements do to the junction tree: add an unrelated
clique (H1), repeat the list (H0), merge two cliques (H2, H5), move a projection into a bigger
clique (H3), drop a measurement so that a clique splits again (H4).

exit 0 + "PASS" + digest : unmodified code, and the preserving change
exit 1 + "FAIL" + reasons: the breaking change
"""
import os, sys, io, hashlib, contextlib, warnings

ROOT = os.path.dirname(os.path.dirname(os.path.dirname(os.path.abspath(__file__))))
sys.path.insert(0, os.path.join(ROOT, 'src'))
warnings.filterwarnings('ignore')

import numpy as np
import mbi
from mbi import Domain, Factor, FactoredInference

if not os.path.abspath(mbi.__file__).startswith(ROOT + os.sep):
    print('ERROR: mbi imported from %s, expected a copy under %s' % (mbi.__file__, ROOT))
    sys.exit(2)

TOTAL = 1000.0
NOISE = 5.0
WARM_ITERS = 200
COLD_ITERS = 400
TOL = 0.05          # counts, out of TOTAL = 1000 (unmodified code agrees far more closely)

dom = Domain(['a', 'b', 'c', 'd'], [3, 4, 2, 3])
truth = Factor(dom, TOTAL * np.random.RandomState(7).dirichlet(np.ones(dom.size())))

A, B, C, D, AB, BC = ('a',), ('b',), ('c',), ('d',), ('a', 'b'), ('b', 'c')
_pool = {}


def measurement(proj):
    """ one fixed noisy measurement per projection, shared by all histories """
    if proj not in _pool:
        prng = np.random.RandomState(sum(map(ord, ''.join(proj))))
        y = truth.project(proj).datavector() + prng.normal(0, NOISE, dom.size(proj))
        _pool[proj] = (None, y, NOISE, proj)
    return _pool[proj]


def quiet(fn, *args, **kwargs):
    with contextlib.redirect_stdout(io.StringIO()):
        return fn(*args, **kwargs)


def answers(model, projs):
    return np.concatenate([model.project(p).datavector() for p in projs])


def objective(model, measurements):
    return sum(0.5 * np.sum(((model.project(p).datavector() - y) / s) ** 2) for _, y, s, p in measurements)


HISTORIES = [
    ('H0 same list twice',           [[A, B, C], [A, B, C]]),
    ('H1 grown: unrelated clique',   [[A, B, C], [A, B, C, D]]),
    ('H2 grown: a,b merge',          [[A, B, C], [A, B, C, AB]]),
    ('H3 grown: c joins (b,c)',      [[A, B, C, AB], [A, B, C, AB, BC]]),
    ('H4 changed: (a,b) dropped',    [[A, B, AB], [A, B]]),
    ('H5 three calls',               [[A, B, C], [A, B, C, AB], [A, B, C, AB, BC]]),
]

failures = []
digest = []

for name, steps in HISTORIES:
    final = [measurement(p) for p in steps[-1]]
    projs = steps[-1]

    # the warm-started estimator lives through the whole history
    warm = FactoredInference(dom, iters=WARM_ITERS, warm_start=True)
    for step in steps:
        m_warm = quiet(warm.estimate, [measurement(p) for p in step], TOTAL)

    # an estimator without warm start lives through the same history: must be exactly history-free
    plain = FactoredInference(dom, iters=WARM_ITERS)
    for step in steps:
        m_plain = quiet(plain.estimate, [measurement(p) for p in step], TOTAL)
    m_fresh = quiet(FactoredInference(dom, iters=WARM_ITERS).estimate, final, TOTAL)
    if not np.array_equal(answers(m_plain, projs), answers(m_fresh, projs)):
        failures.append('%s: estimator WITHOUT warm start: model of the last call differs from a fresh '
                        'estimator (max diff %.3g)' % (name, np.abs(answers(m_plain, projs) - answers(m_fresh, projs)).max()))

    # cold start reference
    m_cold = quiet(FactoredInference(dom, iters=COLD_ITERS).estimate, final, TOTAL)

    diff = np.abs(answers(m_warm, projs) - answers(m_cold, projs)).max()
    obj_w, obj_c = objective(m_warm, final), objective(m_cold, final)
    if diff > TOL:
        failures.append('%s: warm-started model is not at the cold-start optimum: measured marginals differ by '
                        'up to %.3f counts (tolerance %.2f); objective over the final list: warm %.4f, cold %.4f'
                        % (name, diff, TOL, obj_w, obj_c))
    elif obj_w > obj_c + 1e-3:
        failures.append('%s: objective of warm-started model %.6f exceeds cold-start optimum %.6f' % (name, obj_w, obj_c))

    # every measurement of the final list must take part in the loss the engine optimises
    used = sum(len(g) for cl, g in warm.groups.items() if cl in warm.model.cliques)
    if used != len(final):
        failures.append('%s: only %d of the %d measurements of the last call are attached to a clique of the '
                        'current model; the others are silently left out of the loss' % (name, used, len(final)))

    vec = answers(m_warm, projs)
    digest.append('%-30s cliques=%-28s warm-vs-cold<=%.0e  obj=%.6f  sha=%s' % (
        name, ','.join(''.join(cl) for cl in m_warm.cliques), TOL, obj_w,
        hashlib.sha256(np.round(vec, 6).tobytes()).hexdigest()[:16]))

if failures:
    print('FAIL')
    for f in failures:
        print(' -', f)
    sys.exit(1)

print('PASS')
for line in digest:
    print(line)
sys.exit(0)

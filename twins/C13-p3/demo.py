"""
C13 / pair 1 -- structural-zero specification handed to FactoredInference.__init__

Checks, on several zero specifications (canonical keys, keys written in another
attribute order, ndarray-valued entries, two keys naming the same attribute set):

  (c)  the caller's zero specification is left exactly as it was;
  (a)  a second ("fresh") estimator constructed from the very same specification
       object returns bit-identical models for the same sequence of calls;
  ref  both agree bit-for-bit with an estimator built from an independently
       written, canonically-keyed copy of the specification, and put no mass on
       the forbidden cells.

exit 0 + "PASS <digest>" when everything holds, exit 1 + "FAIL ..." otherwise.
"""
import os, sys, io, copy, hashlib, contextlib, warnings

ROOT = os.path.dirname(os.path.dirname(os.path.dirname(os.path.abspath(__file__))))
sys.path.insert(0, os.path.join(ROOT, 'src'))
warnings.simplefilter('ignore')

import numpy as np
from mbi import Domain, FactoredInference
import mbi
assert os.path.abspath(mbi.__file__).startswith(ROOT), mbi.__file__

domain = Domain(['a', 'b', 'c'], [3, 3, 2])
QUERIES = [('a', 'b'), ('b', 'c'), ('a',), ('b',), ('c',), ('a', 'c'), ('a', 'b', 'c')]


def measurements(seed, projs):
    prng = np.random.RandomState(seed)
    out = []
    for proj in projs:
        n = domain.size(proj)
        y = 40.0 * prng.rand(n) + prng.normal(0, 3.0, n)
        out.append((np.eye(n), y, 3.0, proj))
    return out


CALLS = [
    dict(m=measurements(1, [('a', 'b'), ('c',)]), total=None, engine='MD', options={}),
    dict(m=measurements(2, [('a', 'b'), ('b', 'c')]), total=300.0, engine='MD', options={}),
    dict(m=measurements(3, [('a',), ('b', 'c')]), total=None, engine='RDA', options={'lipschitz': 1.0}),
    dict(m=measurements(4, [('a', 'b'), ('b', 'c'), ('a',)]), total=250.0, engine='MD', options={}),
]


def run_calls(spec, warm):
    """ construct an estimator from `spec` and replay CALLS; return all answers """
    engine = FactoredInference(domain, structural_zeros=spec, iters=40, warm_start=warm)
    answers = []
    for call in CALLS:
        with contextlib.redirect_stdout(io.StringIO()):
            model = engine.estimate(list(call['m']), call['total'], engine=call['engine'],
                                    options=dict(call['options']))
        answers.append([model.project(q).datavector() for q in QUERIES])
    return answers


def same(x, y):
    return all(np.array_equal(u, v) for r, s in zip(x, y) for u, v in zip(r, s))


def frozen(spec):
    """ a comparable, order-preserving rendering of a zero specification """
    return [(cl, type(v).__name__, np.array(v).tolist()) for cl, v in spec.items()]


# name -> (specification as the caller writes it, the same zeros written canonically, forbidden (a,b,c) cells)
SPECS = {
    'canonical keys': (
        {('a', 'b'): [(1, 0), (0, 2), (2, 1)], ('c',): [(1,)]},
        {('a', 'b'): [(1, 0), (0, 2), (2, 1)], ('c',): [(1,)]},
        {('a', 'b'): [(1, 0), (0, 2), (2, 1)], ('c',): [(1,)]}),
    'key in another attribute order': (
        {('b', 'a'): [(0, 1), (2, 0), (1, 2)], ('c',): [(1,)]},
        {('a', 'b'): [(1, 0), (0, 2), (2, 1)], ('c',): [(1,)]},
        {('a', 'b'): [(1, 0), (0, 2), (2, 1)], ('c',): [(1,)]}),
    'ndarray entries, reordered key': (
        {('c', 'b'): np.array([[0, 2], [1, 0]]), ('b', 'a'): np.array([[0, 1], [0, 2]])},
        {('b', 'c'): [(2, 0), (0, 1)], ('a', 'b'): [(1, 0), (2, 0)]},
        {('b', 'c'): [(2, 0), (0, 1)], ('a', 'b'): [(1, 0), (2, 0)]}),
    'two keys for one attribute set': (
        {('a', 'b'): [(0, 0)], ('b', 'a'): [(1, 2), (0, 1)]},
        {('a', 'b'): [(0, 0), (2, 1), (1, 0)]},
        {('a', 'b'): [(0, 0), (2, 1), (1, 0)]}),
}

failures = []
digest = hashlib.sha256()
for name, (spec, canonical, forbidden) in SPECS.items():
    for warm in (False, True):
        tag = '%s / warm_start=%s' % (name, warm)
        spec_in = copy.deepcopy(spec)
        before = frozen(spec_in)
        first = run_calls(spec_in, warm)
        if frozen(spec_in) != before:
            failures.append('%s: the zero specification was modified by the estimator\n'
                            '      before: %s\n      after : %s' % (tag, before, frozen(spec_in)))
        try:
            second = run_calls(spec_in, warm)   # "fresh estimator, same arguments"
        except Exception as e:
            failures.append('%s: a fresh estimator built from the same specification raised %r' % (tag, e))
            second = None
        if second is not None and not same(first, second):
            failures.append('%s: fresh estimator built from the same specification object '
                            'returns different models' % tag)
        ref = run_calls(copy.deepcopy(canonical), warm)
        if not same(first, ref):
            failures.append('%s: differs from the canonically written specification' % tag)
        # forbidden cells carry no mass in any returned model
        for ans in first:
            for cl, cells in forbidden.items():
                marg = ans[QUERIES.index(cl)].reshape(domain.project(cl).shape)
                for cell in cells:
                    if not marg[tuple(cell)] <= 1e-9:
                        failures.append('%s: mass %.3g on forbidden cell %s=%s' % (tag, marg[tuple(cell)], cl, cell))
        for ans in first:
            for v in ans:
                digest.update(np.ascontiguousarray(v).tobytes())
        print('%-52s first-call P(a,b)[0:3] = %s' % (tag, np.round(first[0][0][:3], 6).tolist()))

if failures:
    print('FAIL')
    for f in failures:
        print('  -', f)
    sys.exit(1)
print('PASS', digest.hexdigest())

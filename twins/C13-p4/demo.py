"""
C13 / pair 2 -- history-freeness of FactoredInference when the measurement matrices change
between calls (site: FactoredInference._marginal_loss and the transposes it uses).

One estimator object (warm_start=False) is driven through a sequence of estimate calls;
after every call the returned model is compared BIT FOR BIT with the model a fresh
estimator returns for the same arguments.  The sequences are

  S1  the caller keeps ONE scipy.sparse workload object W in its measurement list and edits
      it between calls (W[0,3] = 1 adds a query coefficient, W.data = ... reweights it);
  S2  the caller builds brand-new sparse workloads for every round and drops the old ones
      (old and new matrix objects may then live at the same address);
  S3  dense / LinearOperator / Q=None workloads, measurement list grown and shrunk.

Also checked: models handed back earlier keep their answers, and the caller's y arrays and
workload matrices are not modified by estimate.

exit 0 + "PASS <digest>" when everything holds, exit 1 + "FAIL ..." otherwise.
"""
import os, sys, io, hashlib, contextlib, warnings

ROOT = os.path.dirname(os.path.dirname(os.path.dirname(os.path.abspath(__file__))))
sys.path.insert(0, os.path.join(ROOT, 'src'))
warnings.simplefilter('ignore')

import numpy as np
from scipy import sparse
from scipy.sparse.linalg import aslinearoperator
from mbi import Domain, FactoredInference
import mbi
assert os.path.abspath(mbi.__file__).startswith(ROOT), mbi.__file__

domain = Domain(['a', 'b', 'c'], [4, 3, 2])
QUERIES = [('a',), ('b',), ('c',), ('a', 'b'), ('b', 'c'), ('a', 'c'), ('a', 'b', 'c')]
ITERS = 25
failures = []
digest = hashlib.sha256()


def answers(model):
    return [model.project(q).datavector() for q in QUERIES]


def same(x, y):
    return all(np.array_equal(u, v) for u, v in zip(x, y))


def call(engine, meas, total, solver, options):
    with contextlib.redirect_stdout(io.StringIO()):
        return engine.estimate(list(meas), total, engine=solver, options=dict(options))


def snapshot(meas):
    out = []
    for Q, y, noise, proj in meas:
        if Q is None or not (sparse.issparse(Q) or isinstance(Q, np.ndarray)):
            q = None
        else:
            q = Q.toarray() if sparse.issparse(Q) else Q.copy()
        out.append((q, y.copy(), noise, proj))
    return out


def unchanged(snap, meas):
    for (q, y, noise, proj), (Q, y2, noise2, proj2) in zip(snap, meas):
        if not np.array_equal(y, y2) or noise != noise2 or proj != proj2:
            return False
        if q is not None and not np.array_equal(q, Q.toarray() if sparse.issparse(Q) else Q):
            return False
    return len(snap) == len(meas)


class History:
    """ one long-lived estimator; every call is checked against a fresh estimator """
    def __init__(self, name):
        self.name = name
        self.engine = FactoredInference(domain, iters=ITERS, warm_start=False)
        self.handed_back = []   # (model, answers at the time it was returned)
        self.k = 0

    def step(self, meas, total=None, solver='MD', options={}):
        self.k += 1
        tag = '%s call %d (%s)' % (self.name, self.k, solver)
        snap = snapshot(meas)
        fresh = FactoredInference(domain, iters=ITERS, warm_start=False)
        want = answers(call(fresh, meas, total, solver, options))
        try:
            model = call(self.engine, meas, total, solver, options)
            got = answers(model)
        except Exception as e:
            failures.append('%s: raised %s: %s, although a fresh estimator handles the same '
                            'arguments' % (tag, type(e).__name__, e))
            model, got = None, want
        if not unchanged(snap, meas):
            failures.append('%s: estimate modified the caller\'s measurements' % tag)
        if not same(got, want):
            err = max(np.abs(u - v).max() for u, v in zip(got, want))
            failures.append('%s: model differs from the one a fresh estimator returns for the '
                            'same arguments (max abs difference of an answer: %.6g)' % (tag, err))
        for i, (old, ans) in enumerate(self.handed_back):
            if old is not None and not same(answers(old), ans):
                failures.append('%s: the model handed back by call %d changed its answers' % (tag, i + 1))
        self.handed_back.append((model, got))
        for v in want:
            digest.update(np.ascontiguousarray(v).tobytes())
        return got


def noisy(prng, Q, proj, scale=50.0):
    n = domain.size(proj)
    x = scale * prng.rand(n)
    m = n if Q is None else Q.shape[0]
    truth = x if Q is None else Q @ x
    return truth + prng.normal(0, 2.0, m)


# ---------------------------------------------------------------- S1: one workload object, edited
prng = np.random.RandomState(0)
W = sparse.csr_matrix(np.tril(np.ones((4, 4))))          # prefix sums over attribute a
D = np.eye(12)[:8] + 0.25 * np.eye(12, k=1)[:8]          # a dense 8 x 12 workload on (a, b)
h = History('S1')
meas = [(W, noisy(prng, W, ('a',)), 2.0, ('a',)), (None, noisy(prng, None, ('b',)), 2.0, ('b',)),
        (D, noisy(prng, D, ('a', 'b')), 2.0, ('a', 'b'))]
r = h.step(meas)
print('S1 call 1  P(a) =', np.round(r[0], 4).tolist())
W[0, 3] = 1.0                                            # the caller adds a coefficient to its workload
meas[0] = (W, noisy(prng, W, ('a',)), 2.0, ('a',))
r = h.step(meas)
print('S1 call 2  P(a) =', np.round(r[0], 4).tolist())
W.data = W.data * np.array([1, 3, 1, 1, 2, 1, 1, 1, 1, 1, 1.0])   # ... and reweights its queries
meas[0] = (W, noisy(prng, W, ('a',)), 2.0, ('a',))
r = h.step(meas, total=120.0)
print('S1 call 3  P(a) =', np.round(r[0], 4).tolist())
r = h.step(meas, total=120.0, solver='IG', options={'lipschitz': 40.0})
print('S1 call 4  P(a) =', np.round(r[0], 4).tolist())

# ---------------------------------------------------------------- S2: new workload objects every round
prng = np.random.RandomState(1)
h = History('S2')
for rnd in range(24):
    A = sparse.csr_matrix(np.triu(prng.randint(0, 3, (4, 4))).astype(float) + np.eye(4, k=-1))
    B = sparse.csr_matrix(np.tril(prng.randint(0, 3, (3, 3))).astype(float) + np.eye(3, k=1))
    meas = [(A, noisy(prng, A, ('a',)), 1.5, ('a',)), (B, noisy(prng, B, ('b',)), 1.5, ('b',))]
    r = h.step(meas)
    del A, B, meas
print('S2 last    P(a) =', np.round(r[0], 4).tolist())

# ---------------------------------------------------------------- S3: other matrix kinds, list grown / shrunk
prng = np.random.RandomState(2)
h = History('S3')
L = aslinearoperator(np.triu(np.ones((3, 3))))
m1 = (np.tril(np.ones((4, 4))), noisy(prng, None, ('a',)), 1.0, 'a')
m2 = (L, noisy(prng, None, ('b',)), 1.0, ['b'])
m3 = (None, noisy(prng, None, ('b', 'c')), 3.0, ('b', 'c'))
m4 = (sparse.eye(8).tocsr(), noisy(prng, None, ('a', 'c')), 3.0, ('a', 'c'))
for meas, total, solver, options in [([m1, m2], None, 'MD', {}), ([m1, m2, m3], None, 'MD', {}),
                                     ([m1, m2, m3, m4], 90.0, 'IG', {'lipschitz': 8.0}),
                                     ([m3, m1], None, 'MD', {'stepsize': 0.01}), ([m1, m2, m3, m4], None, 'MD', {})]:
    r = h.step(meas, total, solver, options)
print('S3 last    P(a) =', np.round(r[0], 4).tolist())

if failures:
    print('FAIL')
    for f in failures:
        print('  -', f)
    sys.exit(1)
print('PASS', digest.hexdigest())

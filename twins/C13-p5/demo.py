"""
C13 / pair 1 -- FactoredInference: the per-call measurement groups (engine.groups).

Clause exercised: "An estimator configured without warm start is history-free: the model
returned by its k-th call is identical to what a fresh estimator returns for the same
arguments, whatever calls came before."

For several call histories on ONE engine, the model of every call is compared (bit for bit,
through its clique marginals and a few projections) with the model a FRESH engine returns for
the same arguments.  The histories contain the situations in which a maximal clique of the
model is not literally one of the measured projections:
  * H1  three pairwise marginals (a,b),(b,c),(a,c) -> the model clique is (a,b,c);
        the same projections are measured again with different answers
  * H2  a shrinking measurement list: (a),(b),(c) then only (a)
  * H3  a projection given in non-canonical attribute order: (b,a), twice
  * H4  plain one-way marginals in canonical order, three times (control)
  * H5  H1 followed by a change of solver (MD, RDA, IG) on the same engine
"""
import os, sys, io, hashlib, contextlib, warnings
if os.environ.get('PYTHONHASHSEED') != '0':
    # set/str hashing decides the order of separator axes and elimination ties inside the library,
    # which changes floating point rounding from process to process: pin it for a stable digest
    os.environ['PYTHONHASHSEED'] = '0'
    os.execv(sys.executable, [sys.executable] + sys.argv)
warnings.filterwarnings('ignore')

ROOT = os.path.dirname(os.path.dirname(os.path.dirname(os.path.abspath(__file__))))
sys.path.insert(0, os.path.join(ROOT, 'src'))

import numpy as np
import mbi
assert os.path.abspath(mbi.__file__).startswith(os.path.join(ROOT, 'src')), mbi.__file__
from mbi import Domain, FactoredInference

DOMAIN = Domain(['a', 'b', 'c', 'd'], [2, 3, 4, 2])
QUERIES = [('a',), ('b',), ('c',), ('d',), ('a', 'b'), ('b', 'c'), ('a', 'c'), ('c', 'a'), ('a', 'd')]


def noisy(prng, proj, total=100.0):
    n = DOMAIN.size(proj)
    p = prng.rand(n)
    p /= p.sum()
    return total * p + prng.normal(0, 2.0, n)


def meas(prng, projs, with_matrix=False):
    out = []
    for i, proj in enumerate(projs):
        n = DOMAIN.size(proj)
        Q = np.eye(n) if (with_matrix and i % 2 == 0) else None
        out.append((Q, noisy(prng, proj), 1.0 + 0.5 * i, proj))
    return out


def histories():
    prng = np.random.RandomState(20240513)
    H = {}
    pairs = [('a', 'b'), ('b', 'c'), ('a', 'c')]
    H['H1 pairwise marginals twice (clique a,b,c)'] = [
        dict(measurements=meas(prng, pairs), total=100.0, engine='MD'),
        dict(measurements=meas(prng, pairs), total=100.0, engine='MD'),
    ]
    H['H2 shrinking measurement list'] = [
        dict(measurements=meas(prng, [('a',), ('b',), ('c',)]), total=100.0, engine='MD'),
        dict(measurements=meas(prng, [('a',)]), total=100.0, engine='MD'),
        dict(measurements=meas(prng, [('c',), ('d',)]), total=None, engine='MD'),
    ]
    H['H3 non-canonical projection order'] = [
        dict(measurements=meas(prng, [('b', 'a'), ('c',)], True), total=100.0, engine='MD'),
        dict(measurements=meas(prng, [('b', 'a'), ('c',)], True), total=100.0, engine='MD'),
    ]
    H['H4 one-way marginals, canonical (control)'] = [
        dict(measurements=meas(prng, [('a',), ('b',), ('c',), ('d',)]), total=None, engine='MD'),
        dict(measurements=meas(prng, [('a',), ('b',), ('c',), ('d',)]), total=50.0, engine='MD'),
        dict(measurements=meas(prng, [('a',), ('b',), ('c',), ('d',)]), total=None, engine='MD'),
    ]
    H['H5 pairwise marginals, solver changes'] = [
        dict(measurements=meas(prng, pairs), total=100.0, engine='MD'),
        dict(measurements=meas(prng, pairs), total=100.0, engine='RDA'),
        dict(measurements=meas(prng, pairs + [('d',)]), total=100.0, engine='IG'),
    ]
    return H


def new_engine():
    return FactoredInference(DOMAIN, iters=60, warm_start=False)


def run(engine, call):
    with contextlib.redirect_stdout(io.StringIO()):      # dual averaging prints its constant
        return engine.estimate(list(call['measurements']), total=call['total'], engine=call['engine'])


def snapshot(model):
    parts = [np.float64(model.total).tobytes()]
    for cl in model.cliques:
        parts.append(repr(cl).encode())
        parts.append(np.ascontiguousarray(model.marginals[cl].values, dtype=float).tobytes())
    for q in QUERIES:
        parts.append(np.ascontiguousarray(model.project(q).datavector(), dtype=float).tobytes())
    return b''.join(parts)


def worst_gap(m1, m2):
    return max(float(np.abs(m1.project(q).datavector() - m2.project(q).datavector()).max()) for q in QUERIES)


def main():
    digest = hashlib.sha256()
    failures = []
    for name, calls in histories().items():
        engine = new_engine()
        for k, call in enumerate(calls, 1):
            got = run(engine, call)
            ref = run(new_engine(), call)
            s_got, s_ref = snapshot(got), snapshot(ref)
            digest.update(s_got)
            status = 'same as fresh engine' if s_got == s_ref else 'DIFFERS from fresh engine'
            print('%-46s call %d (%-3s) cliques=%s : %s' % (name, k, call['engine'], got.cliques, status))
            if s_got != s_ref:
                failures.append('%s, call %d: largest difference between a queried marginal of the '
                                'history model and of the fresh model = %.6g'
                                % (name, k, worst_gap(got, ref)))
    if failures:
        print('FAIL: an engine without warm start returned a model that depends on its call history')
        for f in failures:
            print('   -', f)
        print('   (measurements of an earlier call are still filed under a clique of the new model)')
        return 1
    print('PASS digest=' + digest.hexdigest())
    return 0


if __name__ == '__main__':
    sys.exit(main())

"""C13 / pair 1 -- mirror_descent: where the adaptive line-search step lives.

Clause exercised: "an estimator configured without warm start is history-free:
the model returned by its k-th call is identical to what a fresh estimator
returns for the same arguments, whatever calls came before".

Every scenario runs a HISTORY of estimate() calls on ONE engine and compares the
model returned by the last call with the model a FRESH engine returns for the
same arguments.  Exit 0 + PASS + digest when all agree, exit 1 + FAIL otherwise.
"""
import os, sys, io, hashlib, contextlib, warnings
ROOT = os.path.dirname(os.path.dirname(os.path.dirname(os.path.abspath(__file__))))
sys.path.insert(0, os.path.join(ROOT, 'src'))
warnings.filterwarnings('ignore')
import numpy as np
from scipy import sparse
import mbi
from mbi import Domain, FactoredInference

assert os.path.abspath(mbi.__file__).startswith(os.path.join(ROOT, 'src')), mbi.__file__

DOM = Domain(['a', 'b', 'c', 'd'], [2, 3, 4, 3])
QUERIES = [('a',), ('b',), ('c',), ('d',), ('a', 'b'), ('b', 'c'), ('c', 'd'), ('a', 'd'), ('a', 'c')]


def measurements(seed, cliques, total, noise=1.0):
    rng = np.random.RandomState(seed)
    out = []
    for cl in cliques:
        n = DOM.size(cl)
        p = rng.dirichlet(np.ones(n))
        y = total * p + rng.normal(0, noise, n)
        Q = None if rng.rand() < 0.5 else sparse.eye(n, format='csr')
        out.append((Q, y, noise, cl))
    return out


def run(engine, call):
    ms, total, solver = call
    buf = io.StringIO()
    with contextlib.redirect_stdout(buf):
        return engine.estimate(ms, total=total, engine=solver)


def answers(model):
    return np.concatenate([model.project(q).datavector() for q in QUERIES])


def new_engine(iters, **kw):
    return FactoredInference(DOM, iters=iters, **kw)


C1 = [('a',), ('b',), ('c',), ('d',)]
C2 = [('a', 'b'), ('b', 'c'), ('d',)]
C3 = [('a', 'b'), ('c', 'd'), ('b', 'c')]

SCENARIOS = {
    # same arguments twice: the 2nd call must reproduce the 1st
    'repeat-same-call': (40, [(measurements(1, C2, 100.0), 100.0, 'MD'),
                              (measurements(1, C2, 100.0), 100.0, 'MD')]),
    # the total changes by two orders of magnitude between calls
    'total-100-then-10000': (40, [(measurements(2, C1, 100.0), 100.0, 'MD'),
                                  (measurements(3, C2, 10000.0, 5.0), 10000.0, 'MD')]),
    'total-10000-then-50': (40, [(measurements(4, C3, 10000.0, 5.0), 10000.0, 'MD'),
                                 (measurements(5, C2, 50.0), 50.0, 'MD')]),
    # total estimated from the measurements, cliques grow
    'total-None-growing': (30, [(measurements(6, C1, 300.0), None, 'MD'),
                                (measurements(6, C1, 300.0) + measurements(7, [('a', 'b')], 300.0), None, 'MD'),
                                (measurements(6, C1, 300.0) + measurements(7, [('a', 'b'), ('c', 'd')], 300.0), None, 'MD')]),
    # mixed solvers on one engine
    'RDA-IG-then-MD': (25, [(measurements(8, C2, 200.0), 200.0, 'RDA'),
                            (measurements(9, C3, 200.0), 200.0, 'IG'),
                            (measurements(10, C2, 200.0), 200.0, 'MD')]),
    'MD-then-RDA': (25, [(measurements(11, C3, 200.0), 200.0, 'MD'),
                         (measurements(12, C2, 200.0), 200.0, 'RDA')]),
    'MD-then-IG': (25, [(measurements(13, C3, 200.0), 200.0, 'MD'),
                        (measurements(14, C2, 200.0), 200.0, 'IG')]),
}

failures = []
digest = hashlib.sha256()
lines = []
for name, (iters, history) in SCENARIOS.items():
    eng = new_engine(iters)
    returned = []
    snapshots = []
    for k, call in enumerate(history):
        model = run(eng, call)
        got = answers(model)
        ref = answers(run(new_engine(iters), call))
        scale = max(1.0, float(np.abs(ref).max()))
        dev = float(np.abs(got - ref).max()) / scale
        if dev > 1e-9:
            failures.append('%s: call #%d on the re-used engine differs from a fresh engine '
                            '(max relative deviation %.3e, solver %s, total %s)'
                            % (name, k + 1, dev, call[2], call[1]))
        returned.append(model)
        snapshots.append(got)
        digest.update(np.round(got, 6).tobytes())
    # models handed back earlier must not have moved
    for k, (model, snap) in enumerate(zip(returned, snapshots)):
        if not np.array_equal(answers(model), snap):
            failures.append('%s: model returned by call #%d changed afterwards' % (name, k + 1))
    lines.append('%-22s last-call answers[:4] = %s' % (name, np.array2string(snapshots[-1][:4], precision=6)))

# warm start: a grown list must still reach the cold-start optimum
grown = measurements(6, C1, 300.0) + measurements(7, [('a', 'b')], 300.0)
weng = new_engine(400, warm_start=True)
run(weng, (measurements(6, C1, 300.0), 300.0, 'MD'))
warm = answers(run(weng, (grown, 300.0, 'MD')))
cold = answers(run(new_engine(3000), (grown, 300.0, 'MD')))
gap = float(np.abs(warm - cold).max()) / 300.0
if gap > 1e-4:
    failures.append('warm start did not reach the cold-start optimum (gap %.3e)' % gap)
lines.append('warm-vs-cold gap below 1e-4: %s' % (gap <= 1e-4))

if failures:
    print('FAIL')
    for f in failures:
        print('  -', f)
    sys.exit(1)
print('PASS')
for l in lines:
    print(l)
print('digest', digest.hexdigest())

"""C13 / pair 2 -- Factor.project: fast path when there is nothing to project.

Clause exercised: "a model handed back to the caller never changes its answers
because of later calls" (returned models are immutable snapshots).

For several estimated models we record the answers to a fixed set of marginal
queries, then make LATER calls (synthetic_data with various row counts, the
many-marginals routine, more estimate() calls on the same engine, and ordinary
read-only post-processing of returned tables) and ask the same queries again.
Exit 0 + PASS + digest when nothing moved, exit 1 + FAIL otherwise.

Note: under the pandas installed here GraphicalModel.synthetic_data() raises at
its very last statement (building the Dataset); everything before that has run.
The demo therefore tolerates an exception from synthetic_data and does not
print whether one happened.
"""
import os, sys, io, hashlib, contextlib, warnings
ROOT = os.path.dirname(os.path.dirname(os.path.dirname(os.path.abspath(__file__))))
sys.path.insert(0, os.path.join(ROOT, 'src'))
warnings.filterwarnings('ignore')
import numpy as np
import mbi
from mbi import Domain, FactoredInference

assert os.path.abspath(mbi.__file__).startswith(os.path.join(ROOT, 'src')), mbi.__file__

DOM = Domain(['a', 'b', 'c', 'd'], [2, 3, 4, 3])
QUERIES = [('a',), ('b',), ('c',), ('d',), ('b', 'c'), ('c', 'b'), ('a', 'b'), ('c', 'd'), ('a', 'd')]


def measurements(seed, cliques, total, noise=1.0):
    rng = np.random.RandomState(seed)
    out = []
    for cl in cliques:
        n = DOM.size(cl)
        y = total * rng.dirichlet(np.ones(n)) + rng.normal(0, noise, n)
        out.append((None, y, noise, cl))
    return out


def quiet(f, *a, **kw):
    with contextlib.redirect_stdout(io.StringIO()):
        return f(*a, **kw)


def answers(model):
    return np.concatenate([model.project(q).datavector() for q in QUERIES])


def sample(model, **kw):
    np.random.seed(0)
    try:
        quiet(model.synthetic_data, **kw)
    except Exception:
        pass          # pandas-3 incompatibility at the final statement, see docstring


failures = []
digest = hashlib.sha256()
lines = []


def check(name, model, before, what):
    after = answers(model)
    dev = float(np.abs(after - before).max()) / max(1.0, float(np.abs(before).max()))
    if dev > 1e-9:
        bad = [q for q in QUERIES
               if not np.allclose(model.project(q).datavector(), snapshot_of[name][q], rtol=1e-9, atol=1e-7)]
        failures.append('%s: answers of the returned model changed after %s '
                        '(max relative deviation %.3e; affected queries %s)' % (name, what, dev, bad))
        return False
    return True


snapshot_of = {}
CASES = {
    # (cliques measured, total, elimination order, solver)
    'independent-attr-a':   ([('a',), ('b', 'c'), ('d',)], 100.0, None, 'MD'),
    'chain-default-order':  ([('a', 'b'), ('b', 'c'), ('c', 'd')], 100.0, None, 'MD'),
    'pair-bc-order-a-d-c-b': ([('a',), ('b', 'c'), ('d',)], 200.0, ['a', 'd', 'c', 'b'], 'MD'),
    'all-one-way-IG':       ([('a',), ('b',), ('c',), ('d',)], 80.0, None, 'IG'),
    'all-one-way-RDA':      ([('a',), ('b',), ('c',), ('d',)], 80.0, None, 'RDA'),
}

for name, (cliques, total, order, solver) in CASES.items():
    eng = FactoredInference(DOM, iters=60, elim_order=order, warm_start=True)
    model = quiet(eng.estimate, measurements(21, cliques, total), total=total, engine=solver)
    before = answers(model)
    snapshot_of[name] = {q: model.project(q).datavector() for q in QUERIES}
    digest.update(np.round(before, 6).tobytes())
    ok = True

    # later call 1: synthetic data with exactly `total` rows
    sample(model)
    ok &= check(name, model, before, 'synthetic_data()')
    # later call 2: a different number of rows than model.total
    sample(model, rows=37)
    ok &= check(name, model, before, 'synthetic_data(rows=37)')
    sample(model, rows=1000, method='sample')
    ok &= check(name, model, before, "synthetic_data(rows=1000, method='sample')")

    # later call 3: read-only post-processing of tables handed out by the model:
    # turn a returned count table into a probability table (in place on OUR copy)
    for q in [('b', 'c'), ('a',)]:
        table = model.project(q).datavector(flatten=False)
        table /= table.sum()
    ok &= check(name, model, before, 'normalising tables returned by model.project')

    # later call 4: many-marginals routine, then mutate what it returned
    res = model.calculate_many_marginals([('a', 'd'), ('b', 'c'), ('a',)])
    for f in res.values():
        f.values *= 0.0
    ok &= check(name, model, before, 'calculate_many_marginals + zeroing its results')

    # later call 5: more estimation on the same (warm-started) engine
    quiet(eng.estimate, measurements(22, cliques + [('a', 'd')], total), total=total, engine='MD')
    quiet(eng.estimate, measurements(23, cliques, 3 * total), total=3 * total, engine=solver)
    ok &= check(name, model, before, 'two further estimate() calls')

    lines.append('%-22s cliques=%s unchanged=%s a=%s' % (
        name, model.cliques, ok, np.array2string(before[:2], precision=5)))

if failures:
    print('FAIL')
    for f in failures:
        print('  -', f)
    sys.exit(1)
print('PASS')
for l in lines:
    print(l)
print('digest', digest.hexdigest())

"""C13 / pair 1 -- the structural-zero specification handed to FactoredInference.

Clause exercised: "... the caller's measurement list, arrays and zero
specification are left unmodified."  The specification is a dict
{clique: positions}; positions may be a list of tuples or an integer ndarray of
shape (k, r), and (as with any numpy index) may count from the end with
negative numbers.

Exit 0 + PASS + digest when every input object is bit-for-bit what the caller
passed in and the models agree with the reference; exit 1 + FAIL otherwise.
"""
import os, sys, io, copy, hashlib, itertools, contextlib
ROOT = os.path.dirname(os.path.dirname(os.path.dirname(os.path.abspath(__file__))))
sys.path.insert(0, os.path.join(ROOT, 'src'))
import warnings
warnings.simplefilter('ignore')
import numpy as np
from mbi import Domain, Factor, FactoredInference
import mbi
assert os.path.abspath(mbi.__file__).startswith(ROOT), mbi.__file__

ATTRS, SHAPE = ['a', 'b', 'c'], [3, 4, 2]
DOM = Domain(ATTRS, SHAPE)
TOTAL = 50.0
rng = np.random.RandomState(7)
TRUTH = rng.rand(*SHAPE) + 0.1
TRUTH *= TOTAL / TRUTH.sum()

def meas(proj, sigma=1.0):
    ax = tuple(i for i, a in enumerate(ATTRS) if a not in proj)
    x = TRUTH.sum(axis=ax).flatten()
    return (np.eye(x.size), x + rng.normal(0, sigma, x.size), sigma, proj)

MS = [meas(('a', 'b')), meas(('b', 'c')), meas(('c',))]
PROJS = [p for r in (1, 2, 3) for p in itertools.combinations(ATTRS, r)]

# the same set of impossible cells, written in different but equivalent ways
SPECS = [
    ('list of tuples',            lambda: {('a', 'b'): [(0, 0), (2, 3)]}),
    ('list of tuples, negative',  lambda: {('a', 'b'): [(0, 0), (-1, -1)]}),
    ('int64 array',               lambda: {('a', 'b'): np.array([[0, 0], [2, 3]])}),
    ('int64 array, negative',     lambda: {('a', 'b'): np.array([[0, 0], [-1, -1]])}),
    ('int32 array, negative',     lambda: {('a', 'b'): np.array([[0, 0], [-1, 3]], dtype=np.int32)}),
    ('array slice, negative',    lambda: {('a', 'b'): np.array([[9, 9], [0, 0], [-1, -1]])[1:]}),
    ('single attribute, array',   lambda: {('b',): np.array([[1], [-1]]), ('a', 'b'): [(0, 0)]}),
]

def snapshot(spec):
    return {k: (type(v).__name__, getattr(v, 'dtype', None), copy.deepcopy(v)) for k, v in spec.items()}

def unchanged(spec, snap):
    if list(spec.keys()) != list(snap.keys()):
        return False
    for k, (tname, dtype, old) in snap.items():
        v = spec[k]
        if type(v).__name__ != tname or getattr(v, 'dtype', None) != dtype:
            return False
        if isinstance(v, np.ndarray):
            if v.shape != old.shape or not np.array_equal(v, old):
                return False
        elif v != old:
            return False
    return True

def answers(model):
    return np.concatenate([model.project(p).datavector() for p in PROJS]) / TOTAL

def estimate(engine, ms, solver='MD'):
    with contextlib.redirect_stdout(io.StringIO()):
        return engine.estimate(ms, TOTAL, engine=solver)

failures, lines = [], []
for name, make in SPECS:
    spec = make()
    snap = snapshot(spec)
    ms = list(MS)
    ys = [m[1].copy() for m in ms]
    engine = FactoredInference(DOM, iters=150, structural_zeros=spec)
    ok_after_init = unchanged(spec, snap)
    m1 = estimate(engine, ms)
    m2 = estimate(engine, ms[:2], 'IG')
    ok_after_calls = unchanged(spec, snap)
    ok_ms = len(ms) == len(MS) and all(a is b for a, b in zip(ms, MS)) and \
            all(np.array_equal(m[1], y) for m, y in zip(ms, ys))
    # the specification must still be usable to configure a second, fresh estimator
    fresh = FactoredInference(DOM, iters=150, structural_zeros=spec)
    same = bool(np.array_equal(answers(estimate(fresh, ms)), answers(m1)))
    # and it must describe what a pristine copy describes
    ref = FactoredInference(DOM, iters=150, structural_zeros=make())
    same_ref = bool(np.array_equal(answers(estimate(ref, ms)), answers(m1)))
    zero_cells = sorted(map(tuple, np.argwhere(m1.project(('a', 'b')).values == 0).tolist()))
    lines.append('%-26s spec-unchanged:%s/%s inputs-unchanged:%s refit-identical:%s/%s zero-cells:%s a1=%s' % (
        name, ok_after_init, ok_after_calls, ok_ms, same, same_ref, zero_cells,
        ' '.join('%.4f' % v for v in answers(m1)[:9])))
    if not ok_after_init:
        failures.append("%s: constructing FactoredInference rewrote the caller's zero specification: "
                        "passed %r, now %r" % (name, {k: v[2].tolist() if hasattr(v[2], 'tolist') else v[2]
                                                       for k, v in snap.items()},
                                               {k: v.tolist() if hasattr(v, 'tolist') else v for k, v in spec.items()}))
    elif not ok_after_calls:
        failures.append("%s: estimate() rewrote the caller's zero specification" % name)
    if not ok_ms:
        failures.append('%s: measurement list / arrays modified' % name)
    if not (same and same_ref):
        failures.append('%s: re-using the specification gives a different model' % name)

# Factor.active itself, on the forms above
for name, make in SPECS:
    for cl, cells in make().items():
        keep = copy.deepcopy(cells)
        f = Factor.active(DOM.project(cl), cells)
        same = np.array_equal(cells, keep) if isinstance(cells, np.ndarray) else cells == keep
        lines.append('active %-26s %s -> -inf at %s, argument unchanged: %s' % (
            name, cl, sorted(map(tuple, np.argwhere(np.isneginf(f.values)).tolist())), bool(same)))
        if not same:
            failures.append('Factor.active(%s) modified its argument (%s)' % (cl, name))

if failures:
    print('FAIL')
    for f in failures:
        print('  -', f)
    sys.exit(1)
print('PASS')
for l in lines:
    print(l)
print('digest', hashlib.sha256('\n'.join(lines).encode()).hexdigest())

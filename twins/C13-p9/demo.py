"""C13 / pair 2 -- warm start over a CHANGED measurement list, with structural zeros.

Clause exercised: "With warm start, estimation over a grown or changed
measurement list still converges to the same optimum as a cold start."

Exit 0 + PASS + digest when every warm-started result agrees with a cold start,
exit 1 + FAIL otherwise.
"""
import os, sys, io, hashlib, itertools, contextlib
ROOT = os.path.dirname(os.path.dirname(os.path.dirname(os.path.abspath(__file__))))
sys.path.insert(0, os.path.join(ROOT, 'src'))
import warnings
warnings.simplefilter('ignore')
import numpy as np
from mbi import Domain, FactoredInference
import mbi
assert os.path.abspath(mbi.__file__).startswith(ROOT), mbi.__file__

ATTRS, SHAPE = ['a', 'b', 'c'], [2, 3, 2]
DOM = Domain(ATTRS, SHAPE)
ZEROS = {('a', 'b'): [(0, 0), (1, 2)]}
TOTAL = 100.0
ITERS = 600
TOL = 1e-3          # in units of probability mass (answers are divided by TOTAL)

rng = np.random.RandomState(20261004)
TRUTH = rng.rand(*SHAPE) + 0.2
TRUTH[0, 0, :] = 0
TRUTH[1, 2, :] = 0
TRUTH *= TOTAL / TRUTH.sum()

def meas(proj, sigma=2.0):
    """identity measurement of the marginal on proj, with (seeded) noise"""
    ax = tuple(i for i, a in enumerate(ATTRS) if a not in proj)
    x = TRUTH.sum(axis=ax).flatten()
    return (None, x + rng.normal(0, sigma, x.size), sigma, proj)

M_ab, M_bc, M_c, M_a, M_abc, M_ac = (meas(p) for p in
    [('a', 'b'), ('b', 'c'), ('c',), ('a',), ('a', 'b', 'c'), ('a', 'c')])

PROJS = [p for r in (1, 2, 3) for p in itertools.combinations(ATTRS, r)]

def answers(model):
    return np.concatenate([model.project(p).datavector() for p in PROJS]) / TOTAL

def forbidden_mass(model, zeros):
    tot = 0.0
    for cl, cells in zeros.items():
        mu = model.project(cl).values
        tot += sum(abs(mu[c]) for c in cells)
    return tot / TOTAL

def run(engine, history, solver='MD'):
    out = io.StringIO()
    with contextlib.redirect_stdout(out):
        for ms in history:
            model = engine.estimate(list(ms), TOTAL, engine=solver)
    return model

SCENARIOS = [
    # name, structural zeros, history of measurement lists (last one is compared with a cold start)
    ('grown list, zeros',           ZEROS, [[M_ab], [M_ab, M_bc]]),
    ('grown list, merged cliques',  ZEROS, [[M_ab, M_bc], [M_ab, M_bc, M_ac]]),
    ('changed list, no zeros',      {},    [[M_abc, M_a], [M_ab, M_c]]),
    ('changed list, zeros',         ZEROS, [[M_abc, M_a], [M_ab, M_c]]),
    ('shrunk then grown, zeros',    ZEROS, [[M_abc], [M_ab, M_c], [M_ab, M_bc]]),
    ('same list twice, zeros',      ZEROS, [[M_ab, M_bc], [M_ab, M_bc]]),
]

failures, lines = [], []
for name, zeros, history in SCENARIOS:
    warm = FactoredInference(DOM, iters=ITERS, warm_start=True, structural_zeros=zeros)
    cold = FactoredInference(DOM, iters=ITERS, warm_start=False, structural_zeros=zeros)
    mw = run(warm, history)
    mc = run(cold, history[-1:])
    aw, ac = answers(mw), answers(mc)
    gap = float(np.max(np.abs(aw - ac)))
    fz_w, fz_c = forbidden_mass(mw, zeros), forbidden_mass(mc, zeros)
    lines.append('%-28s gap<=tol:%s forbidden(warm)=%.6f forbidden(cold)=%.6f answers=%s' % (
        name, gap <= TOL, fz_w, fz_c, ' '.join('%.4f' % v for v in aw)))
    if gap > TOL:
        failures.append('%s: warm-started answers differ from the cold start by %.4g (tol %.1g)' % (name, gap, TOL))
    if fz_w != 0.0:
        failures.append('%s: warm-started model puts mass %.4g on structurally impossible cells '
                        '(cold start: %.4g)' % (name, fz_w, fz_c))

# history-free control: an engine WITHOUT warm start must not care about the history at all
for name, zeros, history in SCENARIOS:
    e1 = FactoredInference(DOM, iters=200, warm_start=False, structural_zeros=zeros)
    e2 = FactoredInference(DOM, iters=200, warm_start=False, structural_zeros=zeros)
    a1, a2 = answers(run(e1, history)), answers(run(e2, history[-1:]))
    same = bool(np.array_equal(a1, a2))
    lines.append('%-28s no-warm-start identical to fresh: %s' % (name, same))
    if not same:
        failures.append('%s: engine without warm start depends on its history' % name)

# the warm start must also survive a change of solver (RDA/IG store mle potentials)
for solver in ('IG', 'RDA'):
    warm = FactoredInference(DOM, iters=300, warm_start=True, structural_zeros=ZEROS)
    run(warm, [[M_abc, M_a]], solver)
    mw = run(warm, [[M_ab, M_c]], 'MD')
    lines.append('%-28s answers=%s' % (solver + ' then MD, changed list', ' '.join('%.4f' % v for v in answers(mw))))

if failures:
    print('FAIL')
    for f in failures:
        print('  -', f)
    sys.exit(1)
print('PASS')
for l in lines:
    print(l)
print('digest', hashlib.sha256('\n'.join(lines).encode()).hexdigest())

"""C13 / refactor 1 -- equivalence demo for FactoredInference._setup.

Exercises the code touched by the refactoring (total estimation when
total=None, construction of the starting parameters of each new model,
with and without warm start, with structural zeros) through sequences of
estimate() calls on ONE estimator object, and prints a deterministic digest:
  * the estimated total and the answers of every returned model,
  * the answers of EARLIER returned models re-read after later calls,
  * whether the caller's measurement list / arrays / zero specification
    were left unmodified.
The output must be byte-identical on the unmodified and the refactored code.
"""
import os, sys, io, contextlib, copy, hashlib
if os.environ.get('PYTHONHASHSEED') != '0':        # make set/dict-of-str iteration order reproducible
    os.environ['PYTHONHASHSEED'] = '0'
    os.execv(sys.executable, [sys.executable] + sys.argv)
ROOT = os.path.abspath(os.path.join(os.path.dirname(os.path.abspath(__file__)), '..', '..'))
sys.path.insert(0, os.path.join(ROOT, 'src'))
sys.path.insert(1, ROOT)

import numpy as np
from scipy import sparse
import mbi
from mbi import Domain, FactoredInference

assert os.path.abspath(mbi.__file__).startswith(ROOT), 'wrong mbi imported: ' + mbi.__file__

np.random.seed(12345)
# attribute order of the domain deliberately not alphabetical
domain = Domain(['c', 'a', 'd', 'b'], [4, 5, 2, 3])
QUERIES = [('a',), ('b',), ('b', 'a'), ('c', 'b'), ('d', 'a'), ('a', 'c', 'd')]

prng = np.random.RandomState(7)


def truth(proj, total=500.0):
    return prng.dirichlet(np.ones(domain.size(proj))) * total


def meas(proj, noise, kind='identity'):
    n = domain.size(proj)
    x = truth(proj)
    if kind == 'identity':
        Q = sparse.eye(n, format='csr')
    elif kind == 'none':
        Q = None
    elif kind == 'prefix':
        Q = np.tril(np.ones((n, n)))
    elif kind == 'partial':          # does not span the all-ones query: no total estimate
        Q = np.eye(n)[: max(1, n // 2)]
    elif kind == 'total':            # a single counting query
        Q = np.ones((1, n))
    Qm = np.eye(n) if Q is None else Q
    y = Qm @ x + prng.normal(0, noise, Qm.shape[0])
    return (Q, y, noise, proj)


# heterogeneous noise, permuted attribute orders inside projections, list-valued proj
M1 = [meas(('a',), 2.0), meas(('b', 'a'), 7.5, 'none'), meas(['c', 'b'], 1.0)]
M2 = [meas(('a',), 3.0, 'prefix'), meas(('a', 'b'), 0.5), meas(('d', 'a'), 11.0), meas('d', 4, 'total')]
M3 = [meas(('c', 'b'), 2.0, 'partial'), meas(('d',), 1.5, 'partial')]
M4 = M1 + [meas(('a', 'c'), 6.0), meas(('c',), 0.25, 'total')]

ZEROS = {('a', 'b'): [(0, 0), (1, 2), (4, 1)], ('d',): [(1,)]}


def digest(arr):
    arr = np.round(np.asarray(arr, dtype=float), 8) + 0.0      # +0.0 removes -0.0
    return hashlib.sha256(arr.tobytes()).hexdigest()[:16]


def answers(model):
    return np.concatenate([model.project(q).datavector() for q in QUERIES])


def show(tag, model):
    a = answers(model)
    print('%-34s total=%.8f cliques=%s' % (tag, model.total, model.cliques))
    print('    answers[:6]=%s sum=%.6f sha=%s' % (np.round(a[:6], 6).tolist(), a.sum(), digest(a)))
    pots = np.concatenate([model.potentials[cl].values.flatten() for cl in model.cliques])
    finite = np.isfinite(pots)
    print('    potentials: n=%d ninf=%d sha=%s' % (pots.size, int((~finite).sum()),
                                                   digest(np.where(finite, pots, -1e9))))
    return a


def snapshot(measurements):
    return copy.deepcopy([(None if Q is None else (Q.toarray() if sparse.issparse(Q) else Q), y, s, p)
                          for Q, y, s, p in measurements])


def same(s1, s2):
    if len(s1) != len(s2):
        return False
    for (Q1, y1, n1, p1), (Q2, y2, n2, p2) in zip(s1, s2):
        if (Q1 is None) != (Q2 is None):
            return False
        if Q1 is not None and not np.array_equal(Q1, Q2):
            return False
        if not np.array_equal(y1, y2) or n1 != n2 or p1 != p2 or type(p1) is not type(p2):
            return False
    return True


def scenario(name, warm, zeros, calls, iters=40):
    print('=' * 78)
    print('scenario %s  warm_start=%s zeros=%s' % (name, warm, sorted(zeros)))
    zeros_before = copy.deepcopy(zeros)
    eng = FactoredInference(domain, iters=iters, warm_start=warm, structural_zeros=zeros)
    returned = []
    for k, (ms, total, solver, opts) in enumerate(calls):
        before = snapshot(ms)
        n_before = len(ms)
        with contextlib.redirect_stdout(io.StringIO()):
            model = eng.estimate(ms, total=total, engine=solver, options=dict(opts))
        a = show('call %d %s total=%r n=%d' % (k, solver, total, len(ms)), model)
        print('    inputs unmodified: %s' % (same(before, snapshot(ms)) and len(ms) == n_before))
        returned.append((model, a))
        # earlier snapshots re-read after this call
        for j, (m_old, a_old) in enumerate(returned[:-1]):
            print('    model of call %d unchanged: %s' % (j, np.array_equal(answers(m_old), a_old)))
        print('    engine.groups keys: %s' % sorted(eng.groups.keys()))
    print('zero spec unmodified: %s' % (zeros == zeros_before))


CALLS_A = [(M1, None, 'MD', {}), (M2, None, 'MD', {}), (M3, None, 'MD', {}),
           (M1, 321.5, 'MD', {'stepsize': 0.001}), (M4, None, 'MD', {}), (M1, None, 'MD', {})]
CALLS_B = [(M1, None, 'RDA', {}), (M4, 250.0, 'IG', {}), (M2, None, 'RDA', {'lipschitz': 3.0}),
           (M2, None, 'IG', {'lipschitz': 2.0, 'c': 1, 'sigma': 1}), (M1, None, 'MD', {})]

scenario('A-cold', False, {}, CALLS_A)
scenario('A-warm', True, {}, CALLS_A)
scenario('A-cold-zeros', False, ZEROS, CALLS_A)
scenario('A-warm-zeros', True, ZEROS, CALLS_A)
scenario('B-cold-zeros', False, ZEROS, CALLS_B, iters=25)
scenario('B-warm-zeros', True, ZEROS, CALLS_B, iters=25)

# direct look at the per-call state rebuilt by _setup (no optimisation at all)
print('=' * 78)
print('direct _setup')
for warm in (False, True):
    eng = FactoredInference(domain, iters=5, warm_start=warm, structural_zeros=ZEROS)
    for k, (ms, total) in enumerate([(M1, None), (M3, None), (M2, 99.0), (M4, None), ([], None)]):
        fixed = eng.fix_measurements(ms)
        eng._setup(fixed, total)
        m = eng.model
        pots = np.concatenate([m.potentials[cl].values.flatten() for cl in m.cliques])
        finite = np.isfinite(pots)
        print('warm=%s setup %d: total=%r cliques=%s ninf=%d potsum=%.8f groups=%s' % (
            warm, k, float(m.total), m.cliques, int((~finite).sum()), pots[finite].sum(),
            {cl: len(v) for cl, v in sorted(eng.groups.items())}))
        # give the model non-trivial parameters so that the next warm start has something to add
        for i, cl in enumerate(m.cliques):
            m.potentials[cl] = m.potentials[cl] + 0.125 * (i + 1)

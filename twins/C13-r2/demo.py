"""C13 / refactor 2 -- equivalence demo for CliqueVector.combine.

Part 1 calls combine() directly on hand-made clique vectors (covered and
uncovered cliques, several candidate targets, permuted attribute orders,
-inf entries, empty vectors, a vector combined with itself) and prints the
resulting values together with aliasing facts (which Factor objects were
updated in place, whether the argument was left untouched).
Part 2 drives combine() through its real callers: FactoredInference with and
without warm start / structural zeros over a history of estimate() calls
(MD, RDA, IG), and LocalInference with warm start.
The output must be byte-identical on the unmodified and the refactored code.
"""
import os, sys, io, contextlib, copy, hashlib
if os.environ.get('PYTHONHASHSEED') != '0':        # make set/dict-of-str iteration order reproducible
    os.environ['PYTHONHASHSEED'] = '0'
    os.execv(sys.executable, [sys.executable] + sys.argv)
ROOT = os.path.abspath(os.path.join(os.path.dirname(os.path.abspath(__file__)), '..', '..'))
sys.path.insert(0, os.path.join(ROOT, 'src'))
sys.path.insert(1, ROOT)

import numpy as np
from scipy import sparse
import mbi
from mbi import Domain, Factor, CliqueVector, FactoredInference, LocalInference

assert os.path.abspath(mbi.__file__).startswith(ROOT), 'wrong mbi imported: ' + mbi.__file__

np.random.seed(2024)
domain = Domain(['c', 'a', 'd', 'b'], [4, 5, 2, 3])


def digest(arr):
    arr = np.asarray(arr, dtype=float)
    arr = np.where(np.isfinite(arr), arr, -1e9)
    arr = np.round(arr, 8) + 0.0
    return hashlib.sha256(arr.tobytes()).hexdigest()[:16]


def describe(vec):
    out = []
    for cl in vec:                       # insertion order is part of the behaviour
        v = vec[cl].values
        fin = np.isfinite(v)
        out.append('%s%s sum=%.6f ninf=%d sha=%s' % (cl, vec[cl].domain.attrs, v[fin].sum(),
                                                     int((~fin).sum()), digest(v)))
    return out


def factor(prng, attrs, ninf=0):
    dom = domain.project(attrs)
    vals = np.array(np.round(prng.normal(0, 2, dom.shape), 3), dtype=float)
    flat = vals.reshape(-1)
    for i in prng.choice(flat.size, ninf, replace=False):
        flat[i] = -np.inf
    return Factor(dom, vals)


def vector(prng, cliques, ninf=0):
    return CliqueVector({cl: factor(prng, cl, ninf) for cl in cliques})


print('=' * 30, 'part 1: direct calls')
prng = np.random.RandomState(3)
CASES = [
    # (cliques of self, cliques of other)
    ([('a', 'b'), ('b', 'c'), ('d',)], [('a',), ('b',), ('c', 'b'), ('d',)]),
    ([('a', 'b'), ('b', 'c'), ('d',)], [('b', 'a'), ('a', 'c'), ('a', 'd'), ()]),
    ([('b', 'c'), ('a', 'b'), ('a', 'b', 'c')], [('b',), ('a', 'b'), ('c', 'a'), ('b',)]),
    ([('c', 'a', 'd', 'b')], [('a',), ('d', 'c'), ('b', 'd', 'a', 'c'), ('b', 'a', 'c')]),
    ([], [('a',), ('b',)]),
    ([('a',), ('b',)], []),
    ([('a', 'b'), ('a', 'b')], [('a', 'b')]),
]
for n, (mine, theirs) in enumerate(CASES):
    for ninf in (0, 2):
        me = vector(prng, mine)
        if ninf:
            other = CliqueVector({cl: factor(prng, cl, min(ninf, max(domain.size(cl) - 1, 0))) for cl in theirs})
        else:
            other = vector(prng, theirs)
        ids_before = {cl: id(me[cl]) for cl in me}
        arrs_before = {cl: id(me[cl].values) for cl in me}
        other_before = copy.deepcopy({cl: other[cl].values for cl in other})
        ret = me.combine(other)
        print('case %d ninf=%d -> returned %r, keys %s' % (n, ninf, ret, list(me.keys())))
        for line in describe(me):
            print('   ', line)
        print('    same Factor objects: %s; same arrays: %s; other untouched: %s; other keys %s' % (
            all(id(me[cl]) == ids_before[cl] for cl in me),
            all(id(me[cl].values) == arrs_before[cl] for cl in me),
            all(np.array_equal(other[cl].values, other_before[cl]) for cl in other),
            list(other.keys())))

# combining twice accumulates; combining a vector with itself doubles covered entries
me = vector(prng, [('a', 'b'), ('b', 'c'), ('b',)])
other = vector(prng, [('b',), ('c',)])
me.combine(other); me.combine(other)
print('twice:', describe(me))
me.combine(me)
print('self :', describe(me))

# plain dict argument and structural-zero style argument
me = CliqueVector.zeros(domain, [('a', 'b'), ('c', 'd')])
me.combine({('b',): Factor.active(domain.project(('b',)), [(1,)]),
            ('d', 'c'): Factor.active(domain.project(('d', 'c')), [(0, 3), (1, 1)]),
            ('a', 'c'): Factor.active(domain.project(('a', 'c')), [(0, 0)])})
print('zeros:', describe(me))

print('=' * 30, 'part 2: through the estimators')
QUERIES = [('a',), ('b',), ('b', 'a'), ('c', 'b'), ('d', 'a'), ('a', 'c', 'd')]
prng = np.random.RandomState(11)


def meas(proj, noise, prefix=False):
    n = domain.size(proj)
    x = prng.dirichlet(np.ones(n)) * 400.0
    Q = np.tril(np.ones((n, n))) if prefix else sparse.eye(n, format='csr')
    return (Q, Q @ x + prng.normal(0, noise, n), noise, proj)


M1 = [meas(('a',), 2.0), meas(('b', 'a'), 7.5), meas(['c', 'b'], 1.0)]
M2 = [meas(('a',), 3.0, True), meas(('a', 'b'), 0.5), meas(('d', 'a'), 11.0)]
M3 = M1 + [meas(('a', 'c'), 6.0), meas('d', 0.25)]
ZEROS = {('a', 'b'): [(0, 0), (1, 2), (4, 1)], ('d',): [(1,)], ('c', 'd'): [(2, 0)]}


def answers(model):
    return np.concatenate([model.project(q).datavector() for q in QUERIES])


def potentials(model):
    return np.concatenate([model.potentials[cl].values.flatten() for cl in model.cliques])


for warm in (False, True):
    for zeros in ({}, ZEROS):
        eng = FactoredInference(domain, iters=30, warm_start=warm, structural_zeros=zeros)
        kept = []
        calls = [(M1, None, 'MD'), (M2, 390.0, 'RDA'), (M3, None, 'MD'), (M2, None, 'IG'),
                 (M1, None, 'RDA'), (M1, None, 'MD')]
        for k, (ms, total, solver) in enumerate(calls):
            with contextlib.redirect_stdout(io.StringIO()):
                model = eng.estimate(ms, total=total, engine=solver)
            a = answers(model)
            kept.append((model, a))
            p = potentials(model)
            print('warm=%s zeros=%d call %d %-3s total=%.6f cliques=%s' % (
                warm, len(zeros), k, solver, model.total, model.cliques))
            print('    answers sum=%.6f sha=%s head=%s' % (a.sum(), digest(a), np.round(a[:5], 6).tolist()))
            print('    potentials ninf=%d sha=%s; earlier models unchanged: %s' % (
                int(np.isneginf(p).sum()), digest(p),
                [bool(np.array_equal(answers(m), a0)) for m, a0 in kept[:-1]]))
        sz = eng.structural_zeros
        print('    structural zero factors still 0/-inf only: %s' % all(
            set(np.unique(sz[cl].values).tolist()) <= {0.0, -np.inf} for cl in sz))

for oracle in ('convex', 'pairwise'):
    eng = LocalInference(domain, iters=15, warm_start=True, marginal_oracle=oracle,
                         structural_zeros={('a', 'b'): [(0, 0), (1, 2)]})
    for k, ms in enumerate([M1, M2, M1]):
        ms = [(Q, y, s, tuple(pr)) for Q, y, s, pr in ms]     # RegionGraph needs hashable cliques
        with contextlib.redirect_stdout(io.StringIO()):
            model = eng.estimate(ms, total=400.0)
        p = np.concatenate([model.potentials[cl].values.flatten() for cl in model.cliques])
        print('local %s call %d cliques=%s ninf=%d potentials sha=%s' % (
            oracle, k, model.cliques, int(np.isneginf(p).sum()), digest(p)))

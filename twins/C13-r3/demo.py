"""C13 / refactor 3 -- equivalence demo for GraphicalModel.belief_propagation.

Part 1 calls belief_propagation() directly on several models (chain, star,
single clique, disconnected cliques, permuted attribute orders, custom
elimination order, integer / float / tiny / huge totals) with random, zero and
-inf-carrying potentials, with logZ=False and logZ=True, and records
  * the marginals and logZ,
  * that the potentials passed in are bit-for-bit unchanged afterwards and that
    the returned factors do not alias them,
  * that two successive calls return independent, equal results.
Part 2 drives it through its callers: estimate() histories (MD / RDA / IG,
with and without warm start and structural zeros), krondot and
calculate_many_marginals.
The output must be byte-identical on the unmodified and the refactored code.
"""
import os, sys, io, contextlib, copy, hashlib
if os.environ.get('PYTHONHASHSEED') != '0':        # make set/dict-of-str iteration order reproducible
    os.environ['PYTHONHASHSEED'] = '0'
    os.execv(sys.executable, [sys.executable] + sys.argv)
ROOT = os.path.abspath(os.path.join(os.path.dirname(os.path.abspath(__file__)), '..', '..'))
sys.path.insert(0, os.path.join(ROOT, 'src'))
sys.path.insert(1, ROOT)

import warnings
import numpy as np
from scipy import sparse
import mbi
from mbi import Domain, Factor, CliqueVector, GraphicalModel, FactoredInference

assert os.path.abspath(mbi.__file__).startswith(ROOT), 'wrong mbi imported: ' + mbi.__file__
warnings.simplefilter('ignore')

np.random.seed(99)
domain = Domain(['c', 'a', 'd', 'b', 'e'], [4, 5, 2, 3, 2])


def digest(arr):
    arr = np.asarray(arr, dtype=float)
    arr = np.where(np.isfinite(arr), arr, -1e9)
    arr = np.round(arr, 8) + 0.0
    return hashlib.sha256(arr.tobytes()).hexdigest()[:16]


def flat(vec, cliques):
    return np.concatenate([vec[cl].values.flatten() for cl in cliques])


print('=' * 30, 'part 1: direct calls')
MODELS = [
    ('chain', [('a', 'b'), ('b', 'c'), ('c', 'd'), ('d', 'e')], None),
    ('star-permuted', [('b', 'a'), ('c', 'a'), ('a', 'd'), ('e', 'a')], None),
    ('single', [('a', 'b', 'c')], None),
    ('disconnected', [('a',), ('b', 'c'), ('e', 'd')], None),
    ('loop', [('a', 'b'), ('b', 'c'), ('c', 'a'), ('d',)], None),
    ('custom-order', [('a', 'b'), ('b', 'c'), ('c', 'd')], ['e', 'd', 'a', 'c', 'b']),
    ('nested', [('a',), ('a', 'b'), ('b',), ('d', 'e'), ('e',)], None),
]
TOTALS = [1, 1.0, 1000, 12345.678, 1e-3, np.float64(77.5)]
prng = np.random.RandomState(5)

for name, cliques, order in MODELS:
    for t, total in enumerate(TOTALS):
        model = GraphicalModel(domain, cliques, total, elimination_order=order)
        kinds = ['random', 'zero', 'neginf', 'big']
        kind = kinds[t % len(kinds)]
        pots = {}
        for cl in model.cliques:
            dom = domain.project(cl)
            if kind == 'zero':
                vals = np.zeros(dom.shape)
            else:
                vals = prng.normal(0, 1.5, dom.shape)
            if kind == 'big':
                vals = vals * 200.0        # exercises the log-space stability
            if kind == 'neginf':
                fl = vals.reshape(-1)
                fl[prng.choice(fl.size, max(1, fl.size // 4), replace=False)] = -np.inf
            pots[cl] = Factor(dom, vals)
        theta = CliqueVector(pots)
        before = {cl: theta[cl].values.copy() for cl in theta}
        before_ids = {cl: (id(theta[cl]), id(theta[cl].values)) for cl in theta}

        with np.errstate(all='ignore'):
            mu1 = model.belief_propagation(theta)
            lz = model.belief_propagation(theta, logZ=True)
            mu2 = model.belief_propagation(theta)
            lz_plain = model.belief_propagation(dict(theta), True)       # plain dict argument

        untouched = all(np.array_equal(theta[cl].values, before[cl]) for cl in theta) and \
            all((id(theta[cl]), id(theta[cl].values)) == before_ids[cl] for cl in theta)
        no_alias = all(not np.shares_memory(mu1[cl].values, theta[cl].values) and
                       not np.shares_memory(mu1[cl].values, mu2[cl].values) for cl in theta)
        m1 = flat(mu1, model.cliques)
        print('%-14s total=%-10r %-7s cliques=%s' % (name, total, kind, model.cliques))
        print('    type=%s keys=%s logZ=%.10g (%s) logZ2=%.10g' % (
            type(mu1).__name__, list(mu1.keys()), lz, type(lz).__name__, lz_plain))
        print('    marginals sum=%.8g nan=%d sha=%s head=%s' % (
            np.nansum(m1), int(np.isnan(m1).sum()), digest(np.nan_to_num(m1, nan=-7.0)),
            np.round(m1[:4], 7).tolist()))
        print('    potentials untouched=%s no aliasing=%s repeat equal=%s dtype=%s' % (
            untouched, no_alias, np.array_equal(m1, flat(mu2, model.cliques), equal_nan=True), m1.dtype))

print('=' * 30, 'part 2: through the callers')
QUERIES = [('a',), ('b',), ('b', 'a'), ('c', 'b'), ('d', 'a'), ('a', 'c', 'd'), ('e',)]
prng = np.random.RandomState(21)


def meas(proj, noise, prefix=False):
    n = domain.size(proj)
    x = prng.dirichlet(np.ones(n)) * 300.0
    Q = np.tril(np.ones((n, n))) if prefix else sparse.eye(n, format='csr')
    return (Q, Q @ x + prng.normal(0, noise, n), noise, proj)


M1 = [meas(('a',), 2.0), meas(('b', 'a'), 7.5), meas(['c', 'b'], 1.0), meas(('e',), 3.0)]
M2 = [meas(('a',), 3.0, True), meas(('a', 'b'), 0.5), meas(('d', 'a'), 11.0)]
M3 = M1 + [meas(('a', 'c'), 6.0), meas('d', 0.25)]
ZEROS = {('a', 'b'): [(0, 0), (1, 2), (4, 1)], ('d',): [(1,)]}


def answers(model):
    return np.concatenate([model.project(q).datavector() for q in QUERIES])


for warm in (False, True):
    for zeros in ({}, ZEROS):
        eng = FactoredInference(domain, iters=30, warm_start=warm, structural_zeros=zeros)
        kept = []
        calls = [(M1, None, 'MD'), (M2, 290.0, 'RDA'), (M3, None, 'IG'), (M2, None, 'MD'), (M1, None, 'MD')]
        for k, (ms, total, solver) in enumerate(calls):
            with contextlib.redirect_stdout(io.StringIO()):
                model = eng.estimate(ms, total=total, engine=solver)
            a = answers(model)
            kept.append((model, a))
            p = flat(model.potentials, model.cliques)
            print('warm=%s zeros=%d call %d %-3s total=%.6f cliques=%s' % (
                warm, len(zeros), k, solver, model.total, model.cliques))
            print('    answers sum=%.6f sha=%s head=%s' % (a.sum(), digest(a), np.round(a[:5], 6).tolist()))
            print('    potentials sha=%s; earlier models unchanged: %s' % (
                digest(p), [bool(np.array_equal(answers(m), a0)) for m, a0 in kept[:-1]]))
        # other callers of belief_propagation on the last model
        model = kept[-1][0]
        pots_before = flat(model.potentials, model.cliques).copy()
        mats = [np.ones((1, n)) if i % 2 else np.eye(n) for i, n in enumerate(domain.shape)]
        kd = model.krondot(mats)
        many = model.calculate_many_marginals([('a', 'c'), ('e', 'd'), ('b',)])
        print('    krondot shape=%s sha=%s; many=%s; potentials untouched=%s' % (
            kd.shape, digest(kd), {k: digest(v.values) for k, v in sorted(many.items())},
            np.array_equal(pots_before, flat(model.potentials, model.cliques))))

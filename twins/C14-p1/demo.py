"""C14 pair1 demo: Factor.expand (and the binary operations built on it) must be
addressed by attribute NAME for operands whose attributes are in ANY order.

Every result is compared against a brute-force reference that looks each joint
assignment up by name (no axis arithmetic at all).

exit 0 + PASS + digest : all operations agree with the by-name reference
exit 1 + FAIL          : some operation disagrees (or raises)
"""
import os, sys, itertools, hashlib, warnings
ROOT = os.path.dirname(os.path.dirname(os.path.dirname(os.path.abspath(__file__))))
sys.path.insert(0, os.path.join(ROOT, 'src'))
warnings.filterwarnings('ignore')
import numpy as np
from mbi import Domain, Factor
import mbi
assert os.path.abspath(mbi.__file__).startswith(ROOT), mbi.__file__

SIZES = {'a': 2, 'b': 3, 'c': 4, 'd': 3, 'e': 3}   # b, d, e share a size on purpose
FULL = ('a', 'b', 'c', 'd', 'e')


def lookup(f, assignment):
    """value of factor f at a {name: index} assignment -- by name only"""
    return f.values[tuple(assignment[a] for a in f.domain.attrs)]


def reference(domain, fn, *operands):
    out = np.empty(domain.shape)
    for idx in np.ndindex(*domain.shape):
        asg = dict(zip(domain.attrs, idx))
        out[idx] = fn(*[lookup(f, asg) for f in operands])
    return out


def mk(attrs, rng, positive=False):
    dom = Domain(attrs, [SIZES[a] for a in attrs])
    vals = rng.rand(*dom.shape) + (0.5 if positive else 0.0)
    return Factor(dom, vals)


failures = []
digest = hashlib.sha256()
nchecks = 0


def check(label, got, want_domain_attrs, want):
    global nchecks
    nchecks += 1
    ok = (tuple(got.domain.attrs) == tuple(want_domain_attrs)
          and got.values.shape == want.shape
          and np.allclose(got.values, want, rtol=1e-12, atol=1e-12))
    if not ok:
        failures.append(label)
    else:
        digest.update(label.encode())
        digest.update(np.ascontiguousarray(got.values).tobytes())


def attempt(label, thunk):
    try:
        thunk()
    except Exception as e:                      # a raise is also a violation
        failures.append('%s  [raised %s: %s]' % (label, type(e).__name__, e))


def run():
    rng = np.random.RandomState(1404)

    # ---- 1. expand: every ordered subset (size 1..3) into several target orders
    targets = [FULL, ('e', 'c', 'a', 'd', 'b'), ('d', 'e', 'b', 'a', 'c'), ('b', 'd', 'e')]
    for target in targets:
        tdom = Domain(target, [SIZES[a] for a in target])
        for k in (1, 2, 3):
            for attrs in itertools.permutations(target, k):
                if k == 3 and not set(attrs) <= {'b', 'd', 'e', 'a'}:
                    continue                     # keep the run short
                f = mk(attrs, rng)
                label = 'expand %s -> %s' % (','.join(attrs), ','.join(target))
                def t(f=f, label=label, tdom=tdom):
                    g = f.expand(tdom)
                    check(label, g, tdom.attrs, reference(tdom, lambda x: x, f))
                attempt(label, t)

    # ---- 2. binary operations on permuted / overlapping operands
    ops = [
        ('add', lambda x, y: x + y, lambda x, y: x + y),
        ('mul', lambda x, y: x * y, lambda x, y: x * y),
        ('sub', lambda x, y: x - y, lambda x, y: x - y),
        ('logaddexp', lambda x, y: x.logaddexp(y), np.logaddexp),
    ]
    pairs = [
        (('a', 'b'), ('b', 'a')),
        (('a', 'b', 'c'), ('c', 'a')),
        (('b', 'd'), ('d', 'e', 'b')),
        (('b', 'd', 'e'), ('e', 'd', 'b')),      # reversal (an involution)
        (('b', 'd', 'e'), ('d', 'e', 'b')),      # rotation  (a 3-cycle)
        (('b', 'd', 'e'), ('e', 'b', 'd')),      # rotation the other way
        (('a', 'b', 'c'), ('b', 'c', 'a')),      # rotation, all sizes distinct
        (('a', 'b', 'c', 'd'), ('d', 'a', 'b')),
        (('c',), ('e', 'c', 'b')),
        (('a', 'e'), ('c', 'd')),
    ]
    for A, B in pairs:
        f, g = mk(A, rng), mk(B, rng)
        for name, op, scalar in ops:
            label = '%s %s | %s' % (name, ','.join(A), ','.join(B))
            def t(f=f, g=g, op=op, scalar=scalar, label=label):
                res = op(f, g)
                dom = f.domain.merge(g.domain)
                check(label, res, dom.attrs, reference(dom, scalar, f, g))
            attempt(label, t)

    # ---- 3. division and the in-place forms: right operand inside the left one
    inside = [
        (('b', 'd', 'e'), ('d', 'b')),
        (('b', 'd', 'e'), ('e', 'd', 'b')),
        (('b', 'd', 'e'), ('d', 'e', 'b')),      # 3-cycle
        (('e', 'a', 'b', 'd'), ('b', 'e', 'd')),  # 3-cycle inside a 4-way factor
        (('a', 'b', 'c'), ('c', 'a', 'b')),      # 3-cycle, distinct sizes
        (('a', 'b', 'c'), ('c',)),
    ]
    for A, B in inside:
        f, g = mk(A, rng), mk(B, rng, positive=True)
        tag = '%s | %s' % (','.join(A), ','.join(B))
        def tdiv(f=f, g=g, tag=tag):
            check('div ' + tag, f / g, f.domain.attrs,
                  reference(f.domain, lambda x, y: x / y, f, g))
        attempt('div ' + tag, tdiv)
        def tiadd(f=f, g=g, tag=tag):
            h = f.copy(); want = reference(f.domain, lambda x, y: x + y, f, g)
            h += g
            check('iadd ' + tag, h, f.domain.attrs, want)
        attempt('iadd ' + tag, tiadd)
        def timul(f=f, g=g, tag=tag):
            h = f.copy(); want = reference(f.domain, lambda x, y: x * y, f, g)
            h *= g
            check('imul ' + tag, h, f.domain.attrs, want)
        attempt('imul ' + tag, timul)


run()
if failures:
    print('FAIL: %d of the checked operations do not agree with the by-name reference' % len(failures))
    for l in failures[:12]:
        print('   ', l)
    if len(failures) > 12:
        print('    ... and %d more' % (len(failures) - 12))
    print('Factor.expand places the operand\'s axes by position: an operand whose three '
          'attributes are a rotation of the target order gets its values attached to the '
          'wrong attribute names.')
    sys.exit(1)
print('PASS: %d operation results agree with the by-name reference' % nchecks)
print('digest', digest.hexdigest())
sys.exit(0)

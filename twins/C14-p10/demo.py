"""C14 pair 2 -- aggregation and projection of factors by attribute NAME, for both
aggregation modes.

For factors over every ordered attribute subset (sizes incl. 1) of a small domain the
program
  1. aggregates with sum, logsumexp and max over every ordered subset of the attributes
     (including the empty one and all of them) and conditions on every subset;
  2. projects onto every ordered subset with agg='sum' (default, keyword, positional)
     and agg='logsumexp' (keyword, positional, and a string built at run time);
  3. uses the total (factor over no attribute) as an operand of + - *;
and compares every result, assignment by assignment, with a brute-force reference that
only uses attribute names.  Projection must return the axes in the order requested and
must aggregate with the operation that was asked for:
    project(attrs, 'logsumexp')[x] == log sum_y exp f[x, y].

exit 0 + "PASS <digest>"  : all agree
exit 1 + "FAIL ..."       : some result differs from the by-name reference
"""
import os, sys, hashlib, itertools, warnings

ROOT = os.path.dirname(os.path.dirname(os.path.dirname(os.path.abspath(__file__))))
sys.path.insert(0, os.path.join(ROOT, 'src'))
warnings.simplefilter('ignore')

import numpy as np
from mbi import Domain, Factor

assert os.path.abspath(sys.modules['mbi'].__file__).startswith(ROOT), sys.modules['mbi'].__file__

SIZES = {'a': 2, 'b': 3, 'c': 1, 'd': 3}
prng = np.random.RandomState(14)

failures = []
digest = hashlib.sha256()
counts = {}


def note(tag, factor_or_value):
    counts[tag.split(':')[0]] = counts.get(tag.split(':')[0], 0) + 1
    digest.update(tag.encode())
    if isinstance(factor_or_value, Factor):
        digest.update(repr((factor_or_value.domain.attrs, factor_or_value.domain.shape)).encode())
        digest.update(np.ascontiguousarray(factor_or_value.values, dtype=float).tobytes())
    else:
        digest.update(np.float64(factor_or_value).tobytes())


def fail(tag, msg):
    failures.append('%s: %s' % (tag, msg))


def ordered_subsets(attrs, maxlen=None):
    n = len(attrs) if maxlen is None else min(maxlen, len(attrs))
    for k in range(n + 1):
        for sub in itertools.permutations(attrs, k):
            yield sub


def value_at(f, x):
    """ value of factor f at the (named) assignment x """
    return np.asarray(f.values)[tuple(x[a] for a in f.domain.attrs)]


def assignments(attrs):
    for idx in itertools.product(*[range(SIZES[a]) for a in attrs]):
        yield dict(zip(attrs, idx))


def check_by_name(tag, result, attrs, ref):
    """ result must be a factor over exactly `attrs` (as a set; in that order if ordered)
        whose value at every assignment x is ref(x) """
    if not isinstance(result, Factor):
        fail(tag, 'result is %s, not a Factor' % type(result).__name__); return False
    if tuple(result.domain.attrs) != tuple(attrs):
        fail(tag, 'result domain %s, expected attributes %s' % (result.domain, (attrs,))); return False
    if tuple(np.shape(result.values)) != tuple(SIZES[a] for a in attrs):
        fail(tag, 'values have shape %s' % (np.shape(result.values),)); return False
    for x in assignments(attrs):
        got, exp = value_at(result, x), ref(x)
        if not np.isclose(got, exp, rtol=1e-11, atol=1e-13):
            fail(tag, 'value at %s is %r, expected %r' % (x, float(got), float(exp))); return False
    return True


# ------------------------------------------------------------------ 1 + 2
for attrs in ordered_subsets(['a', 'b', 'c', 'd'], maxlen=3):
    if len(attrs) == 0:
        continue
    dom = Domain(attrs, [SIZES[a] for a in attrs])
    f = Factor(dom, prng.randn(*dom.shape))
    base = 'f%s' % (attrs,)

    for drop in ordered_subsets(attrs):
        keep = tuple(a for a in attrs if a not in drop)
        rest = lambda x: [dict(x, **y) for y in assignments(drop)]
        refs = {
            'sum':       lambda x: sum(value_at(f, z) for z in rest(x)),
            'max':       lambda x: max(value_at(f, z) for z in rest(x)),
            'logsumexp': lambda x: np.log(sum(np.exp(value_at(f, z)) for z in rest(x))),
        }
        for op in ('sum', 'max', 'logsumexp'):
            tag = '%s.%s(%s)' % (base, op, list(drop))
            try:
                res = getattr(f, op)(list(drop))
            except Exception as e:                               # noqa
                fail(tag, 'raised %s: %s' % (type(e).__name__, e)); continue
            if check_by_name(tag, res, keep, refs[op]):
                note('agg:' + tag, res)

        # condition on `drop` (every attribute of it at its last value, one also at value 0)
        ev = {a: (SIZES[a] - 1 if i else 0) for i, a in enumerate(drop)}
        tag = '%s.condition(%s)' % (base, ev)
        try:
            res = f.condition(ev)
        except Exception as e:                                   # noqa
            fail(tag, 'raised %s: %s' % (type(e).__name__, e)); res = None
        if res is not None and check_by_name(tag, res, keep, lambda x: value_at(f, dict(x, **ev))):
            note('cond:' + tag, res)

    for want in ordered_subsets(attrs):
        others = tuple(a for a in attrs if a not in want)
        ref_sum = lambda x: sum(value_at(f, dict(x, **y)) for y in assignments(others))
        ref_lse = lambda x: np.log(sum(np.exp(value_at(f, dict(x, **y))) for y in assignments(others)))
        calls = [
            ('default',              lambda: f.project(list(want)),                         ref_sum),
            ("agg='sum'",            lambda: f.project(list(want), agg='sum'),              ref_sum),
            ("'sum'",                lambda: f.project(tuple(want), 'sum'),                 ref_sum),
            ("agg='logsumexp'",      lambda: f.project(list(want), agg='logsumexp'),        ref_lse),
            ("'logsumexp'",          lambda: f.project(tuple(want), 'logsumexp'),           ref_lse),
            ("agg='log'+'sumexp'",   lambda: f.project(list(want), agg=''.join(['log', 'sum', 'exp'])), ref_lse),
        ]
        for how, call, ref in calls:
            tag = '%s.project(%s, %s)' % (base, list(want), how)
            try:
                res = call()
            except Exception as e:                               # noqa
                fail(tag, 'raised %s: %s' % (type(e).__name__, e)); continue
            if check_by_name(tag, res, want, ref):
                note('proj:' + tag, res)

    # binary operations with the total (factor over no attribute) as an operand
    tot = f.sum(list(attrs))
    for name, fn, ref in [('f+tot', lambda: f + tot, lambda x: value_at(f, x) + f.sum()),
                          ('tot*f', lambda: tot * f, lambda x: value_at(f, x) * f.sum()),
                          ('f-tot', lambda: f - tot, lambda x: value_at(f, x) - f.sum())]:
        tag = '%s %s' % (base, name)
        try:
            res = fn()
        except Exception as e:                                   # noqa
            fail(tag, 'raised %s: %s' % (type(e).__name__, e)); continue
        if check_by_name(tag, res, res.domain.attrs, ref) and set(res.domain.attrs) == set(attrs):
            note('bin:' + tag, res)

if failures:
    print('FAIL: aggregation / projection results differ from the by-name reference')
    for msg in failures[:25]:
        print('  -', msg)
    print('  (%d failing checks in total)' % len(failures))
    sys.exit(1)

for k in sorted(counts):
    print('%-8s %5d checks' % (k, counts[k]))
print('PASS', digest.hexdigest())
sys.exit(0)

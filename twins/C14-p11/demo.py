""" C14 / pair 1 -- Factor.max(attrs): aggregation is addressed by attribute NAME.

For factors over many ordered attribute subsets and for the attributes to
maximise over given in ANY order, Factor.max must return, for every joint
assignment of the remaining attributes, the maximum over the removed ones,
with the remaining attributes in domain order.

The oracle below never touches Factor.max: it walks over all joint assignments
of the remaining attributes and looks the values up by name.
"""
import os, sys, hashlib, itertools

ROOT = os.path.dirname(os.path.dirname(os.path.dirname(os.path.abspath(__file__))))
sys.path.insert(0, os.path.join(ROOT, 'src'))

import numpy as np
from mbi import Domain, Factor

failures = []
digest = hashlib.sha256()
ncases = 0


def oracle(factor, attrs):
    """ brute force, by name: dict { assignment of remaining attrs : max } """
    dom = factor.domain
    rest = [a for a in dom.attrs if a not in attrs]
    out = {}
    for idx in itertools.product(*[range(n) for n in dom.shape]):
        asg = dict(zip(dom.attrs, idx))
        key = tuple(asg[a] for a in rest)
        v = factor.values[idx]
        out[key] = v if key not in out else max(out[key], v)
    return rest, out


def check(label, factor, attrs):
    global ncases
    ncases += 1
    before = factor.values.copy()
    rest, expect = oracle(factor, attrs)
    try:
        res = factor.max(attrs)
    except Exception as e:
        failures.append('%s: max(%s) raised %s: %s' % (label, list(attrs), type(e).__name__, e))
        return
    if tuple(res.domain.attrs) != tuple(rest):
        failures.append('%s: max(%s) has attributes %s, expected %s'
                        % (label, list(attrs), res.domain.attrs, tuple(rest)))
        return
    if res.values.shape != tuple(factor.domain[a] for a in rest):
        failures.append('%s: max(%s) has shape %s' % (label, list(attrs), res.values.shape))
        return
    bad = 0
    for key, v in expect.items():
        if res.values[key] != v:
            bad += 1
    if bad:
        failures.append('%s: max(%s) over %s: %d of %d cells differ from the by-name maximum'
                        % (label, list(attrs), factor.domain, bad, len(expect)))
    if not np.array_equal(before, factor.values):
        failures.append('%s: max(%s) modified its operand' % (label, list(attrs)))
    digest.update(repr((label, tuple(attrs), res.domain.attrs,
                        np.round(res.values, 12).tolist())).encode())


prng = np.random.RandomState(14)

domains = [
    ('d1', Domain(['a'], [4])),
    ('d2', Domain(['a', 'b'], [3, 3])),
    ('d2r', Domain(['b', 'a'], [2, 5])),
    ('d3', Domain(['a', 'b', 'c'], [3, 3, 3])),
    ('d3u', Domain(['c', 'a', 'b'], [2, 3, 4])),
    ('d3one', Domain(['x', 'y', 'z'], [1, 3, 1])),
    ('d4', Domain(['a', 'b', 'c', 'd'], [3, 3, 3, 3])),
    ('d4u', Domain(['d', 'b', 'a', 'c'], [2, 3, 2, 3])),
    ('d5', Domain(['p', 'q', 'r', 's', 't'], [2, 2, 2, 2, 2])),
]

for name, dom in domains:
    f = Factor(dom, prng.rand(*dom.shape))
    # every subset of the attributes, in every order
    for k in range(0, len(dom) + 1):
        for attrs in itertools.permutations(dom.attrs, k):
            if len(dom) == 5 and k > 3:
                continue
            check(name, f, attrs)
    # containers other than tuples
    check(name + '/list', f, list(dom.attrs[::-1]))
    check(name + '/set', f, set(dom.attrs[:1]))

# a transposed (non-contiguous) factor and a log-space factor with -inf cells
dom = Domain(['a', 'b', 'c', 'd'], [3, 3, 3, 3])
g = Factor(dom, prng.rand(*dom.shape)).transpose(['c', 'a', 'd', 'b'])
for attrs in [('a', 'c'), ('c', 'a'), ('b', 'c'), ('d', 'a'), ('b', 'd', 'c'), ('a', 'b')]:
    check('transposed', g, attrs)
h = Factor(dom, np.where(prng.rand(*dom.shape) < 0.4, -np.inf, prng.randn(*dom.shape)))
for attrs in [('d', 'b'), ('b', 'd'), ('c', 'a', 'b'), ('a',)]:
    check('loginf', h, attrs)

# the scalar form and independence of the result for "nothing to maximise over"
f = Factor(dom, prng.rand(*dom.shape))
if f.max() != f.values.max():
    failures.append('max() without attributes is not the overall maximum')
e = f.max([])
if np.shares_memory(e.values, f.values):
    failures.append('max([]) shares memory with its operand')

if failures:
    print('FAIL: %d problem(s) in %d cases' % (len(failures), ncases))
    for line in failures[:12]:
        print('  ' + line)
    sys.exit(1)
print('PASS: Factor.max agrees with the by-name maximum in %d cases' % ncases)
print('digest', digest.hexdigest())

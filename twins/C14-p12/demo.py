""" C14 / pair 2 -- `scalar + factor` (Factor.__radd__, the first step of the builtin
sum()) is a PURE operation: its result carries the operand's values at the time of the
operation, and the in-place operators `+=` / `*=` applied to that result afterwards agree
with their pure counterparts WITHOUT changing the operand (and vice versa).

The interesting history is:   g = sum([f])   (or 0 + f);   g += h;   look at f again.
"""
import os, sys, hashlib, itertools

ROOT = os.path.dirname(os.path.dirname(os.path.dirname(os.path.abspath(__file__))))
sys.path.insert(0, os.path.join(ROOT, 'src'))

import numpy as np
from mbi import Domain, Factor, CliqueVector, FactorGraph

failures = []
digest = hashlib.sha256()


def note(label, arr):
    digest.update(repr((label, (np.round(np.asarray(arr, dtype=float), 12) + 0.0).tolist())).encode())


def by_name(factor):
    """ { frozenset of (attr, value) : cell } -- order-free view of a factor """
    dom = factor.domain
    return {frozenset(zip(dom.attrs, idx)): factor.values[idx]
            for idx in itertools.product(*[range(n) for n in dom.shape])}


def lookup(table, attrs, asg):
    return table[frozenset((a, asg[a]) for a in attrs)]


def same(label, factor, expect_fn):
    """ every cell of `factor` equals expect_fn(assignment dict) """
    dom = factor.domain
    bad = 0
    for idx in itertools.product(*[range(n) for n in dom.shape]):
        asg = dict(zip(dom.attrs, idx))
        if not np.isclose(factor.values[idx], expect_fn(asg), rtol=1e-12, atol=1e-12):
            bad += 1
    if bad:
        failures.append('%s: %d of %d cells are wrong' % (label, bad, dom.size()))
    note(label, factor.values)


prng = np.random.RandomState(214)
A = Domain(['a', 'b', 'c'], [2, 3, 2])
B = Domain(['c', 'a'], [2, 2])
C = Domain(['b'], [3])

# ---- 1. one-term sums / 0 + f, followed by in-place updates of the result -----------
starts = [('sum([f])', lambda f: sum([f])),
          ('sum(generator)', lambda f: sum(x for x in [f])),
          ('0 + f', lambda f: 0 + f),
          ('f + 0', lambda f: f + 0),
          ('0.0 + f', lambda f: 0.0 + f),
          ('np.int64(0) + f', lambda f: np.int64(0) + f),
          ('f.__radd__(0)', lambda f: f.__radd__(0))]
for label, make in starts:
    f = Factor(A, prng.rand(*A.shape))
    h = Factor(B, prng.rand(*B.shape))
    f0, h0 = by_name(f), by_name(h)
    g = make(f)
    same(label + ': value', g, lambda s: lookup(f0, A.attrs, s))
    pure = (g + h) * 2.0
    g += h
    g *= 2.0
    same(label + ': g += h; g *= 2 agrees with (g + h) * 2', g,
         lambda s: (lookup(f0, A.attrs, s) + lookup(h0, B.attrs, s)) * 2.0)
    if not np.array_equal(pure.transpose(g.domain.attrs).values, g.values):
        failures.append('%s: in-place and pure forms disagree' % label)
    same(label + ': operand f after the in-place updates of the result', f,
         lambda s: lookup(f0, A.attrs, s))
    same(label + ': operand h', h, lambda s: lookup(h0, B.attrs, s))

# ---- 2. the other direction: the operand is updated in place afterwards ---------------
f = Factor(A, prng.rand(*A.shape))
c = Factor(C, prng.rand(*C.shape))
f0, c0 = by_name(f), by_name(c)
g = sum([f])
f *= c
f += 1.0
same('g = sum([f]); f *= c; f += 1: g keeps the values f had', g,
     lambda s: lookup(f0, A.attrs, s))
same('g = sum([f]); f *= c; f += 1: f', f,
     lambda s: lookup(f0, A.attrs, s) * lookup(c0, C.attrs, s) + 1.0)

# ---- 3. sums of several factors over permuted / overlapping attribute lists ------------
f1 = Factor(A, prng.rand(*A.shape))
f2 = Factor(B, prng.rand(*B.shape))
f3 = Factor(Domain(['b', 'd'], [3, 2]), prng.rand(3, 2))
t1, t2, t3 = by_name(f1), by_name(f2), by_name(f3)
for label, terms in [('sum f1,f2,f3', [f1, f2, f3]), ('sum f3,f1', [f3, f1]), ('sum f2,f2', [f2, f2])]:
    tabs = [(by_name(t), t.domain.attrs) for t in terms]
    g = sum(terms)
    same(label, g, lambda s: sum(lookup(tab, attrs, s) for tab, attrs in tabs))
    g += 5.0
    g *= terms[0]
for label, fac, tab in [('f1', f1, t1), ('f2', f2, t2), ('f3', f3, t3)]:
    same('terms of the sums are untouched: ' + label, fac, lambda s: lookup(tab, fac.domain.attrs, s))

# ---- 4. non-zero scalars still shift the values ------------------------------------------
for k in [1, -2, 0.5, True]:
    same('%r + f1' % (k,), k + f1, lambda s: lookup(t1, A.attrs, s) + k)

# ---- 5. a collection with a single clique ----------------------------------------------
cv = CliqueVector({('a', 'b', 'c'): Factor(A, prng.rand(*A.shape))})
tab = by_name(cv[('a', 'b', 'c')])
tot = sum(cv.values())
tot += Factor(C, np.ones(3))
same('single-clique vector after `tot = sum(cv.values()); tot += ...`', cv[('a', 'b', 'c')],
     lambda s: lookup(tab, A.attrs, s))

# ---- 6. library level: FactorGraph.project of ONE attribute sums one stored belief ------
fg = FactorGraph(Domain(['a', 'b'], [2, 3]), [('a', 'b')], total=10.0)
fg.beliefs['a'] = Factor(Domain(['a'], [2]), np.array([0.25, 1.5]))
stored = fg.beliefs['a'].values.copy()
m1 = fg.project(('a',)).values.copy()
m2 = fg.project(('a',)).values.copy()
note('FactorGraph.project', m1)
if not np.array_equal(stored, fg.beliefs['a'].values):
    failures.append('FactorGraph.project(("a",)) rewrote the stored belief of "a": %s -> %s'
                    % (stored.tolist(), fg.beliefs['a'].values.tolist()))
if not np.allclose(m1, m2):
    failures.append('FactorGraph.project(("a",)) is not repeatable')

if failures:
    print('FAIL: %d problem(s)' % len(failures))
    for line in failures[:14]:
        print('  ' + line)
    print('explanation: `0 + f` returned an object that shares its value array with f, so an')
    print('in-place update of the "result" silently rewrites the operand (and vice versa).')
    sys.exit(1)
print('PASS: scalar + factor / sum() results are independent of their operands')
print('digest', digest.hexdigest())

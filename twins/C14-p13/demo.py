#!/usr/bin/env python
""" C14 / pair 1 -- Factor.sum and Factor.logsumexp aggregate over the NAMED attributes,
    whatever container names them (list, tuple, set, frozenset, dict keys, str, Domain).

    exit 0 + PASS + digest : aggregation is by name for every container type
    exit 1 + FAIL          : some call did not aggregate over the attributes it was given
"""
import os, sys, hashlib, itertools

ROOT = os.path.dirname(os.path.dirname(os.path.dirname(os.path.abspath(__file__))))
sys.path.insert(0, ROOT)
sys.path.insert(0, os.path.join(ROOT, 'src'))

import warnings
warnings.simplefilter('ignore')
import numpy as np
import mbi
from mbi import Domain, Factor, CliqueVector
from mbi.graphical_model import GraphicalModel

assert os.path.abspath(mbi.__file__).startswith(ROOT), 'mbi is not imported from this worktree: %s' % mbi.__file__

SIZES = {'a': 2, 'b': 3, 'c': 4, 'd': 1, 'e': 3}
failures = []
lines = []


def digest(arr):
    arr = np.round(np.asarray(arr, dtype=float), 9) + 0.0
    return hashlib.sha256(np.ascontiguousarray(arr).tobytes()).hexdigest()[:16]


def reference(factor, names, how):
    """ aggregate by name, written directly against numpy """
    order = factor.domain.attrs
    names = set(names)
    axes = tuple(i for i, a in enumerate(order) if a in names)
    rest = tuple(a for a in order if a not in names)
    v = factor.values
    if how == 'sum':
        out = v.sum(axis=axes)
    else:
        m = v.max(axis=axes, keepdims=True)
        out = np.log(np.exp(v - m).sum(axis=axes)) + np.squeeze(m, axis=axes)
    return rest, np.asarray(out)


def containers(names):
    names = list(names)
    yield 'list', list(names)
    yield 'tuple', tuple(names)
    yield 'set', set(names)
    yield 'frozenset', frozenset(names)
    yield 'dict_keys', dict.fromkeys(names, 0).keys()
    yield 'domain', Domain(names, [SIZES[a] for a in names])
    if len(names) == 1:
        yield 'str', names[0]


def check(tag, factor, attrs, how):
    names = [attrs] if isinstance(attrs, str) else list(attrs)
    rest, want = reference(factor, names, how)
    try:
        got = getattr(factor, how)(attrs)
    except Exception as e:
        failures.append('%s: %s over %r raised %s: %s' % (tag, how, attrs, type(e).__name__, e))
        return 'ERROR'
    ok = tuple(got.domain.attrs) == rest and got.values.shape == want.shape \
        and np.allclose(got.values, want, rtol=1e-10, atol=1e-12)
    if not ok:
        failures.append('%s: %s over %r of a factor on %s returned a factor on %s (expected %s)'
                        % (tag, how, attrs, factor.domain.attrs, got.domain.attrs, rest))
    return digest(got.values) if ok else 'MISMATCH'


prng = np.random.RandomState(1409)
orders = [('a', 'b', 'c'), ('c', 'a', 'b'), ('b', 'd', 'a'), ('e', 'c', 'd', 'a'), ('d',), ('c', 'b')]
for order in orders:
    dom = Domain(order, [SIZES[a] for a in order])
    f = Factor(dom, prng.rand(*dom.shape) + 0.1)
    g = Factor(dom, prng.randn(*dom.shape) * 3)
    for k in range(0, len(order) + 1):
        for names in itertools.combinations(sorted(order), k):
            for kind, attrs in containers(names):
                if kind == 'domain' and k == 0:
                    continue
                tag = '%s|%s|%s' % (''.join(order), ''.join(names), kind)
                d1 = check(tag, f, attrs, 'sum')
                d2 = check(tag, g, attrs, 'logsumexp')
                lines.append('%-28s sum=%s logsumexp=%s' % (tag, d1, d2))

# the shape in which the library itself uses it: GraphicalModel.calculate_many_marginals does
#   S = set(Cl) - set(Ci) - set(Cj);  (X*Y).sum(S)
X = Factor(Domain(['a', 'b', 'c'], [2, 3, 4]), prng.rand(2, 3, 4))
Y = Factor(Domain(['c', 'e'], [4, 3]), prng.rand(4, 3))
S = set(('b', 'c')) - set(('a', 'b')) - set(('e',))
res = (X * Y).sum(S)
if 'c' in res.domain.attrs:
    failures.append('(X*Y).sum(%r) still has the attribute it was asked to sum out: %s' % (S, res.domain.attrs))
lines.append('XY.sum(set) attrs=%s %s' % (','.join(res.domain.attrs), digest(res.values)))

# end to end: out-of-clique marginals of a five-attribute chain
dom = Domain(['a', 'b', 'c', 'd', 'e'], [2, 3, 4, 2, 3])
cliques = [('a', 'b'), ('b', 'c'), ('c', 'd'), ('d', 'e')]
model = GraphicalModel(dom, cliques, total=10.0)
model.potentials = CliqueVector({cl: Factor(dom.project(cl), prng.rand(*dom.project(cl).shape))
                                 for cl in model.cliques})
proj = [('a', 'e'), ('a', 'd'), ('b', 'e'), ('a', 'c')]
many = model.calculate_many_marginals(proj)
for pr in proj:
    direct = model.project(pr)
    if not np.allclose(many[pr].values, direct.values):
        failures.append('calculate_many_marginals%r disagrees with project' % (pr,))
    lines.append('many %s %s' % (''.join(pr), digest(many[pr].values)))

if failures:
    print('FAIL: %d aggregation(s) were not carried out over the named attributes' % len(failures))
    for msg in failures[:12]:
        print('  ' + msg)
    sys.exit(1)

print('PASS')
print('cases=%d' % len(lines))
print('digest=' + hashlib.sha256('\n'.join(lines).encode()).hexdigest())
for ln in lines[:6] + lines[-6:]:
    print(ln)
sys.exit(0)

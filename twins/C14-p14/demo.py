#!/usr/bin/env python
""" C14 / pair 2 -- in-place variants agree with their pure counterparts, also on factors that
    were produced by Factor.transpose / Factor.project (sequence: transpose|project, then
    +=, *=, exp(out=), copy(out=)).

    exit 0 + PASS + digest : every in-place operation on a transposed / projected factor gives
                             the values of the pure operation, name by name
    exit 1 + FAIL          : an in-place operation raised or disagreed with the pure one
"""
import os, sys, hashlib, itertools, warnings

ROOT = os.path.dirname(os.path.dirname(os.path.dirname(os.path.abspath(__file__))))
sys.path.insert(0, ROOT)
sys.path.insert(0, os.path.join(ROOT, 'src'))
warnings.simplefilter('ignore')

import numpy as np
import mbi
from mbi import Domain, Factor

assert os.path.abspath(mbi.__file__).startswith(ROOT), 'mbi is not imported from this worktree: %s' % mbi.__file__

SIZES = {'a': 2, 'b': 3, 'c': 2, 'd': 1, 'e': 3}
failures = []
lines = []


def named(factor):
    """ values with the axes sorted by attribute name, computed with numpy only """
    attrs = factor.domain.attrs
    perm = [attrs.index(a) for a in sorted(attrs)]
    return np.transpose(np.asarray(factor.values), perm)


def digest(arr):
    arr = np.round(np.asarray(arr, dtype=float), 9) + 0.0
    return hashlib.sha256(np.ascontiguousarray(arr).tobytes()).hexdigest()[:16]


def rand_factor(prng, attrs):
    dom = Domain(attrs, [SIZES[a] for a in attrs])
    return Factor(dom, prng.rand(*dom.shape) + 0.5)


def inplace_ops(prng, target_attrs):
    """ (name, in-place function, pure function) triples; operands overlap the target arbitrarily """
    sub = tuple(reversed(target_attrs[:2]))
    g = rand_factor(prng, sub)
    h = rand_factor(prng, tuple(reversed(target_attrs)))
    def iadd(t):
        t += g
        return t
    def imul(t):
        t *= h
        return t
    def iscale(t):
        t *= 2.5
        return t
    def ishift(t):
        t += -0.25
        return t
    def iexp(t):
        return t.exp(out=t)
    def icopy(t):
        return h.transpose(t.domain.attrs).copy(out=t)
    return [('+=factor', iadd, lambda t: t + g), ('*=factor', imul, lambda t: t * h),
            ('*=scalar', iscale, lambda t: t * 2.5), ('+=scalar', ishift, lambda t: t + -0.25),
            ('exp(out=self)', iexp, lambda t: t.exp()), ('copy(out=)', icopy, lambda t: h.copy())]


def run(tag, make, prng):
    """ make() builds a fresh derived factor (transposed / projected) from a fresh source """
    probe, _ = make()
    for name, inplace, pure in inplace_ops(prng, probe.domain.attrs):
        t, src = make()
        want = pure(t)
        want_named = named(want).copy()
        before = named(t).copy()
        try:
            got = inplace(t)
        except Exception as e:
            failures.append('%s %s raised %s: %s' % (tag, name, type(e).__name__, e))
            lines.append('%s %s ERROR' % (tag, name))
            continue
        ok = got is t and np.allclose(named(t), want_named, rtol=1e-12, atol=1e-12)
        if name != 'copy(out=)':
            ok = ok and sorted(t.domain.attrs) == sorted(want.domain.attrs)
        if not ok:
            failures.append('%s %s disagrees with the pure operation' % (tag, name))
        changed = not np.array_equal(before, named(t))
        lines.append('%s %s %s changed=%s src=%s' % (tag, name, digest(named(t)), changed, digest(named(src))))


prng = np.random.RandomState(20914)
orders = [('a', 'b'), ('b', 'c', 'a'), ('e', 'd', 'a'), ('c', 'a', 'e', 'b')]
for order in orders:
    for perm in itertools.permutations(order):
        if len(order) == 4 and perm[0] != order[1]:
            continue
        def make(order=order, perm=perm, seed=prng.randint(1 << 30)):
            src = rand_factor(np.random.RandomState(seed), order)
            return src.transpose(perm), src
        run('transpose %s->%s' % (''.join(order), ''.join(perm)), make, prng)

for order, keep in [(('a', 'b', 'c'), ('c', 'a')), (('a', 'b', 'c'), ('a', 'c')), (('c', 'a', 'e', 'b'), ('b', 'e', 'c')),
                    (('e', 'd', 'a'), ('a', 'd')), (('b', 'a'), ('a', 'b')), (('b', 'a'), ('b', 'a'))]:
    for agg in ['sum', 'logsumexp']:
        def make(order=order, keep=keep, agg=agg, seed=prng.randint(1 << 30)):
            src = rand_factor(np.random.RandomState(seed), order)
            return src.project(keep, agg=agg), src
        run('project[%s] %s->%s' % (agg, ''.join(order), ''.join(keep)), make, prng)

# the values of transpose / expand themselves, name by name
for order in orders:
    f = rand_factor(prng, order)
    for perm in itertools.permutations(order):
        t = f.transpose(perm)
        if t.domain.attrs != tuple(perm) or not np.array_equal(named(t), named(f)):
            failures.append('transpose %s->%s has wrong values' % (order, perm))
    big = Domain(['e', 'c', 'b', 'a', 'd'], [SIZES[a] for a in ['e', 'c', 'b', 'a', 'd']])
    x = f.expand(big)
    y = x.project(order)
    if not np.allclose(y.values, f.values * big.size() / f.domain.size()):
        failures.append('expand of %s has wrong values' % (order,))
    lines.append('expand %s %s' % (''.join(order), digest(named(x))))

if failures:
    print('FAIL: %d in-place operation(s) on a transposed / projected factor did not agree with the pure form' % len(failures))
    for msg in failures[:12]:
        print('  ' + msg)
    sys.exit(1)

print('PASS')
print('cases=%d' % len(lines))
print('digest=' + hashlib.sha256('\n'.join(lines).encode()).hexdigest())
for ln in lines[:5] + lines[-5:]:
    print(ln)
sys.exit(0)

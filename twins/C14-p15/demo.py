"""
C14 pair 1 -- CliqueVector.__sub__ (clique-by-clique arithmetic of collections of factors)

Reference semantics (the unmodified library): for collections a, b
    (a - b)[cl]  ==  a[cl] + (-1)*b[cl]
i.e. at every joint assignment (addressed by attribute NAME)
    a[cl](x) + nan_to_num( -b[cl](x) )
so that an infinite / NaN entry of the subtrahend is clipped to +-max-float / 0
exactly as  Factor.__mul__(scalar)  does, and for a scalar c
    (a - c)[cl](x) == a[cl](x) + (-c)

The reference below is computed cell by cell from the operands, by name, without
using any CliqueVector / Factor arithmetic.
"""
import os, sys, hashlib, itertools, warnings
ROOT = os.path.dirname(os.path.dirname(os.path.dirname(os.path.abspath(__file__))))
sys.path.insert(0, os.path.join(ROOT, 'src'))
import numpy as np
warnings.simplefilter('ignore')
from mbi import Domain, Factor, CliqueVector

SIZES = {'a': 2, 'b': 3, 'c': 2, 'd': 1}
problems = []
lines = []

def cells(dom):
    for idx in itertools.product(*[range(n) for n in dom.shape]):
        yield dict(zip(dom.attrs, idx))

def at(fac, x):
    return fac.values[tuple(x[a] for a in fac.domain.attrs)]

def reference(A, B):
    """ name-addressed reference for A - B (B a collection or a scalar) """
    out = {}
    for cl in A:
        fa = A[cl]
        tab = {}
        for x in cells(fa.domain):
            if np.isscalar(B):
                tab[tuple(sorted(x.items()))] = at(fa, x) + (-1*B)
            else:
                tab[tuple(sorted(x.items()))] = at(fa, x) + np.nan_to_num(-1*at(B[cl], x))
        out[cl] = tab
    return out

def check(name, A, B):
    with np.errstate(all='ignore'):
        R = A - B
        ref = reference(A, B)
    if not isinstance(R, CliqueVector) or list(R.keys()) != list(A.keys()):
        problems.append('%s: result is not a CliqueVector over the cliques of the left operand' % name)
        return
    dig = []
    for cl in A:
        fr = R[cl]
        if set(fr.domain.attrs) != set(A[cl].domain.attrs):
            problems.append('%s: clique %s has attributes %s' % (name, cl, fr.domain.attrs))
            continue
        for x in cells(A[cl].domain):
            got, want = at(fr, x), ref[cl][tuple(sorted(x.items()))]
            same = (got == want) or (np.isnan(got) and np.isnan(want))
            if not same:
                problems.append('%s: clique %s cell %s: got %r, a + (-1)*b gives %r'
                                % (name, cl, x, float(got), float(want)))
            dig.append(repr(float(want)))
    lines.append('%-34s %s' % (name, hashlib.sha256(' '.join(dig).encode()).hexdigest()[:16]))

def fac(attrs, prng, scale=1.0):
    dom = Domain(attrs, [SIZES[a] for a in attrs])
    return Factor(dom, scale * prng.normal(size=dom.shape))

prng = np.random.RandomState(1410)
cliques = [('a', 'b'), ('b', 'c'), ('c', 'd', 'a'), ('d',)]

# 1. finite collections; the right operand stores two cliques in another axis order
A = CliqueVector({cl: fac(cl, prng) for cl in cliques})
B = CliqueVector({cl: fac(cl, prng) for cl in cliques})
B[('a', 'b')] = B[('a', 'b')].transpose(['b', 'a'])
B[('c', 'd', 'a')] = B[('c', 'd', 'a')].transpose(['a', 'c', 'd'])
check('finite, permuted axes', A, B)

# 2. scalars of several types
for c in [0.75, -2, np.float64(1.5), np.int64(3), np.float32(0.5), np.inf]:
    check('scalar %r' % (c,), A, c)

# 3. right operand contains structural zeros (-inf), as built by Factor.active
Z = CliqueVector({cl: fac(cl, prng) for cl in cliques})
Z[('a', 'b')] = Factor.active(Z[('a', 'b')].domain, [(0, 1), (1, 2)])
Z[('b', 'c')] = Z[('b', 'c')] + Factor.active(Z[('b', 'c')].domain, [(2, 0)])
check('subtrahend with -inf', A, Z)

# 4. right operand contains +inf and NaN
W = CliqueVector({cl: fac(cl, prng) for cl in cliques})
W[('d',)].values[0] = np.inf
W[('c', 'd', 'a')].values[1, 0, 1] = np.nan
W[('a', 'b')].values[1, 1] = np.inf
check('subtrahend with +inf / nan', A, W)

# 5. both operands carry the same structural zeros (log-potentials minus a step)
T = A + Z
check('both with -inf', T, Z)
check('-inf minus finite', T, B)

# 6. a mirror-descent style update  theta - alpha*g  where g overflowed in one cell
G = CliqueVector({cl: fac(cl, prng, 1e200) for cl in cliques})
G[('b', 'c')] = G[('b', 'c')] * G[('b', 'c')] * G[('b', 'c')]     # +-inf where it overflows
check('theta - alpha*g, overflow', A, 0.5 * G)
check('theta - g, overflow', A, G)

print('\n'.join(lines))
if problems:
    print('FAIL: CliqueVector subtraction is not  a[cl] + (-1)*b[cl]  at every named cell')
    for p in problems[:12]:
        print('   ', p)
    print('    (%d mismatching cells in total)' % len(problems))
    sys.exit(1)
print('PASS')
sys.exit(0)

"""
C14 pair 2 -- scalar operands of the Factor operators (Factor vs scalar duck typing)

Reference semantics (the unmodified library), cell by cell, by attribute NAME:
    (f + c)(x) = (c + f)(x) = f(x) + c          f += c  agrees with  f + c  and updates f in place
    (f * c) in place:  f *= c  gives f(x) * c   and updates f in place
    (f / c)(x) = nan_to_num( f(x) / c )         for EVERY scalar c: negative, zero, numpy scalar types
    (f / g)(x) = f(x) / g(x) where g(x) > 0, else 0     (factor divisor: unchanged convention)
The reference is evaluated with plain python floats / numpy scalars, one cell at a time.
"""
import os, sys, hashlib, itertools, warnings
ROOT = os.path.dirname(os.path.dirname(os.path.dirname(os.path.abspath(__file__))))
sys.path.insert(0, os.path.join(ROOT, 'src'))
import numpy as np
warnings.simplefilter('ignore')
from mbi import Domain, Factor

SIZES = {'a': 2, 'b': 3, 'c': 2, 'd': 1}
problems, lines = [], []

def cells(dom):
    for idx in itertools.product(*[range(n) for n in dom.shape]):
        yield dict(zip(dom.attrs, idx))

def at(fac, x):
    return fac.values[tuple(x[a] for a in fac.domain.attrs)]

def same(u, v):
    return bool(u == v) or bool(np.isnan(u) and np.isnan(v))

def compare(name, res, operand, fn):
    """ res must equal fn(operand(x)) at every cell x of operand's domain """
    if not isinstance(res, Factor) or set(res.domain.attrs) != set(operand.domain.attrs) \
            or res.values.shape != res.domain.shape:
        problems.append('%s: result is not a factor over %s' % (name, operand.domain.attrs))
        return
    dig = []
    for x in cells(operand.domain):
        with np.errstate(all='ignore'):
            want = fn(at(operand, x), x)
        got = at(res, x)
        if not same(got, want):
            problems.append('%s: cell %s: got %r, expected %r' % (name, x, float(got), float(want)))
        dig.append(repr(float(got)))
    dig.append(str(res.values.dtype))
    lines.append('%-44s %s' % (name, hashlib.sha256(' '.join(dig).encode()).hexdigest()[:16]))

def fac(attrs, prng):
    dom = Domain(attrs, [SIZES[a] for a in attrs])
    return Factor(dom, prng.normal(size=dom.shape))

prng = np.random.RandomState(1402)
F = {
    'f(c,a,b)': fac(('c', 'a', 'b'), prng),
    'f(d)': fac(('d',), prng),
    'f(b,d) view': fac(('d', 'b'), prng).transpose(['b', 'd']),
    'f() 0-d': fac(('a', 'b'), prng).sum(['a', 'b']),
}
H = fac(('a', 'b'), prng)
H.values[0, 1] = np.inf; H.values[1, 2] = -np.inf; H.values[1, 0] = 0.0
F['f(a,b) with +-inf, 0'] = H

SCALARS = [2.5, 3, -2.0, -1, 0, 0.0, np.float64(-0.5), np.int64(-4), np.float32(0.25), 1e-300, np.inf]

with np.errstate(all='ignore'):
    for fname, f in F.items():
        for c in SCALARS:
            tag = '%s , %r' % (fname, c)
            before = f.values.copy()
            compare('f + c   ' + tag, f + c, f, lambda v, x: v + c)
            compare('c + f   ' + tag, c + f, f, lambda v, x: v + c)
            try:
                quot = f / c
            except Exception as e:
                quot = None
                problems.append('f / c raised %s: %s  (%s)' % (type(e).__name__, e, tag))
            if quot is not None:
                compare('f / c   ' + tag, quot, f, lambda v, x: np.nan_to_num(v / c))
            if not np.array_equal(before, f.values, equal_nan=True):
                problems.append('pure operators modified their operand: ' + tag)
            r = f + c
            if np.shares_memory(r.values, f.values):
                problems.append('f + c aliases f: ' + tag)
            # in-place forms: same object, same array, views keep seeing the update
            for op in ['+=', '*=']:
                g = f.copy(); arr = g.values; view = g.transpose(g.domain.attrs[::-1])
                orig = g.copy()
                h = g
                if op == '+=': h += c
                else: h *= c
                compare('f %s c  %s' % (op, tag), g, orig,
                        (lambda v, x: v + c) if op == '+=' else (lambda v, x: v * c))
                if h is not g:
                    problems.append('f %s c returns another object: %s' % (op, tag))
                if len(g.domain) == 0:
                    continue    # the values of a 0-d factor are an immutable numpy scalar
                if g.values is not arr:
                    problems.append('f %s c is not in place: %s' % (op, tag))
                compare('view after f %s c  %s' % (op, tag), view, orig,
                        (lambda v, x: v + c) if op == '+=' else (lambda v, x: v * c))

    # builtin sum() starts from the int 0
    parts = [fac(('a', 'b'), prng), fac(('b', 'a'), prng), fac(('b',), prng)]
    tot = sum(parts)
    compare('sum([f1,f2,f3])', tot, parts[0],
            lambda v, x: (0 + v) + at(parts[1], x) + at(parts[2], x))

    # a dual-averaging style step: gradient divided by a negative constant, then shifted
    g = fac(('b', 'c', 'a'), prng)
    lam = -4.0
    step = g / lam + 1.0
    compare('g / lam + 1 , lam = -4', step, g, lambda v, x: v / lam + 1.0)
    u = Factor.uniform(g.domain)
    compare('uniform', u, g, lambda v, x: 1.0 / 12)

    # factor divisors keep their convention (0 where the divisor is not positive)
    den = fac(('a', 'c'), prng)
    q = g / den
    compare('g / den (factor divisor)', q, g,
            lambda v, x: v / at(den, x) if at(den, x) > 0 else 0.0)

print('\n'.join(lines[:6] + ['... %d result digests, combined %s' % (
    len(lines), hashlib.sha256('\n'.join(lines).encode()).hexdigest()[:24])]))
if problems:
    print('FAIL: a scalar operand is not treated as a plain number by every operator')
    for p in problems[:12]:
        print('   ', p)
    print('    (%d problems in total)' % len(problems))
    sys.exit(1)
print('PASS')
sys.exit(0)

""" C14 pair 1 -- scalar * Factor (Factor.__mul__ / __rmul__, and through them
CliqueVector.__mul__ / __sub__) on tables that contain infinite entries.

The library defines   c * f   as   nan_to_num(c * f.values)   entry by entry:
nan -> 0, +inf -> largest finite float, -inf -> most negative finite float.
This program checks that against an independent entry-by-entry reference, for
factors over permuted / size-1 attribute lists, finite and infinite tables.
"""
import os, sys, hashlib, warnings
ROOT = os.path.dirname(os.path.dirname(os.path.dirname(os.path.abspath(__file__))))
sys.path.insert(0, os.path.join(ROOT, 'src'))
import numpy as np
from mbi import Domain, Factor, CliqueVector
warnings.simplefilter('ignore')

FMAX = np.finfo(float).max

def ref_scalar(c, x):
    """ the scalar operation, one table entry at a time """
    with np.errstate(all='ignore'):
        y = c * x
    if np.isnan(y):
        return 0.0
    if y == np.inf:
        return FMAX
    if y == -np.inf:
        return -FMAX
    return float(y)

def ref_table(c, values):
    out = np.empty(values.shape)
    for idx in np.ndindex(*values.shape):
        out[idx] = ref_scalar(c, values[idx])
    return out

rng = np.random.RandomState(14)
full = Domain(['a', 'b', 'c', 'd'], [2, 3, 1, 4])
orders = [('a',), ('c',), ('b', 'a'), ('d', 'c', 'a'), ('c', 'b', 'd', 'a'), ()]
scalars = [2.0, -1, 0, 0.5, -3.25, 1e300, np.inf, -np.inf, np.float64(-1.0)]

def tables(dom):
    """ (label, values) : finite, log-space with structural zeros, with +inf, with nan """
    base = np.asarray(rng.randn(*dom.shape) * 3)
    yield 'finite', base.copy()
    if dom.size() > 1:
        t = base.copy(); t.flat[0] = -np.inf; t.flat[-1] = -np.inf
        yield 'neginf', t
        t = base.copy(); t.flat[1] = np.inf
        yield 'posinf', t
        t = base.copy(); t.flat[0] = np.nan
        yield 'nan', t
        t = base.copy() * 1e300
        yield 'huge', t

problems = []
h = hashlib.sha256()
count = 0
for attrs in orders:
    dom = full.project(attrs)
    for label, vals in tables(dom):
        f = Factor(dom, vals.copy())
        for c in scalars:
            want = ref_table(c, vals)
            for side, got in (('c*f', c * f), ('f*c', f * c)):
                count += 1
                ok = got.domain == dom and got.values.shape == dom.shape \
                     and np.array_equal(got.values, want)
                if not ok:
                    problems.append('%s  attrs=%s table=%s c=%r : got %s want %s' % (
                        side, attrs, label, c, got.values.ravel()[:4], want.ravel()[:4]))
                h.update(np.ascontiguousarray(got.values, dtype=float).tobytes())
            if not np.array_equal(f.values, vals, equal_nan=True):
                problems.append('operand modified: attrs=%s table=%s c=%r' % (attrs, label, c))

# structural zeros built by the library itself, and the clique-vector forms
dom = full.project(('d', 'a'))
act = Factor.active(dom, [(0, 1), (3, 0)])
theta = CliqueVector({('d', 'a'): act + Factor(dom, rng.randn(4, 2)),
                      ('b',): Factor(full.project(('b',)), rng.randn(3))})
other = CliqueVector({cl: Factor(theta[cl].domain, rng.randn(*theta[cl].domain.shape))
                      for cl in theta})
for name, got, want in [
        ('-1*theta', -1 * theta, {cl: ref_table(-1, theta[cl].values) for cl in theta}),
        ('theta*0.5', theta * 0.5, {cl: ref_table(0.5, theta[cl].values) for cl in theta}),
        ('other-theta', other - theta,
            {cl: other[cl].values + ref_table(-1, theta[cl].values) for cl in theta})]:
    for cl in theta:
        count += 1
        if not np.array_equal(got[cl].values, want[cl]):
            problems.append('CliqueVector %s clique %s: got %s want %s' % (
                name, cl, got[cl].values.ravel()[:4], want[cl].ravel()[:4]))
        h.update(np.ascontiguousarray(got[cl].values, dtype=float).tobytes())

if problems:
    print('FAIL: scalar multiplication does not give nan_to_num(c*x) entry by entry')
    print('%d of %d checks differ; first ones:' % (len(problems), count))
    for p in problems[:8]:
        print('  ', p)
    sys.exit(1)
print('PASS %d checks digest %s' % (count, h.hexdigest()))

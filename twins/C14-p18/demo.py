""" C14 pair 2 -- Factor.log() (and CliqueVector.log(), exp().log(), the entropy
expression sum(mu * log mu)) on tables with empty, very small and negative cells.

The library defines   f.log()   entry by entry as   log(x + 1e-100) .  This
program checks that against math.log applied one entry at a time, for factors
over permuted / size-1 / empty attribute lists.
"""
import os, sys, math, hashlib, warnings
ROOT = os.path.dirname(os.path.dirname(os.path.dirname(os.path.abspath(__file__))))
sys.path.insert(0, os.path.join(ROOT, 'src'))
import numpy as np
from mbi import Domain, Factor, CliqueVector
warnings.simplefilter('ignore')

def ref_scalar(x):
    y = float(x) + 1e-100
    if math.isnan(y) or y < 0:
        return float('nan')
    if y == 0:
        return -float('inf')
    if math.isinf(y):
        return float('inf')
    return math.log(y)

def ref_table(values):
    values = np.asarray(values)
    out = np.empty(values.shape)
    for idx in np.ndindex(*values.shape):
        out[idx] = ref_scalar(values[idx])
    return out

def same(got, want):
    got = np.asarray(got, dtype=float)
    return got.shape == want.shape and np.allclose(got, want, rtol=1e-12, atol=0, equal_nan=True)

rng = np.random.RandomState(1402)
full = Domain(['a', 'b', 'c', 'd'], [2, 3, 1, 4])
orders = [('a',), ('c',), ('b', 'a'), ('d', 'c', 'a'), ('c', 'b', 'd', 'a'), ()]
special = np.array([0.0, 1e-300, 1e-120, 1e-100, 3e-90, 1e-84, 1e-20, 0.3, 5.0, 1e200])

def tables(dom):
    n = dom.size()
    yield 'ordinary', np.asarray(rng.rand(*dom.shape) + 0.01)
    yield 'with-zeros', np.asarray(rng.rand(*dom.shape) * (rng.rand(*dom.shape) < 0.5))
    yield 'counts', np.asarray(rng.randint(0, 4, size=dom.shape))           # integer table
    yield 'tiny', rng.choice(special, size=n).reshape(dom.shape)           # underflowing products
    yield 'exp-of-very-negative', np.asarray(np.exp(-rng.randint(200, 400, size=dom.shape) * 1.0))
    yield 'signed', np.asarray(rng.randn(*dom.shape) * 1e-3)                # e.g. a difference of marginals

problems = []
h = hashlib.sha256()
count = 0
def check(what, got, want):
    global count
    count += 1
    if not same(got, want):
        problems.append('%s: got %s want %s' % (what, np.ravel(got)[:4], np.ravel(want)[:4]))
    h.update(np.ascontiguousarray(got, dtype=float).tobytes())

for attrs in orders:
    dom = full.project(attrs)
    for label, vals in tables(dom):
        f = Factor(dom, vals.copy())
        g = f.log()
        if g.domain != dom:
            problems.append('domain changed: %s %s' % (attrs, label))
        check('log  attrs=%s table=%s' % (attrs, label), g.values, ref_table(vals))
        if not np.array_equal(np.asarray(f.values), vals):
            problems.append('operand modified: %s %s' % (attrs, label))
        if len(attrs) >= 2 and label in ('tiny', 'with-zeros'):
            # log commutes with transposition; entropy term of a marginal
            perm = tuple(reversed(attrs))
            t = f.transpose(perm).log()
            check('transpose.log attrs=%s table=%s' % (attrs, label),
                  t.transpose(attrs).values, ref_table(vals))
            ent = (f * f.log()).sum()
            want = float(np.sum(np.asarray(vals, dtype=float) * ref_table(vals)))
            check('sum(mu*log mu) attrs=%s table=%s' % (attrs, label), ent, np.asarray(want))

# clique vector of marginals, one of them nearly deterministic
d1, d2 = full.project(('d', 'a')), full.project(('b',))
mu = CliqueVector({('d', 'a'): Factor(d1, np.array([[1 - 1e-12, 1e-95], [0, 4e-101], [1e-12, 0], [7e-150, 0]])),
                   ('b',): Factor(d2, np.array([0.5, 0.5, 0.0]))})
lg = mu.log()
for cl in mu:
    check('CliqueVector.log %s' % (cl,), lg[cl].values, ref_table(mu[cl].values))
# exp().log() round trip of log-potentials: exact above the guard, shifted by it below
theta = Factor(d1, np.array([[0., -50.], [-200., -229.], [-230.2585, -231.], [-250., -700.]]))
check('exp().log()', theta.exp().log().values, ref_table(np.exp(theta.values)))

if problems:
    print('FAIL: Factor.log() is not log(x + 1e-100) entry by entry')
    print('%d of %d checks differ; first ones:' % (len(problems), count))
    for p in problems[:8]:
        print('  ', p)
    sys.exit(1)
print('PASS %d checks digest %s' % (count, h.hexdigest()))

"""C14 pair1 demo: conditioning / aggregation / projection are defined by attribute
NAME, at every evidence value.  Every result is compared, assignment by assignment, with a brute-force oracle
that only ever looks values up by name.  The operands are laid out over domains whose
attribute order is NOT the alphabetical one (and over alphabetical ones as control).
"""
import os, sys, itertools, hashlib
ROOT = os.path.dirname(os.path.dirname(os.path.dirname(os.path.abspath(__file__))))
sys.path.insert(0, os.path.join(ROOT, 'src'))
import numpy as np
from mbi import Domain, Factor, CliqueVector
import mbi
assert os.path.abspath(mbi.__file__).startswith(ROOT), mbi.__file__

problems, digest = [], hashlib.sha256()

def at(f, asg):
    """ value of factor f at the (named) assignment asg """
    return f.values[tuple(asg[a] for a in f.domain.attrs)]

def assignments(attrs, sizes):
    for idx in itertools.product(*[range(sizes[a]) for a in attrs]):
        yield dict(zip(attrs, idx))

def record(label, f):
    digest.update(label.encode())
    digest.update(repr((f.domain.attrs, f.domain.shape)).encode())
    digest.update(np.round(np.asarray(f.values, dtype=float), 9).tobytes())

def check(label, thunk, want_attrs, sizes, oracle):
    """ run thunk(); its domain must be want_attrs (in that order) and its value at every
        named assignment must equal oracle(assignment) """
    try:
        res = thunk()
    except Exception as e:
        problems.append('%s: raised %s: %s' % (label, type(e).__name__, e))
        return
    if res.domain.attrs != tuple(want_attrs):
        problems.append('%s: axes %s, expected %s' % (label, res.domain.attrs, tuple(want_attrs)))
        return
    if res.values.shape != tuple(sizes[a] for a in want_attrs):
        problems.append('%s: shape %s does not match domain' % (label, res.values.shape))
        return
    bad = 0
    for asg in assignments(want_attrs, sizes):
        if not np.isclose(at(res, asg), oracle(asg), rtol=1e-9, atol=1e-12):
            bad += 1
    if bad:
        problems.append('%s: %d cells differ from the by-name oracle' % (label, bad))
    record(label, res)

AGG = {
    'sum': (lambda f, S: f.sum(S), lambda xs: float(np.sum(xs))),
    'max': (lambda f, S: f.max(S), lambda xs: float(np.max(xs))),
    'logsumexp': (lambda f, S: f.logsumexp(S), lambda xs: float(np.log(np.sum(np.exp(xs))))),
}

def run_domain(tag, attrs, shape, seed):
    prng = np.random.RandomState(seed)
    sizes = dict(zip(attrs, shape))
    dom = Domain(attrs, shape)
    f = Factor(dom, prng.rand(*shape))
    # aggregations over every non-empty proper subset of the attributes
    for r in range(1, len(attrs)):
        for S in itertools.combinations(attrs, r):
            rest = [a for a in attrs if a not in S]
            for name, (op, scalar) in AGG.items():
                def oracle(asg, S=S, scalar=scalar):
                    return scalar([at(f, dict(asg, **extra)) for extra in assignments(S, sizes)])
                check('%s %s over %s' % (tag, name, S), lambda: op(f, list(S)), rest, sizes, oracle)
    # projection onto ordered subsets: axes come back in the order requested
    for r in range(1, len(attrs) + 1):
        for P in itertools.permutations(attrs, r):
            S = [a for a in attrs if a not in P]
            def oracle(asg, S=S):
                return float(np.sum([at(f, dict(asg, **extra)) for extra in assignments(S, sizes)]))
            check('%s project %s' % (tag, P), lambda: f.project(list(P)), P, sizes, oracle)
    # conditioning on one and on two attributes, at EVERY value (first, inner, last);
    # evidence may mention attributes the factor does not have
    for r in (1, 2):
        for E in itertools.combinations(attrs, r):
            rest = [a for a in attrs if a not in E]
            for ev in assignments(E, sizes):
                ev2 = dict(ev, unrelated=0) if r == 1 else ev
                check('%s condition %s' % (tag, sorted(ev.items())), lambda: f.condition(ev2), rest, sizes,
                      lambda asg, ev=ev: at(f, dict(asg, **ev)))
    return f

# control: alphabetical layouts
run_domain('abc/234', ('a', 'b', 'c'), (2, 3, 4), 1)
run_domain('abcd/3333', ('a', 'b', 'c', 'd'), (3, 3, 3, 3), 2)
# non-alphabetical layouts: equal sizes, distinct sizes, a size-1 attribute
g = run_domain('cab/333', ('c', 'a', 'b'), (3, 3, 3), 3)
run_domain('zmb/234', ('z', 'm', 'b'), (2, 3, 4), 4)
run_domain('dbca/2212', ('d', 'b', 'c', 'a'), (2, 2, 1, 2), 5)
run_domain('age,sex,edu', ('sex', 'age', 'edu'), (2, 4, 2), 6)

# binary operations on overlapping operands in permuted order, then aggregated
prng = np.random.RandomState(7)
sizes = {'a': 3, 'b': 3, 'c': 3, 'd': 3}
h = Factor(Domain(('d', 'b', 'a'), (3, 3, 3)), prng.rand(3, 3, 3))
for name, op, sc in [('mul', lambda x, y: x * y, lambda u, v: u * v),
                     ('add', lambda x, y: x + y, lambda u, v: u + v),
                     ('sub', lambda x, y: x - y, lambda u, v: u - v),
                     ('logaddexp', lambda x, y: x.logaddexp(y), lambda u, v: np.logaddexp(u, v))]:
    want = ('c', 'a', 'b', 'd')
    check('cab %s dba' % name, lambda: op(g, h), want, sizes, lambda asg: sc(at(g, asg), at(h, asg)))
    def oracle(asg, sc=sc):
        return float(np.sum([sc(at(g, dict(asg, **e)), at(h, dict(asg, **e))) for e in assignments(('a', 'c'), sizes)]))
    check('(cab %s dba).sum(a,c)' % name, lambda: op(g, h).sum(['a', 'c']), ('b', 'd'), sizes, oracle)

# clique vectors over permuted cliques: combine clique by clique, then marginalise
dom = Domain(('c', 'a', 'b', 'd'), (3, 3, 3, 3))
cv = CliqueVector({('c', 'a', 'b'): g.copy(), ('d', 'b', 'a'): h.copy()})
tot = cv + cv * 0.5
for cl, src in [(('c', 'a', 'b'), g), (('d', 'b', 'a'), h)]:
    drop = cl[1]
    rest = [a for a in cl if a != drop]
    check('cv %s minus %s' % (cl, drop), lambda: tot[cl].sum([drop]), rest, sizes,
          lambda asg, src=src, drop=drop: 1.5 * float(np.sum([at(src, dict(asg, **e)) for e in assignments((drop,), sizes)])))

if problems:
    print('FAIL: %d results are not the by-name aggregate / slice of their operand' % len(problems))
    for p in problems[:12]:
        print('   ', p)
    if len(problems) > 12:
        print('    ... and %d more' % (len(problems) - 12))
    sys.exit(1)
print('PASS', digest.hexdigest())

"""C14 pair2 demo: CliqueVector arithmetic combines two collections of factors
CLIQUE BY CLIQUE (by key), whatever order the two collections were built in.

Part 1 checks +, -, scalar +, scalar *, exp, log of CliqueVectors whose cliques were
       inserted in different orders against a per-clique, by-name reference.
Part 2 runs FactoredInference.mirror_descent with a custom (callable) metric that
       returns its gradient CliqueVector once in model order and once in another
       order; the estimated marginals must not depend on that.

exit 0 + PASS + digest : everything agrees
exit 1 + FAIL          : some result disagrees (or raises)
"""
import os, sys, hashlib, warnings, io, contextlib
ROOT = os.path.dirname(os.path.dirname(os.path.dirname(os.path.abspath(__file__))))
sys.path.insert(0, os.path.join(ROOT, 'src'))
warnings.filterwarnings('ignore')
import numpy as np
from mbi import Domain, Factor, CliqueVector, FactoredInference
import mbi
assert os.path.abspath(mbi.__file__).startswith(ROOT), mbi.__file__

failures = []
digest = hashlib.sha256()
nchecks = 0

DOMAIN = Domain(['a', 'b', 'c', 'd'], [2, 3, 4, 3])
CLIQUES = [('a', 'b'), ('b', 'c'), ('c', 'd'), ('b', 'd')]


def lookup(f, asg):
    return f.values[tuple(asg[a] for a in f.domain.attrs)]


def reference(domain, fn, *operands):
    out = np.empty(domain.shape)
    for idx in np.ndindex(*domain.shape):
        asg = dict(zip(domain.attrs, idx))
        out[idx] = fn(*[lookup(f, asg) for f in operands])
    return out


def random_vector(order, rng, attr_order=None):
    """CliqueVector with cliques inserted in the given order"""
    d = {}
    for cl in order:
        attrs = cl if attr_order is None else attr_order(cl)
        dom = DOMAIN.project(attrs)
        d[cl] = Factor(dom, rng.rand(*dom.shape) + 0.1)
    return CliqueVector(d)


def check_vector(label, got, keys, ref):
    """got must have exactly `keys`; got[cl] must equal ref(cl) assignment by assignment"""
    global nchecks
    nchecks += 1
    try:
        ok = set(got.keys()) == set(keys)
        for cl in keys:
            if not ok:
                break
            dom = DOMAIN.project(cl)
            want = ref(cl, dom)
            g = got[cl]
            ok = (set(g.domain.attrs) == set(cl)
                  and np.allclose(reference(dom, lambda x: x, g), want, rtol=1e-12, atol=1e-12))
        if ok:
            digest.update(label.encode())
            for cl in keys:
                digest.update(repr(cl).encode())
                digest.update(reference(DOMAIN.project(cl), lambda x: x, got[cl]).tobytes())
        else:
            failures.append(label)
    except Exception as e:
        failures.append('%s  [raised %s: %s]' % (label, type(e).__name__, e))


def part1():
    rng = np.random.RandomState(1402)
    orders = {
        'same': list(CLIQUES),
        'reversed': list(reversed(CLIQUES)),
        'rotated': CLIQUES[1:] + CLIQUES[:1],
        'sorted-by-size': sorted(CLIQUES, key=DOMAIN.size),
    }
    x = random_vector(CLIQUES, rng)
    for name, order in orders.items():
        y = random_vector(order, rng)
        z = random_vector(order, rng, attr_order=lambda cl: tuple(reversed(cl)))
        for yname, other in (('y', y), ('y-with-permuted-attrs', z)):
            tag = '[%s, %s]' % (name, yname)
            check_vector('x + other ' + tag, x + other, CLIQUES,
                         lambda cl, dom: reference(dom, lambda p, q: p + q, x[cl], other[cl]))
            check_vector('other + x ' + tag, other + x, CLIQUES,
                         lambda cl, dom: reference(dom, lambda p, q: p + q, x[cl], other[cl]))
            check_vector('x - other ' + tag, x - other, CLIQUES,
                         lambda cl, dom: reference(dom, lambda p, q: p - q, x[cl], other[cl]))
            check_vector('0.25*x + 0.75*other ' + tag, 0.25 * x + 0.75 * other, CLIQUES,
                         lambda cl, dom: reference(dom, lambda p, q: 0.25 * p + 0.75 * q, x[cl], other[cl]))
            check_vector('(x + other).log().exp() ' + tag, (x + other).log().exp(), CLIQUES,
                         lambda cl, dom: reference(dom, lambda p, q: np.exp(np.log(p + q + 1e-100)), x[cl], other[cl]))
    # the right operand may hold more cliques than the left one (only the left one's are used)
    big = random_vector([('a', 'd')] + list(reversed(CLIQUES)) + [('a', 'c')], rng)
    check_vector('x + superset', x + big, CLIQUES,
                 lambda cl, dom: reference(dom, lambda p, q: p + q, x[cl], big[cl]))
    # unary / scalar forms
    check_vector('x + 2.5', x + 2.5, CLIQUES, lambda cl, dom: reference(dom, lambda p: p + 2.5, x[cl]))
    check_vector('3 * x', 3 * x, CLIQUES, lambda cl, dom: reference(dom, lambda p: 3 * p, x[cl]))
    check_vector('x.exp()', x.exp(), CLIQUES, lambda cl, dom: reference(dom, np.exp, x[cl]))
    check_vector('x.log()', x.log(), CLIQUES, lambda cl, dom: reference(dom, lambda p: np.log(p + 1e-100), x[cl]))


def part2():
    """mirror descent with a callable metric: gradient order must not matter"""
    global nchecks
    rng = np.random.RandomState(77)
    total = 100.0
    targets = {}
    measurements = []
    for cl in CLIQUES:
        dom = DOMAIN.project(cl)
        p = rng.rand(dom.size()); p = total * p / p.sum()
        targets[cl] = p
        measurements.append((None, p, 1.0, cl))

    def make_metric(reorder):
        def metric(marginals):
            loss = 0.0
            grad = {}
            keys = list(marginals.keys())
            home = {m: next(cl for cl in keys if set(m) <= set(cl)) for m in CLIQUES}
            for cl in reorder(keys):
                mu = marginals[cl]
                grad[cl] = Factor.zeros(mu.domain)
                for m in CLIQUES:
                    if home[m] != cl:
                        continue
                    mu2 = mu.project(m)
                    diff = mu2.datavector() - targets[m]
                    loss += 0.5 * float(diff @ diff)
                    grad[cl] += Factor(mu2.domain, diff)
            return loss, CliqueVector(grad)
        return metric

    results = {}
    for name, reorder in (('model-order', lambda ks: ks),
                          ('reversed', lambda ks: ks[::-1]),
                          ('sorted', lambda ks: sorted(ks, reverse=True))):
        try:
            eng = FactoredInference(DOMAIN, metric=make_metric(reorder), iters=40)
            with contextlib.redirect_stdout(io.StringIO()):
                model = eng.estimate(list(measurements), total=total, engine='MD')
            results[name] = {cl: model.project(cl).datavector() for cl in CLIQUES}
        except Exception as e:
            failures.append('mirror_descent, gradient returned in %s order  [raised %s: %s]'
                            % (name, type(e).__name__, e))
    base = results.get('model-order')
    for name in ('reversed', 'sorted'):
        nchecks += 1
        if base is None or name not in results:
            continue
        ok = all(np.allclose(base[cl], results[name][cl], rtol=1e-9, atol=1e-9) for cl in CLIQUES)
        if not ok:
            failures.append('mirror_descent: marginals differ when the metric returns its '
                            'gradient in %s clique order' % name)
    if base is not None:
        for cl in CLIQUES:
            digest.update(np.round(base[cl], 8).tobytes())


part1()
part2()
if failures:
    print('FAIL: %d checks failed' % len(failures))
    for l in failures[:40]:
        print('   ', l[:200])
    if len(failures) > 40:
        print('    ... and %d more' % (len(failures) - 40))
    print('CliqueVector addition pairs the factors of the two collections by their POSITION '
          'in the dictionaries instead of by clique: collections built in different clique '
          'orders get unrelated factors added together.')
    sys.exit(1)
print('PASS: %d checks agree with the clique-by-clique reference' % nchecks)
print('digest', digest.hexdigest())
sys.exit(0)

""" C14 pair 1 -- Factor.__sub__ (factor - factor), non-finite entries of the subtrahend.

Reference semantics (unmodified library): for every joint assignment x of the merged domain
    (f - g)(x) = f(x)            if g(x) == -inf   (structural zero: left out of the difference)
               = f(x) - g(x)     otherwise         (in particular f(x) - (+inf) = -inf)
addressed by attribute NAME, whatever the axis orders of f and g are.
"""
import os, sys, hashlib, itertools
ROOT = os.path.dirname(os.path.dirname(os.path.dirname(os.path.abspath(__file__))))
sys.path.insert(0, os.path.join(ROOT, 'src'))
import numpy as np
from mbi import Domain, Factor

np.seterr(all='ignore')
SIZES = {'a': 2, 'b': 3, 'c': 1, 'd': 4}

def reference(f, g, res):
    """ cell-by-cell check of res == f - g, by attribute name; returns list of mismatches """
    bad = []
    for idx in itertools.product(*[range(n) for n in res.domain.shape]):
        asg = dict(zip(res.domain.attrs, idx))
        fv = f.values[tuple(asg[a] for a in f.domain.attrs)]
        gv = g.values[tuple(asg[a] for a in g.domain.attrs)]
        want = fv if gv == -np.inf else fv - gv
        got = res.values[idx]
        same = (np.isnan(want) and np.isnan(got)) or want == got
        if not same:
            bad.append((asg, float(fv), float(gv), float(want), float(got)))
    return bad

def make(prng, attrs, special):
    dom = Domain(attrs, [SIZES[a] for a in attrs])
    vals = np.array(np.round(prng.normal(size=dom.shape), 3), dtype=float)
    flat = vals.reshape(-1)
    for k, s in enumerate(special):
        flat[(3 * k + 1) % flat.size] = s
    return Factor(dom, vals)

CASES = [
    # (attrs of f, attrs of g, special values planted in g)
    (('a', 'b'), ('a', 'b'), []),
    (('a', 'b'), ('b', 'a'), []),
    (('a', 'b', 'd'), ('d', 'a'), [-np.inf]),
    (('b', 'a'), ('a', 'd', 'b'), [-np.inf, -np.inf]),
    (('c', 'a'), ('a', 'c'), [-np.inf]),
    (('d',), ('d',), [-np.inf, 0.0]),
    ((), (), []),
    (('a', 'b'), ('b', 'a'), [np.inf]),                   # +inf in the subtrahend
    (('d', 'b'), ('b', 'c', 'd'), [np.inf, -np.inf]),     # both infinities
    (('a',), ('d', 'a'), [np.inf, np.inf, -np.inf]),
    ((), (), [np.inf]),                                   # 0-d factor
]

def main():
    prng = np.random.RandomState(1404)
    h = hashlib.sha256()
    failures = []
    for n, (fa, ga, special) in enumerate(CASES):
        f = make(prng, fa, [])
        g = make(prng, ga, special)
        g0 = g.values.copy()
        res = f - g
        assert np.array_equal(g.values, g0, equal_nan=True), 'operand mutated'
        bad = reference(f, g, res)
        if set(res.domain.attrs) != set(fa) | set(ga):
            bad.append(('domain', res.domain.attrs))
        if bad:
            failures.append((n, fa, ga, special, bad[:3], len(bad)))
        h.update(repr((res.domain.attrs, res.domain.shape)).encode())
        h.update(np.ascontiguousarray(res.values, dtype=float).tobytes())
    # integer-valued tables (counts) go through the same code path
    fi = Factor(Domain(['a', 'b'], [2, 3]), np.arange(6))
    gi = Factor(Domain(['b', 'a'], [3, 2]), np.arange(6) * 2)
    ri = fi - gi
    if reference(fi, gi, ri):
        failures.append(('int', reference(fi, gi, ri)[:3]))
    h.update(str(ri.values.dtype).encode() + ri.values.tobytes())

    if failures:
        print('FAIL: Factor.__sub__ does not give f(x) - g(x) cell by cell')
        for fl in failures:
            print('  case', fl)
        print('  (a +inf entry of the subtrahend must give -inf, only -inf entries are left out)')
        sys.exit(1)
    print('PASS', len(CASES) + 1, 'cases  digest', h.hexdigest())

if __name__ == '__main__':
    main()

import os, sys, hashlib
ROOT = os.path.dirname(os.path.dirname(os.path.dirname(os.path.abspath(__file__))))
sys.path.insert(0, os.path.join(ROOT, 'src'))
import numpy as np
from mbi import Domain, Factor

np.seterr(all='ignore')
prng = np.random.RandomState(1414)
dom = Domain(['a', 'b', 'c', 'd'], [2, 3, 1, 4])
digest = hashlib.sha256()
fails = []

def rec(tag, arr):
    digest.update(tag.encode())
    digest.update(np.ascontiguousarray(np.asarray(arr, dtype=float)).tobytes())

def rand(attrs, kind):
    d = dom.project(attrs)
    v = prng.rand(*d.shape)
    if kind == 'zeros':          # empty cells (structural zeros of a marginal)
        v[prng.rand(*d.shape) < 0.4] = 0.0
        v.flat[0] = 0.0
    elif kind == 'tiny':         # cells far below the 1e-100 guard
        v = v * 1e-150
    return Factor(d, v)

orders = [('a',), ('c',), ('b', 'a'), ('d', 'c', 'a'), ('a', 'b', 'c', 'd'), ('d', 'b', 'a', 'c')]
for attrs in orders:
    for kind in ['dense', 'zeros', 'tiny']:
        f = rand(attrs, kind)
        tag = '%s/%s' % (','.join(attrs), kind)
        # pure forms
        e = f.exp(); l = f.log()
        rec(tag + '/exp', e.values); rec(tag + '/log', l.values)
        # exp(out=) agrees with the pure form, written into the given factor
        out = Factor.zeros(f.domain)
        r = f.exp(out=out)
        if r is not out or not np.array_equal(out.values, np.exp(f.values)):
            fails.append('%s: exp(out=) differs from elementwise exp' % tag)
        # log(out=) is the exact elementwise log of the table, cell by cell
        out = Factor.zeros(f.domain)
        r = f.log(out=out)
        want = np.log(f.values)
        rec(tag + '/logout', out.values)
        if r is not out or not np.array_equal(out.values, want):
            bad = np.argwhere(out.values != want)[0]
            fails.append('%s: log(out=) at cell %s gives %r, elementwise log is %r'
                         % (tag, tuple(bad), out.values[tuple(bad)], want[tuple(bad)]))
        # round trip of a log-potential with structural zeros, done in place
        pot = Factor(f.domain, np.where(f.values == 0, -np.inf, np.log(np.where(f.values == 0, 1, f.values))))
        buf = pot.copy()
        buf.exp(out=buf); buf.log(out=buf)
        rec(tag + '/roundtrip', buf.values)
        if not np.array_equal(np.isneginf(buf.values), np.isneginf(pot.values)):
            fails.append('%s: exp(out=) then log(out=) lost the structural zeros (-inf became %r)'
                         % (tag, buf.values[np.isneginf(pot.values)][0]))

# name addressed arithmetic on permuted / overlapping operands (context for the digest)
f = rand(('d', 'a'), 'zeros'); g = rand(('a', 'b', 'd'), 'dense')
h = f * g
for i in np.ndindex(*h.domain.shape):
    asg = dict(zip(h.domain.attrs, i))
    want = f.values[asg['d'], asg['a']] * g.values[asg['a'], asg['b'], asg['d']]
    if h.values[i] != want:
        fails.append('product differs at %s' % asg)
rec('mul', h.project(('b', 'd', 'a')).values)
rec('mul/log', h.log().values)

if fails:
    print('FAIL')
    for m in fails[:8]:
        print('  ' + m)
    print('  (%d failures)' % len(fails))
    sys.exit(1)
print('PASS', digest.hexdigest())

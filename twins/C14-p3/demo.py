"""C14 / pair 1 -- Factor.transpose (and Factor.project, GraphicalModel.krondot on top of it)
must move axes by attribute NAME, for every ordering and for every combination of attribute
sizes -- in particular when several attributes have the SAME size (e.g. all-binary domains).

Exit 0 + "PASS <digest>"  : every transposed / projected factor agrees, assignment by
                            assignment, with a reference computed by attribute name.
Exit 1 + "FAIL ..."       : some result holds a value at the wrong joint assignment.
"""
import os, sys, itertools, hashlib, warnings

ROOT = os.path.dirname(os.path.dirname(os.path.dirname(os.path.abspath(__file__))))
sys.path.insert(0, os.path.join(ROOT, 'src'))
warnings.simplefilter('ignore')

import numpy as np
from mbi import Domain, Factor
import mbi
assert os.path.abspath(mbi.__file__).startswith(os.path.join(ROOT, 'src')), mbi.__file__

digest = hashlib.sha256()
failures = []
checked = 0


def value_at(factor, assignment):
    """ value of the factor at a joint assignment given as {attr: index} """
    return factor.values[tuple(assignment[a] for a in factor.domain.attrs)]


def record(tag, factor):
    digest.update(tag.encode())
    digest.update(repr(factor.domain.attrs).encode())
    digest.update(repr(factor.domain.shape).encode())
    digest.update(np.ascontiguousarray(factor.values, dtype=float).tobytes())


def check_transpose(name, f, order):
    global checked
    g = f.transpose(order)
    tag = 'transpose %s %s->%s' % (name, f.domain.attrs, tuple(order))
    record(tag, g)
    checked += 1
    if g.domain.attrs != tuple(order) or g.values.shape != tuple(f.domain[a] for a in order):
        failures.append(tag + ': wrong domain / shape %s %s' % (g.domain, g.values.shape))
        return
    for idx in itertools.product(*[range(n) for n in f.domain.shape]):
        asg = dict(zip(f.domain.attrs, idx))
        if value_at(g, asg) != value_at(f, asg):
            failures.append(tag + ': value at %s is %r, expected %r' % (asg, value_at(g, asg), value_at(f, asg)))
            return


def check_project(name, f, order, agg):
    global checked
    g = f.project(order, agg=agg)
    tag = 'project[%s] %s %s->%s' % (agg, name, f.domain.attrs, tuple(order))
    record(tag, g)
    checked += 1
    if g.domain.attrs != tuple(order):
        failures.append(tag + ': wrong domain %s' % g.domain)
        return
    # reference: aggregate by name with a python loop
    ref = {}
    for idx in itertools.product(*[range(n) for n in f.domain.shape]):
        asg = dict(zip(f.domain.attrs, idx))
        key = tuple(asg[a] for a in order)
        ref.setdefault(key, []).append(f.values[idx])
    for key, vals in ref.items():
        want = np.sum(vals) if agg == 'sum' else np.log(np.sum(np.exp(vals)))
        got = g.values[key]
        if not np.isclose(got, want, rtol=1e-9, atol=1e-12):
            failures.append(tag + ': value at %s is %r, expected %r' % (dict(zip(order, key)), got, want))
            return


prng = np.random.RandomState(1404)
cases = [
    ('distinct-sizes', ['a', 'b', 'c'], [2, 3, 4]),
    ('one-attr', ['a'], [5]),
    ('with-size-1', ['x', 'y', 'z'], [1, 3, 2]),
    ('two-equal', ['a', 'b'], [3, 3]),                 # <- the regime the unit tests never use
    ('all-binary', ['p', 'q', 'r'], [2, 2, 2]),
    ('partly-equal', ['u', 'v', 'w'], [2, 3, 2]),
    ('four-mixed', ['a', 'b', 'c', 'd'], [2, 2, 3, 2]),
]
for name, attrs, shape in cases:
    dom = Domain(attrs, shape)
    f = Factor(dom, prng.rand(*shape))
    for order in itertools.permutations(attrs):
        check_transpose(name, f, list(order))
    for k in range(0, len(attrs) + 1):
        for sub in itertools.permutations(attrs, k):
            check_project(name, f, list(sub), 'sum')
            if k >= 1:
                check_project(name, f, list(sub), 'logsumexp')

# transposition feeding further algebra: (f^T + g) must still be addressed by name
dom = Domain(['s', 't'], [3, 3])
f = Factor(dom, prng.rand(3, 3))
g = Factor(Domain(['t', 's'], [3, 3]), prng.rand(3, 3))
h = f.transpose(['t', 's']) + g
record('sum-after-transpose', h)
checked += 1
for i in range(3):
    for j in range(3):
        asg = {'s': i, 't': j}
        if not np.isclose(value_at(h, asg), value_at(f, asg) + value_at(g, asg)):
            failures.append('f.transpose([t,s]) + g: value at %s is %r, expected %r'
                            % (asg, value_at(h, asg), value_at(f, asg) + value_at(g, asg)))
            break
    else:
        continue
    break

if failures:
    print('FAIL: %d of %d results are not addressed by attribute name' % (len(failures), checked))
    for line in failures[:12]:
        print('  ' + line)
    if len(failures) > 12:
        print('  ... and %d more' % (len(failures) - 12))
    sys.exit(1)
print('PASS %d results checked, digest %s' % (checked, digest.hexdigest()))
sys.exit(0)

"""C14 / pair 2 -- Factor.__truediv__ (factor / factor, e.g. P(Cj | Sij) = Z / Z.project(Sij))
must be addressed by attribute NAME, including the part of the rule that says
"where the divisor is <= 0 the quotient is 0":

    (f / g)[assignment] = f[assignment] / g[assignment restricted to g's attributes]   if g[...] > 0
                        = 0                                                            otherwise

for a divisor g over ANY sub-list of f's attributes (leading, trailing, interleaved, permuted).

Exit 0 + "PASS <digest>"  : every quotient agrees with the reference computed by name.
Exit 1 + "FAIL ..."       : some quotient is wrong (or the division raised).
"""
import os, sys, itertools, hashlib, warnings

ROOT = os.path.dirname(os.path.dirname(os.path.dirname(os.path.abspath(__file__))))
sys.path.insert(0, os.path.join(ROOT, 'src'))
warnings.simplefilter('ignore')

import numpy as np
from mbi import Domain, Factor
import mbi
assert os.path.abspath(mbi.__file__).startswith(os.path.join(ROOT, 'src')), mbi.__file__

digest = hashlib.sha256()
failures = []
checked = 0


def value_at(factor, assignment):
    return factor.values[tuple(assignment[a] for a in factor.domain.attrs)]


def check_div(tag, f, g):
    """ compare f / g with the quotient computed assignment by assignment """
    global checked
    checked += 1
    tag = '%s: %s / %s' % (tag, f.domain, g.domain)
    try:
        q = f / g
    except Exception as e:
        failures.append(tag + ' raised %s: %s' % (type(e).__name__, e))
        digest.update((tag + ' raised').encode())
        return
    digest.update(tag.encode())
    digest.update(repr(q.domain.attrs).encode())
    digest.update(np.ascontiguousarray(q.values, dtype=float).tobytes())
    if set(q.domain.attrs) != set(f.domain.attrs):
        failures.append(tag + ': wrong domain %s' % q.domain)
        return
    for idx in itertools.product(*[range(n) for n in f.domain.shape]):
        asg = dict(zip(f.domain.attrs, idx))
        den = value_at(g, asg)
        want = value_at(f, asg) / den if den > 0 else 0.0
        got = value_at(q, asg)
        if got != want:
            failures.append(tag + ': value at %s is %r, expected %r (divisor there is %r)' % (asg, got, want, den))
            return


def with_zeros(values, prng, k):
    """ zero out k entries of the array (structural zeros / empty cells) """
    values = values.copy()
    flat = values.reshape(-1)
    flat[prng.choice(flat.size, size=k, replace=False)] = 0.0
    return values


prng = np.random.RandomState(1402)
cases = [
    ('distinct', ['a', 'b', 'c'], [2, 3, 4]),
    ('equal', ['a', 'b', 'c'], [3, 3, 3]),
    ('binary', ['p', 'q'], [2, 2]),
    ('mixed', ['u', 'v', 'w'], [2, 3, 2]),
    ('with-size-1', ['x', 'y', 'z'], [3, 1, 3]),
]
for name, attrs, shape in cases:
    dom = Domain(attrs, shape)
    f = Factor(dom, prng.rand(*shape) + 0.1)
    for k in range(0, len(attrs) + 1):
        for sub in itertools.permutations(attrs, k):
            sdom = dom.project(list(sub))
            pos = np.asarray(prng.rand(*sdom.shape)) + 0.5
            # 1. strictly positive divisor (what the library's own callers produce on dense data)
            check_div(name + ' positive', f, Factor(sdom, pos))
            # 2. divisor with some exact zeros -- the masked branch
            nz = 1 if sdom.size() < 4 else 2
            check_div(name + ' zeros', f, Factor(sdom, with_zeros(pos, prng, nz)))
            # 3. divisor with a negative entry (treated like a zero by the rule)
            neg = pos.copy().reshape(-1)
            neg[prng.randint(neg.size)] = -1.0
            check_div(name + ' negative', f, Factor(sdom, neg))

# the library's own use: conditional P(Cj | S) = Z / Z.project(S) on a sparse marginal
Z = Factor(Domain(['a', 'b'], [3, 3]), np.array([[4., 0., 1.], [2., 0., 0.], [3., 0., 5.]]))
for S in (['a'], ['b'], ['b', 'a'], []):
    check_div('conditional', Z, Z.project(S))
cond = Z / Z.project(['b'])
digest.update(np.ascontiguousarray(cond.values).tobytes())
colsum = cond.sum(['a']).values
if not np.allclose(colsum, [1.0, 0.0, 1.0]):
    failures.append('P(a | b) = Z / Z.project([b]) does not normalise per value of b: sums %r, expected [1, 0, 1]' % (colsum,))

if failures:
    print('FAIL: %d of %d quotients are not the by-name guarded quotient' % (len(failures), checked))
    for line in failures[:12]:
        print('  ' + line)
    if len(failures) > 12:
        print('  ... and %d more' % (len(failures) - 12))
    sys.exit(1)
print('PASS %d quotients checked, digest %s' % (checked, digest.hexdigest()))
sys.exit(0)

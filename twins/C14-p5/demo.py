"""
Pair 1 demo -- property C14 (factor algebra is addressed by attribute NAME).

Site under test: Domain.axes (src/mbi/domain.py), the helper that Factor.expand /
Factor.transpose / Factor.sum / ... use to translate attribute names into axis numbers.

Every operation result is compared, assignment by assignment, against a reference that
looks values up BY NAME (dictionary attr -> index) and never relies on axis positions.
Particular attention is paid to HISTORIES: the same Domain object is asked to place
operands whose attributes come in different orders, one after the other (long lived
accumulators updated with +=, CliqueVector.combine, several operands expanded onto one
shared domain).

exit 0 + "PASS <digest>"  : every value agrees with the by-name reference
exit 1 + "FAIL ..."        : some operation returned values at the wrong assignments / raised
"""
import os, sys, hashlib, itertools, warnings

ROOT = os.path.dirname(os.path.dirname(os.path.dirname(os.path.abspath(__file__))))
sys.path.insert(0, os.path.join(ROOT, 'src'))
warnings.simplefilter('ignore')

import numpy as np
import mbi
from mbi import Domain, Factor, CliqueVector

if not os.path.abspath(mbi.__file__).startswith(os.path.join(ROOT, 'src')):
    print('ERROR: imported mbi from %s, expected it under %s' % (mbi.__file__, ROOT))
    sys.exit(2)

SIZES = {'a': 3, 'b': 3, 'c': 3, 'd': 1, 'e': 2, 'f': 3}
prng = np.random.RandomState(20240514)

failures = []
digest = hashlib.sha256()
nchecks = 0


def dom(attrs):
    """ a FRESH Domain object over the given ordered attributes """
    return Domain(list(attrs), [SIZES[a] for a in attrs])


def rand_factor(attrs, positive=False):
    d = dom(attrs)
    vals = prng.rand(*d.shape) + 0.25 if positive else prng.randn(*d.shape)
    return Factor(d, vals)


def table(f):
    """ name-addressed snapshot of a factor: { frozenset((attr,idx),...) : value } """
    out = {}
    attrs = f.domain.attrs
    vals = np.array(f.values)
    for idx in np.ndindex(*f.domain.shape):
        out[frozenset(zip(attrs, idx))] = float(vals[idx])
    return out


def lookup(tab, attrs, asg):
    return tab[frozenset((a, asg[a]) for a in attrs)]


def record(label, result):
    digest.update(label.encode())
    digest.update(repr(tuple(result.domain.attrs)).encode())
    digest.update(np.round(np.array(result.values, dtype=float), 9).tobytes())


def check(label, result, attrs_expected, fn):
    """ result must be a Factor over exactly attrs_expected (order irrelevant unless stated by
        the caller) whose value at every joint assignment equals fn(assignment) """
    global nchecks
    nchecks += 1
    try:
        if set(result.domain.attrs) != set(attrs_expected):
            failures.append('%s: result attributes %s, expected %s' % (label, result.domain.attrs, tuple(attrs_expected)))
            return
        if tuple(result.values.shape) != tuple(SIZES[a] for a in result.domain.attrs):
            failures.append('%s: result shape %s does not match its domain %s' % (label, result.values.shape, result.domain))
            return
        attrs = result.domain.attrs
        vals = np.array(result.values)
        worst = None
        for idx in np.ndindex(*result.domain.shape):
            asg = dict(zip(attrs, idx))
            want = fn(asg)
            got = float(vals[idx])
            if not (got == want or abs(got - want) <= 1e-9 * max(1.0, abs(want))):
                worst = (asg, got, want)
                break
        if worst is not None:
            failures.append('%s: at %s got %r, by-name reference %r' % ((label,) + worst))
            return
        record(label, result)
    except Exception as e:   # pragma: no cover
        failures.append('%s: check raised %s: %s' % (label, type(e).__name__, e))


def attempt(label, thunk):
    try:
        return thunk()
    except Exception as e:
        global nchecks
        nchecks += 1
        failures.append('%s: raised %s: %s' % (label, type(e).__name__, e))
        return None


BIN = {
    'add': (lambda f, g: f + g, lambda x, y: x + y),
    'sub': (lambda f, g: f - g, lambda x, y: x - y),
    'mul': (lambda f, g: f * g, lambda x, y: x * y),
    'logaddexp': (lambda f, g: f.logaddexp(g), lambda x, y: float(np.logaddexp(x, y))),
}

# ---------------------------------------------------------------------------------------
# S1. binary operations, every operand on its own fresh Domain object
# ---------------------------------------------------------------------------------------
pool = ['a', 'b', 'c', 'd', 'e', 'f']
pairs = [
    (('a', 'b'), ('b', 'c')), (('a', 'b'), ('b', 'a')), (('a', 'b', 'c'), ('c', 'a')),
    (('c', 'a'), ('a', 'b', 'c')), (('a', 'b', 'c'), ('c', 'a', 'b')), (('a',), ('a',)),
    (('d',), ('a', 'd')), (('a', 'd', 'b'), ('b', 'd')), (('e', 'a'), ('a', 'e')),
    (('a', 'f', 'b'), ('f', 'c', 'a')), (('b',), ('c',)), (('f', 'b', 'a'), ('a', 'b', 'f')),
]
for k in range(12):     # plus random ordered subsets
    n1, n2 = prng.randint(1, 4), prng.randint(1, 4)
    pairs.append((tuple(prng.permutation(pool)[:n1]), tuple(prng.permutation(pool)[:n2])))

for k, (A, B) in enumerate(pairs):
    f, g = rand_factor(A), rand_factor(B)
    tf, tg = table(f), table(g)
    union = list(A) + [x for x in B if x not in A]
    for name, (op, scalar) in sorted(BIN.items()):
        label = 'S1.%02d %s %s,%s' % (k, name, ''.join(A), ''.join(B))
        res = attempt(label, lambda: op(f, g))
        if res is not None:
            check(label, res, union, lambda asg: scalar(lookup(tf, A, asg), lookup(tg, B, asg)))
    # division and in-place forms need the right operand inside the left one
    if set(B) <= set(A):
        gp = rand_factor(B, positive=True)
        tgp = table(gp)
        label = 'S1.%02d div %s,%s' % (k, ''.join(A), ''.join(B))
        res = attempt(label, lambda: f / gp)
        if res is not None:
            check(label, res, A, lambda asg: lookup(tf, A, asg) / lookup(tgp, B, asg))
        for name, scalar in (('iadd', lambda x, y: x + y), ('imul', lambda x, y: x * y)):
            label = 'S1.%02d %s %s,%s' % (k, name, ''.join(A), ''.join(B))
            h = f.copy()
            def run():
                global h
                if name == 'iadd': h += g
                else: h *= g
                return h
            res = attempt(label, run)
            if res is not None:
                check(label, res, A, lambda asg: scalar(lookup(tf, A, asg), lookup(tg, B, asg)))

# ---------------------------------------------------------------------------------------
# S2. a long-lived accumulator: the SAME factor (hence the same Domain object) receives a
#     sequence of in-place updates whose operands list their attributes in different orders
# ---------------------------------------------------------------------------------------
sequences = [
    [('a', 'c'), ('c', 'a'), ('b', 'a'), ('a', 'b'), ('c', 'b', 'a'), ('a', 'b', 'c'), ('b',)],
    [('c', 'a'), ('a', 'c'), ('a', 'b'), ('b', 'a'), ('a', 'b', 'c'), ('c', 'b', 'a'), ('b',)],
    [('b', 'c'), ('f', 'a'), ('c', 'b'), ('a', 'f'), ('f', 'c', 'a'), ('a', 'c', 'f')],
]
for s, seq in enumerate(sequences):
    base = ('a', 'b', 'c') if s < 2 else ('a', 'b', 'c', 'f')
    ops = [rand_factor(A) for A in seq]
    for mode in ('iadd', 'imul'):
        acc = Factor.zeros(dom(base)) if mode == 'iadd' else Factor.ones(dom(base))
        ref = table(acc)
        for step, (A, g) in enumerate(zip(seq, ops)):
            tg = table(g)
            label = 'S2.%d %s step %d operand %s' % (s, mode, step, ''.join(A))
            def run():
                global acc
                if mode == 'iadd': acc += g
                else: acc *= g
                return acc
            res = attempt(label, run)
            new = {}
            for key, val in ref.items():
                asg = dict(key)
                y = lookup(tg, A, asg)
                new[key] = val + y if mode == 'iadd' else val * y
            ref = new
            if res is None:
                break
            snapshot = dict(ref)
            check(label, res, base, lambda asg: lookup(snapshot, base, asg))

# ---------------------------------------------------------------------------------------
# S3. several operands expanded onto one shared Domain object
# ---------------------------------------------------------------------------------------
shared = dom(('a', 'b', 'c', 'f'))
for k, A in enumerate([('a', 'b'), ('b', 'a'), ('f', 'a', 'c'), ('c', 'f', 'a'), ('a', 'c', 'f'), ('b',), ('f', 'c', 'b', 'a')]):
    g = rand_factor(A)
    tg = table(g)
    label = 'S3.%d expand %s onto shared abcf' % (k, ''.join(A))
    res = attempt(label, lambda: g.expand(shared))
    if res is not None:
        check(label, res, shared.attrs, lambda asg: lookup(tg, A, asg))

# ---------------------------------------------------------------------------------------
# S4. aggregation, projection (order requested!), transposition, conditioning - repeated on
#     one factor with the attribute lists given in different orders
# ---------------------------------------------------------------------------------------
F = rand_factor(('a', 'b', 'c', 'f', 'd'))
tF = table(F)
FA = F.domain.attrs


def agg_ref(keep, reducer):
    def fn(asg):
        rest = [a for a in FA if a not in keep]
        vals = []
        for idx in itertools.product(*[range(SIZES[a]) for a in rest]):
            full = dict(asg); full.update(zip(rest, idx))
            vals.append(lookup(tF, FA, full))
        return float(reducer(np.array(vals)))
    return fn

from scipy.special import logsumexp as _lse
for k, drop in enumerate([('a', 'c'), ('c', 'a'), ('f', 'b'), ('b', 'f'), ('d',), ('f', 'd', 'a'), ('a', 'f', 'd')]):
    keep = [a for a in FA if a not in drop]
    for name, op, reducer in (('sum', lambda: F.sum(list(drop)), np.sum),
                              ('logsumexp', lambda: F.logsumexp(list(drop)), _lse),
                              ('max', lambda: F.max(list(drop)), np.max)):
        label = 'S4.%d %s over %s' % (k, name, ''.join(drop))
        res = attempt(label, op)
        if res is not None:
            check(label, res, keep, agg_ref(keep, reducer))
for k, want in enumerate([('c', 'a'), ('a', 'c'), ('f', 'a', 'b'), ('b', 'f', 'a'), ('a', 'b', 'f'), ('d', 'c'), ('b',)]):
    for agg, reducer in (('sum', np.sum), ('logsumexp', _lse)):
        label = 'S4.%d project(%s) onto %s' % (k, agg, ''.join(want))
        res = attempt(label, lambda: F.project(list(want), agg=agg))
        if res is not None:
            if tuple(res.domain.attrs) != tuple(want):
                nchecks += 1
                failures.append('%s: axes returned in order %s, requested %s' % (label, res.domain.attrs, want))
            else:
                check(label, res, want, agg_ref(list(want), reducer))
for k, order in enumerate([('b', 'c', 'a', 'd', 'f'), ('f', 'd', 'c', 'b', 'a'), ('c', 'a', 'b', 'f', 'd'), ('b', 'c', 'a', 'd', 'f')]):
    label = 'S4.%d transpose %s' % (k, ''.join(order))
    res = attempt(label, lambda: F.transpose(list(order)))
    if res is not None:
        if tuple(res.domain.attrs) != tuple(order):
            nchecks += 1
            failures.append('%s: axes returned in order %s' % (label, res.domain.attrs))
        else:
            check(label, res, order, lambda asg: lookup(tF, FA, asg))
for k, ev in enumerate([{'a': 2}, {'c': 1, 'a': 0}, {'a': 0, 'c': 1}, {'d': 0, 'f': 2, 'b': 1}]):
    keep = [a for a in FA if a not in ev]
    label = 'S4.%d condition %s' % (k, sorted(ev.items()))
    res = attempt(label, lambda: F.condition(ev))
    if res is not None:
        def fn(asg, ev=ev):
            full = dict(asg); full.update(ev)
            return lookup(tF, FA, full)
        check(label, res, keep, fn)

# ---------------------------------------------------------------------------------------
# S5. CliqueVector: clique-wise arithmetic and combine() into a long-lived vector, the donors
#     naming their attributes in different orders
# ---------------------------------------------------------------------------------------
full = Domain(['a', 'b', 'c', 'f'], [SIZES[x] for x in 'abcf'])
cliques = [('a', 'b', 'c'), ('c', 'f')]
target = CliqueVector.zeros(full, cliques)
ref = {cl: table(target[cl]) for cl in cliques}
donors = [('a', 'c'), ('c', 'a'), ('b', 'a'), ('a', 'b'), ('f', 'c'), ('c', 'f'), ('c', 'b', 'a'), ('f',)]
for step, A in enumerate(donors):
    g = rand_factor(A)
    tg = table(g)
    label = 'S5 combine step %d donor %s' % (step, ''.join(A))
    ok = attempt(label, lambda: (target.combine(CliqueVector({A: g})), True)[1])
    home = [cl for cl in cliques if set(A) <= set(cl)][0]
    ref[home] = {key: val + lookup(tg, A, dict(key)) for key, val in ref[home].items()}
    if ok is None:
        break
    for cl in cliques:
        snap = dict(ref[cl])
        check(label + ' clique ' + ''.join(cl), target[cl], cl, lambda asg: lookup(snap, cl, asg))

u = CliqueVector({cl: rand_factor(cl) for cl in cliques})
v = CliqueVector({cl: rand_factor(cl) for cl in cliques})
tu = {cl: table(u[cl]) for cl in cliques}
tv = {cl: table(v[cl]) for cl in cliques}
for name, op, scalar in (('add', lambda: u + v, lambda x, y: x + y),
                         ('sub', lambda: u - v, lambda x, y: x - y),
                         ('scale', lambda: 2.5 * u, lambda x, y: 2.5 * x)):
    res = attempt('S5 ' + name, op)
    if res is not None:
        for cl in cliques:
            check('S5 %s clique %s' % (name, ''.join(cl)), res[cl], cl,
                  lambda asg: scalar(lookup(tu[cl], cl, asg), lookup(tv[cl], cl, asg)))
d = attempt('S5 dot', lambda: u.dot(v))
want = sum(tu[cl][key] * tv[cl][key] for cl in cliques for key in tu[cl])
nchecks += 1
if d is not None:
    if abs(d - want) > 1e-9 * max(1.0, abs(want)):
        failures.append('S5 dot: got %r, by-name reference %r' % (d, want))
    else:
        digest.update(('dot %.9f' % d).encode())

# ---------------------------------------------------------------------------------------
if failures:
    print('FAIL: %d of %d checks disagree with the by-name reference' % (len(failures), nchecks))
    for line in failures[:12]:
        print('   ' + line)
    if len(failures) > 12:
        print('   ... and %d more' % (len(failures) - 12))
    print('Explanation: an operand was placed on the wrong AXES of the target domain. The operand '
          'listed the same attributes as an earlier operand handled by the same Domain object, but in a '
          'different order; the axis lookup answered with the positions of the earlier ordering, so '
          'values ended up at joint assignments of other attribute values (or shapes no longer fit).')
    sys.exit(1)
print('PASS: %d checks agree with the by-name reference' % nchecks)
print('digest ' + digest.hexdigest())
sys.exit(0)

"""
Pair 2 demo -- property C14, clause "subtraction".

Site under test: Factor.__sub__ (src/mbi/factor.py).  The scalar operation the library
defines for  f - g  at a joint assignment x is

        f(x) - g(x)      if g(x) is finite
        f(x)             if g(x) == -inf      (structural zero in the subtrahend: nothing to remove)

applied BY ATTRIBUTE NAME on the merged domain, whatever the attribute orders of f and g.
This is what junction-tree belief propagation relies on when it divides an incoming message
out of a belief (log space) in models with structural zeros.

The demo checks, assignment by assignment against a name-addressed reference,
  S1  finite operands over permuted / overlapping / size-1 attribute lists
  S2  subtrahends containing -inf (Factor.active style), minuend finite
  S3  -inf in both operands (same cells and different cells), and -inf only in the minuend
  S4  scalar subtrahend
  S5  regression only: GraphicalModel.belief_propagation (the library's one user of Factor - Factor)
      on trees with structural zeros that wipe out whole separator slices, compared with the
      brute-force joint distribution.  (Belief propagation only ever sends the affected cells back
      to a clique that is -inf there already, so S5 is NOT expected to notice a wrong value at
      masked cells - which is exactly why an end-to-end test does not settle this clause.)

exit 0 + "PASS <digest>"  /  exit 1 + "FAIL ..."
"""
import os, sys, hashlib, itertools, warnings

ROOT = os.path.dirname(os.path.dirname(os.path.dirname(os.path.abspath(__file__))))
sys.path.insert(0, os.path.join(ROOT, 'src'))
warnings.simplefilter('ignore')

import numpy as np
np.seterr(all='ignore')
import mbi
from mbi import Domain, Factor, CliqueVector, GraphicalModel

if not os.path.abspath(mbi.__file__).startswith(os.path.join(ROOT, 'src')):
    print('ERROR: imported mbi from %s, expected it under %s' % (mbi.__file__, ROOT))
    sys.exit(2)

SIZES = {'a': 3, 'b': 3, 'c': 2, 'd': 1, 'e': 4}
prng = np.random.RandomState(777)
NEG = -np.inf

failures = []
digest = hashlib.sha256()
nchecks = 0


def dom(attrs):
    return Domain(list(attrs), [SIZES[a] for a in attrs])


def rand_factor(attrs, ninf=0):
    d = dom(attrs)
    vals = prng.randn(*d.shape)
    if ninf:
        flat = vals.reshape(-1)
        flat[prng.choice(flat.size, size=min(ninf, flat.size), replace=False)] = NEG
    return Factor(d, vals)


def table(f):
    out = {}
    vals = np.array(f.values)
    for idx in np.ndindex(*f.domain.shape):
        out[frozenset(zip(f.domain.attrs, idx))] = float(vals[idx])
    return out


def lookup(tab, attrs, asg):
    return tab[frozenset((a, asg[a]) for a in attrs)]


def scalar_sub(x, y):
    return x if y == NEG else x - y


def same(got, want):
    if np.isnan(got) or np.isnan(want):
        return np.isnan(got) and np.isnan(want)
    return got == want or abs(got - want) <= 1e-9 * max(1.0, abs(want))


def check(label, result, attrs_expected, fn):
    global nchecks
    nchecks += 1
    if set(result.domain.attrs) != set(attrs_expected):
        failures.append('%s: result attributes %s, expected %s' % (label, result.domain.attrs, tuple(attrs_expected)))
        return
    vals = np.array(result.values)
    if vals.shape != tuple(SIZES[a] for a in result.domain.attrs):
        failures.append('%s: result shape %s does not fit %s' % (label, vals.shape, result.domain))
        return
    for idx in np.ndindex(*vals.shape):
        asg = dict(zip(result.domain.attrs, idx))
        want, got = fn(asg), float(vals[idx])
        if not same(got, want):
            failures.append('%s: at %s got %r, reference %r' % (label, asg, got, want))
            return
    digest.update(label.encode())
    digest.update(repr(tuple(result.domain.attrs)).encode())
    digest.update(np.round(np.nan_to_num(vals, posinf=1e300, neginf=-1e300), 9).tobytes())


def attempt(label, thunk):
    global nchecks
    try:
        return thunk()
    except Exception as e:
        nchecks += 1
        failures.append('%s: raised %s: %s' % (label, type(e).__name__, e))
        return None


def run_sub(label, f, g):
    A, B = f.domain.attrs, g.domain.attrs
    tf, tg = table(f), table(g)
    union = list(A) + [x for x in B if x not in A]
    res = attempt(label, lambda: f - g)
    if res is not None:
        check(label, res, union, lambda asg: scalar_sub(lookup(tf, A, asg), lookup(tg, B, asg)))
    # the operands must not have been touched
    if table(f) != tf or table(g) != tg:
        failures.append(label + ': an operand was modified by a pure subtraction')


shapes = [
    (('a', 'b'), ('a', 'b')), (('a', 'b'), ('b', 'a')), (('a', 'b', 'c'), ('c', 'a')),
    (('c', 'a'), ('a', 'b', 'c')), (('a', 'b'), ('b', 'e')), (('e', 'b'), ('a', 'b')),
    (('a',), ('a',)), (('d',), ('d', 'a')), (('a', 'd', 'b'), ('b', 'd')), (('b',), ('c',)),
    (('c', 'e', 'a'), ('a', 'c', 'e')), (('e', 'a', 'b'), ('b',)),
]

# S1 ---------------------------------------------------------------------------------------
for k, (A, B) in enumerate(shapes):
    run_sub('S1.%02d finite %s-%s' % (k, ''.join(A), ''.join(B)), rand_factor(A), rand_factor(B))

# S2 ---------------------------------------------------------------------------------------
for k, (A, B) in enumerate(shapes):
    run_sub('S2.%02d -inf in subtrahend %s-%s' % (k, ''.join(A), ''.join(B)), rand_factor(A), rand_factor(B, ninf=2))
# Factor.active, the library's own way to encode structural zeros
act = Factor.active(dom(('a', 'b')), [(0, 1), (2, 2), (1, 0)])
run_sub('S2.active ab-ab', rand_factor(('a', 'b')), act)
run_sub('S2.active ba-ab', rand_factor(('b', 'a')), act)
run_sub('S2.active bca-ab', rand_factor(('b', 'c', 'a')), act)
run_sub('S2.active zeros-ab', Factor.zeros(dom(('a', 'b'))), act)

# S3 ---------------------------------------------------------------------------------------
for k, (A, B) in enumerate(shapes):
    run_sub('S3.%02d -inf in both %s-%s' % (k, ''.join(A), ''.join(B)), rand_factor(A, ninf=2), rand_factor(B, ninf=2))
    run_sub('S3.%02d -inf in minuend only %s-%s' % (k, ''.join(A), ''.join(B)), rand_factor(A, ninf=2), rand_factor(B))
g = rand_factor(('a', 'b'), ninf=3)
run_sub('S3.self ab-ab', g, g.copy())                 # identical -inf pattern
run_sub('S3.self ab-ba', g, g.transpose(['b', 'a']))

# S4 ---------------------------------------------------------------------------------------
f = rand_factor(('a', 'c', 'b'), ninf=1)
tf = table(f)
for s in (0, 2.5, -1, np.float64(0.125)):
    res = attempt('S4 scalar %r' % (s,), lambda: f - s)
    if res is not None:
        check('S4 scalar %r' % (float(s),), res, f.domain.attrs, lambda asg: lookup(tf, f.domain.attrs, asg) - s)

# S5 ---------------------------------------------------------------------------------------
def brute_force(model, potentials):
    attrs = model.domain.attrs
    shape = model.domain.shape
    logp = np.zeros(shape)
    for cl in potentials:
        p = potentials[cl]
        for idx in np.ndindex(*shape):
            asg = dict(zip(attrs, idx))
            logp[idx] += p.values[tuple(asg[a] for a in p.domain.attrs)]
    w = np.exp(logp - logp[np.isfinite(logp)].max())
    return attrs, model.total * w / w.sum()


def marginal_of(attrs, joint, cl):
    keep = [attrs.index(a) for a in cl]
    drop = tuple(i for i in range(len(attrs)) if i not in keep)
    m = joint.sum(axis=drop)                       # axes now in the order of `attrs` restricted to cl
    order = [a for a in attrs if a in cl]
    return {frozenset(zip(order, idx)): float(m[idx]) for idx in np.ndindex(*m.shape)}, order


full = Domain(['a', 'b', 'c', 'e'], [SIZES[x] for x in 'abce'])
scenarios = {
    # name : (cliques, { clique : list of impossible cells })
    'no zeros':            ([('a', 'b'), ('b', 'c'), ('c', 'e')], {}),
    'scattered zeros':     ([('a', 'b'), ('b', 'c'), ('c', 'e')], {('a', 'b'): [(0, 1), (2, 2)], ('c', 'e'): [(1, 3)]}),
    'b=0 impossible':      ([('a', 'b'), ('b', 'c'), ('c', 'e')], {('a', 'b'): [(0, 0), (1, 0), (2, 0)]}),
    'b=2 and c=1 impossible': ([('a', 'b'), ('b', 'c'), ('c', 'e')],
                            {('a', 'b'): [(0, 2), (1, 2), (2, 2)], ('c', 'e'): [(1, 0), (1, 1), (1, 2), (1, 3)]}),
    'star, a=1 impossible': ([('a', 'b'), ('a', 'c'), ('a', 'e')], {('a', 'c'): [(1, 0), (1, 1)]}),
}
for name in sorted(scenarios):
    cliques, zeros = scenarios[name]
    label = 'S5 belief propagation, ' + name
    def build():
        model = GraphicalModel(full, cliques, total=100.0)
        pots = {}
        for cl in model.cliques:
            pots[cl] = Factor(full.project(cl), prng.randn(*full.project(cl).shape))
        for zc, cells in zeros.items():
            home = [cl for cl in model.cliques if set(zc) <= set(cl)][0]
            pots[home] = pots[home] + Factor.active(full.project(zc), cells)
        pots = CliqueVector(pots)
        return model, pots, model.belief_propagation(pots)
    out = attempt(label, build)
    if out is None:
        continue
    model, pots, marg = out
    attrs, joint = brute_force(model, pots)
    for cl in model.cliques:
        tab, order = marginal_of(list(attrs), joint, cl)
        check('%s, marginal %s' % (label, ''.join(cl)), marg[cl], cl, lambda asg: lookup(tab, order, asg))

# ---------------------------------------------------------------------------------------
if failures:
    print('FAIL: %d of %d checks disagree with the name-addressed reference' % (len(failures), nchecks))
    for line in failures[:40]:
        print('   ' + line)
    if len(failures) > 40:
        print('   ... and %d more' % (len(failures) - 40))
    print('Explanation: where the subtrahend is -inf the difference must be the minuend value itself '
          '(f(x) - (-inf) := f(x)); the result carries a different value there, i.e. a structural zero in the '
          'subtrahend overwrites the corresponding cells of the minuend instead of leaving them alone.')
    sys.exit(1)
print('PASS: %d checks agree with the name-addressed reference' % nchecks)
print('digest ' + digest.hexdigest())
sys.exit(0)

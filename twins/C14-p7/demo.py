"""C14 / pair 1 -- Factor.logaddexp must be addressed by attribute NAME.

For every pair of factors (attributes in any order, overlapping arbitrarily)
f.logaddexp(g) has to assign to every joint assignment x of the merged domain
the value  logaddexp(f[x restricted to f's attrs], g[x restricted to g's attrs]).

The oracle below evaluates that definition assignment by assignment, looking
operand cells up by attribute name only.

exit 0 + "PASS <digest>"  on correct code, exit 1 + "FAIL ..." otherwise.
"""
import os, sys, hashlib, itertools, warnings
ROOT = os.path.dirname(os.path.dirname(os.path.dirname(os.path.abspath(__file__))))
sys.path.insert(0, os.path.join(ROOT, 'src'))
warnings.filterwarnings('ignore')
import numpy as np
from mbi import Domain, Factor
import mbi
assert os.path.abspath(mbi.__file__).startswith(ROOT), mbi.__file__


def cell(f, assignment):
    """value of factor f at a {attr: index} assignment (by name)"""
    return f.values[tuple(assignment[a] for a in f.domain.attrs)]


def oracle(f, g, result):
    exp = np.empty(result.domain.shape)
    for idx in itertools.product(*[range(n) for n in result.domain.shape]):
        x = dict(zip(result.domain.attrs, idx))
        exp[idx] = np.logaddexp(cell(f, x), cell(g, x))
    return exp


def factor(rng, attrs, sizes, neg_inf=0):
    dom = Domain(attrs, [sizes[a] for a in attrs])
    vals = rng.normal(size=dom.shape) * 3.0
    if neg_inf:
        flat = vals.reshape(-1)
        flat[rng.choice(flat.size, size=min(neg_inf, flat.size), replace=False)] = -np.inf
    return Factor(dom, vals)


rng = np.random.RandomState(20261004)
DISTINCT = dict(a=2, b=3, c=4, d=5)
BINARY = dict(p=2, q=2, r=2, s=2)
MIXED = dict(u=3, v=1, w=3, x=1)

# (label, sizes, attrs of f, attrs of g, number of -inf cells put into each operand)
CASES = [
    ('same attrs, same order',              DISTINCT, 'abc', 'abc', 0),
    ('same attrs, permuted',                DISTINCT, 'abc', 'cab', 0),
    ('g is a permuted sub-clique of f',     DISTINCT, 'abcd', 'db', 0),
    ('single attribute vs itself',          DISTINCT, 'c', 'c', 0),
    ('structural zeros (-inf), sub-clique', DISTINCT, 'bca', 'ab', 3),
    ('binary, g adds one attribute',        BINARY,   'pq', 'qr', 0),
    ('binary, disjoint attributes',         BINARY,   'p', 'sr', 0),
    ('binary, g adds two, permuted',        BINARY,   'qp', 'spr', 2),
    ('1-d operands of equal size',          MIXED,    'u', 'w', 0),
    ('size-1 attributes, g adds one',       MIXED,    'vu', 'xu', 0),
    ('f has trailing size-1 attr',          MIXED,    'wv', 'uw', 0),
    ('distinct sizes, g adds one',          DISTINCT, 'ab', 'bc', 0),
    ('distinct sizes, overlap, permuted',   DISTINCT, 'cb', 'dbc', 0),
]

digest = hashlib.sha256()
failures = []
for label, sizes, fa, ga, ninf in CASES:
    f = factor(rng, list(fa), sizes, ninf)
    g = factor(rng, list(ga), sizes, ninf)
    f0, g0 = f.values.copy(), g.values.copy()
    try:
        res = f.logaddexp(g)
    except Exception as e:
        failures.append('%-38s f%s g%s: raised %s: %s' % (label, f.domain.attrs, g.domain.attrs, type(e).__name__, e))
        continue
    if set(res.domain.attrs) != set(fa) | set(ga) or res.values.shape != res.domain.shape \
            or any(res.domain[a] != sizes[a] for a in res.domain):
        failures.append('%-38s wrong result domain %s' % (label, res.domain))
        continue
    exp = oracle(f, g, res)
    if not (np.array_equal(f.values, f0) and np.array_equal(g.values, g0)):
        failures.append('%-38s operands were modified' % label)
    bad = ~((res.values == exp) | np.isclose(res.values, exp, rtol=1e-12, atol=0))
    if bad.any():
        idx = tuple(int(i) for i in np.argwhere(bad)[0])
        x = dict(zip(res.domain.attrs, idx))
        failures.append('%-38s f%s g%s: %d/%d cells wrong, e.g. at %s got %r expected logaddexp(%r, %r) = %r'
                        % (label, f.domain.attrs, g.domain.attrs, int(bad.sum()), bad.size, x,
                           float(res.values[idx]), float(cell(f, x)), float(cell(g, x)), float(exp[idx])))
        continue
    canon = res.transpose(sorted(res.domain.attrs))   # digest independent of axis order
    digest.update(label.encode())
    digest.update(repr(canon.domain.attrs).encode())
    digest.update(np.ascontiguousarray(canon.values).tobytes())
    print('ok   %-38s -> %s  sum(finite)=%.12f' % (label, res.domain, float(canon.values[np.isfinite(canon.values)].sum())))

if failures:
    print('FAIL: Factor.logaddexp is not addressed by attribute name')
    for line in failures:
        print('  ' + line)
    sys.exit(1)
print('PASS', digest.hexdigest())

"""C14 / pair 2 -- Factor.copy(out=...) must agree with the pure Factor.copy().

A copy, whether freshly allocated (f.copy()) or written into a preallocated
factor (f.copy(out=g)), holds the values f had at the time of the call and is
an independent factor afterwards: later in-place arithmetic (+=, *=, exp(out=),
copy(out=)) on either side must leave the other side alone, exactly as it does
for the pure variant.  The in-place variant must also really overwrite the
storage of 'out' (callers preallocate one flat parameter vector and wrap slices
of it in Factors).

The demo replays several call sequences twice - once with pure copies, once
with copy(out=...) - and compares every intermediate factor, by attribute name,
against a plain-python model of the same sequence.

exit 0 + "PASS <digest>"  on correct code, exit 1 + "FAIL ..." otherwise.
"""
import os, sys, hashlib, itertools, warnings
ROOT = os.path.dirname(os.path.dirname(os.path.dirname(os.path.abspath(__file__))))
sys.path.insert(0, os.path.join(ROOT, 'src'))
warnings.filterwarnings('ignore')
import numpy as np
from mbi import Domain, Factor
import mbi
assert os.path.abspath(mbi.__file__).startswith(ROOT), mbi.__file__

SIZES = dict(a=2, b=3, c=2, d=1)
failures = []
digest = hashlib.sha256()


def table(f):
    """{sorted (attr, index) assignment: value} - a by-name snapshot that shares nothing with f"""
    out = {}
    for idx in itertools.product(*[range(n) for n in f.domain.shape]):
        key = tuple(sorted(zip(f.domain.attrs, idx)))
        out[key] = float(f.values[idx])
    return out


def check(label, f, expected):
    got = table(f)
    if got.keys() != expected.keys():
        failures.append('%s: wrong set of assignments' % label)
        return
    bad = [k for k in expected if not (got[k] == expected[k] or abs(got[k] - expected[k]) <= 1e-12 * abs(expected[k]))]
    if bad:
        k = bad[0]
        failures.append('%s: %d/%d cells wrong, e.g. at %s got %r expected %r'
                        % (label, len(bad), len(expected), dict(k), got[k], expected[k]))
        return
    digest.update(label.encode())
    for k in sorted(expected):
        digest.update(repr((k, round(got[k], 10))).encode())
    print('ok   %s' % label)


def rand(rng, attrs):
    dom = Domain(list(attrs), [SIZES[a] for a in attrs])
    return Factor(dom, rng.uniform(0.5, 2.0, size=dom.shape))


def scenario(name, attrs, variant, make_src=None):
    """ theta_old <- copy of theta ; theta += step ; theta *= scale ; ... (a warm-start style loop) """
    rng = np.random.RandomState(7)
    theta = rand(rng, attrs) if make_src is None else make_src(rng)
    step = rand(rng, theta.domain.attrs[-1:])            # a sub-clique operand, added by name
    scale = rand(rng, theta.domain.attrs[:1])
    model_theta = table(theta)
    spare = Factor.zeros(theta.domain)
    for it in range(3):
        # -- take the copy
        if variant == 'pure':
            old = theta.copy()
        else:
            ret = theta.copy(out=spare)
            if ret is not spare:
                failures.append('%s/%s it%d: copy(out=) did not return out' % (name, variant, it))
            old = spare
        model_old = dict(model_theta)
        check('%s/%s it%d copy equals source' % (name, variant, it), old, model_old)
        # -- in-place arithmetic on the source must not leak into the copy
        theta += step
        theta *= scale
        for k in model_theta:
            kk = dict(k)
            s = step.values[tuple(kk[a] for a in step.domain.attrs)]
            c = scale.values[tuple(kk[a] for a in scale.domain.attrs)]
            model_theta[k] = (model_theta[k] + float(s)) * float(c)
        check('%s/%s it%d source after += and *=' % (name, variant, it), theta, model_theta)
        check('%s/%s it%d copy after source changed' % (name, variant, it), old, model_old)
        # -- and in-place arithmetic on the copy must not leak into the source
        old += 10.0
        old.exp(out=old)
        model_old = {k: float(np.exp(v + 10.0)) for k, v in model_old.items()}
        check('%s/%s it%d copy after its own += and exp(out=)' % (name, variant, it), old, model_old)
        check('%s/%s it%d source after copy changed' % (name, variant, it), theta, model_theta)


for variant in ['pure', 'out']:
    scenario('3 attrs', 'abc', variant)
    scenario('1 attr', 'b', variant)
    scenario('size-1 attr', 'db', variant)
    scenario('transposed view as source', 'cab', variant,
             make_src=lambda rng: rand(rng, 'abc').transpose(['c', 'a', 'b']))

# -- copy(out=) must write into the storage of 'out': factors wrapped around one flat vector
rng = np.random.RandomState(11)
doms = [Domain(list(cl), [SIZES[a] for a in cl]) for cl in ['ab', 'bc', 'c']]
flat = np.zeros(sum(d.size() for d in doms))
views, start = [], 0
for d in doms:
    views.append(Factor(d, flat[start:start + d.size()]))
    start += d.size()
sources = [Factor(d, rng.uniform(1, 2, size=d.shape)) for d in doms]
for src, dst in zip(sources, views):
    src.copy(out=dst)
expected_flat = np.concatenate([s.values.reshape(-1) for s in sources])
if np.array_equal(flat, expected_flat):
    digest.update(np.round(flat, 10).tobytes())
    print('ok   flat parameter vector filled through copy(out=view)')
else:
    failures.append('flat vector: copy(out=view) did not write into the storage of out: %d/%d entries still stale'
                    % (int((flat != expected_flat).sum()), flat.size))
for src, dst in zip(sources, views):
    check('flat/%s copy equals source' % (dst.domain.attrs,), dst, table(src))

# -- chain of copies through one spare buffer: a <- b must not tie a and b together
rng = np.random.RandomState(13)
p, q = rand(rng, 'ab'), rand(rng, 'ab')
mp, mq = table(p), table(q)
buf = Factor.zeros(p.domain)
p.copy(out=buf)          # buf := p
q.copy(out=p)            # p   := q
buf.copy(out=q)          # q   := old p      (a swap through a spare factor)
check('swap/p holds old q', p, mq)
check('swap/q holds old p', q, mp)
q += 1.0
check('swap/p unaffected by q += 1', p, mq)
check('swap/buf unaffected by q += 1', buf, mp)

if failures:
    print('FAIL: Factor.copy(out=...) does not behave like the pure Factor.copy()')
    for line in failures:
        print('  ' + line)
    sys.exit(1)
print('PASS', digest.hexdigest())

"""C14 pair 1 -- CliqueVector scalar / unary arithmetic must act on the factors the
vector holds *now*, clique by clique, whatever the history of the object.

A CliqueVector is a dict {clique: Factor}.  The library itself builds such vectors
incrementally (inference.py: `self.structural_zeros = CliqueVector({})` followed by
`self.structural_zeros[cl] = Factor.active(...)`), so item assignment, deletion and
update() after construction are part of the normal life of these objects.

For a number of histories this program checks that
    const*v, v*const, v.exp(), v.log(), v - w, v + const
have exactly the keys currently in the vector (same order) and that every entry equals
the Factor-level operation applied to the entry currently stored under that key.

exit 0 + "PASS <digest>"  : every history behaves clique by clique
exit 1 + "FAIL ..."       : some history gives a result computed from stale contents
"""
import os, sys, hashlib, warnings

ROOT = os.path.dirname(os.path.dirname(os.path.dirname(os.path.abspath(__file__))))
sys.path.insert(0, os.path.join(ROOT, 'src'))
warnings.simplefilter('ignore')

import numpy as np
from mbi import Domain, Factor, CliqueVector

assert os.path.abspath(sys.modules['mbi'].__file__).startswith(ROOT), sys.modules['mbi'].__file__

DOMAIN = Domain(['a', 'b', 'c', 'd'], [2, 3, 1, 3])
prng = np.random.RandomState(20261004)


def fac(attrs, positive=True):
    dom = DOMAIN.project(attrs)
    vals = prng.rand(*dom.shape) + 0.25 if positive else prng.randn(*dom.shape)
    return Factor(dom, vals)


def contents(v):
    """ the (clique, factor) pairs the dict really holds, in dict order """
    return [(cl, dict.__getitem__(v, cl)) for cl in dict.keys(v)]


# ---------------------------------------------------------------- histories
def h_fresh():
    return CliqueVector({('a', 'b'): fac(('a', 'b')), ('c', 'b'): fac(('c', 'b')), ('d',): fac(('d',))})

def h_incremental():
    # exactly what FactoredInference.__init__ does for structural zeros
    v = CliqueVector({})
    v[('b', 'a')] = fac(('b', 'a'))
    v[('d', 'b')] = fac(('d', 'b'))
    return v

def h_replace():
    v = h_fresh()
    v[('c', 'b')] = fac(('c', 'b'))         # new factor under an existing key
    return v

def h_add_key():
    v = h_fresh()
    v[('a', 'd')] = fac(('a', 'd'))
    return v

def h_delete():
    v = h_fresh()
    del v[('a', 'b')]
    return v

def h_update():
    v = h_fresh()
    v.update({('d',): fac(('d',)), ('b', 'd', 'a'): fac(('b', 'd', 'a'))})
    return v

def h_pop_then_set():
    v = h_fresh()
    v.pop(('d',))
    v[('d', 'c')] = fac(('d', 'c'))
    return v

def h_source_mutated():
    # the caller keeps using (and changing) the dictionary it built the vector from
    src = {('a', 'b'): fac(('a', 'b')), ('d',): fac(('d',))}
    v = CliqueVector(src)
    src[('c',)] = fac(('c',))
    src[('d',)] = fac(('d',))
    return v

def h_from_vector():
    w = h_fresh()
    v = CliqueVector(w)
    w[('a', 'b')] = fac(('a', 'b'))          # later change of the vector it was copied from
    return v

def h_zeros_then_fill():
    v = CliqueVector.zeros(DOMAIN, [('a', 'c'), ('b',)])
    v[('b',)] = fac(('b',))
    return v

HISTORIES = [h_fresh, h_incremental, h_replace, h_add_key, h_delete, h_update,
             h_pop_then_set, h_source_mutated, h_from_vector, h_zeros_then_fill]

# ---------------------------------------------------------------- operations
OPS = [
    ('2.5*v',    lambda v: 2.5 * v,      lambda f: 2.5 * f),
    ('v*-0.5',   lambda v: v * -0.5,     lambda f: f * -0.5),
    ('v.exp()',  lambda v: v.exp(),      lambda f: f.exp()),
    ('v.log()',  lambda v: v.log(),      lambda f: f.log()),
    ('v+1.5',    lambda v: v + 1.5,      lambda f: f + 1.5),
    ('v-0.25',   lambda v: v - 0.25,     lambda f: f + -0.25),
]

failures = []
digest = hashlib.sha256()
lines = []


def record(tag, result):
    digest.update(tag.encode())
    for cl, f in contents(result):
        digest.update(repr((cl, f.domain.attrs, f.domain.shape)).encode())
        digest.update(np.ascontiguousarray(f.values, dtype=float).tobytes())


def compare(tag, result, expected):
    """ expected: list of (clique, Factor) """
    got = contents(result)
    if [cl for cl, _ in got] != [cl for cl, _ in expected]:
        failures.append('%s: result has cliques %s but the vector holds %s'
                        % (tag, [cl for cl, _ in got], [cl for cl, _ in expected]))
        return
    for (cl, g), (_, e) in zip(got, expected):
        if g.domain.attrs != e.domain.attrs or g.domain.shape != e.domain.shape:
            failures.append('%s: clique %s has domain %s, expected %s' % (tag, cl, g.domain, e.domain))
        elif not np.array_equal(g.values, e.values):
            failures.append('%s: clique %s was not computed from the factor currently stored '
                            '(max abs deviation %.3g)' % (tag, cl, np.abs(g.values - e.values).max()))


for hist in HISTORIES:
    for name, vec_op, fac_op in OPS:
        v = hist()
        tag = '%s | %s' % (hist.__name__, name)
        expected = [(cl, fac_op(f)) for cl, f in contents(v)]
        try:
            result = vec_op(v)
        except Exception as e:                       # noqa
            failures.append('%s: raised %s: %s' % (tag, type(e).__name__, e))
            continue
        compare(tag, result, expected)
        record(tag, result)

    # vector - vector : the subtrahend is negated with  -1*other  first; here the
    # subtrahend is a vector that was filled incrementally with the cliques of v
    v = hist()
    tag = '%s | v-w' % hist.__name__
    try:
        w = CliqueVector({})
        for cl, f in contents(v):
            w[cl] = Factor(f.domain, prng.randn(*f.domain.shape))
        expected = [(cl, f + (-1 * dict.__getitem__(w, cl))) for cl, f in contents(v)]
        result = v - w
        compare(tag, result, expected)
        record(tag, result)
    except Exception as e:                           # noqa
        failures.append('%s: raised %s: %s' % (tag, type(e).__name__, e))

    # repeated use of the same object: operate, change, operate again
    v = hist()
    tag = '%s | reuse' % hist.__name__
    try:
        first = 3.0 * v
        cl0 = list(dict.keys(v))[0]
        v[cl0] = fac(cl0)
        expected = [(cl, 3.0 * f) for cl, f in contents(v)]
        second = 3.0 * v
        compare(tag, second, expected)
        record(tag, second)
        lines.append('%-18s cliques=%d size=%d' % (hist.__name__, len(second), second.size()))
    except Exception as e:                           # noqa
        failures.append('%s: raised %s: %s' % (tag, type(e).__name__, e))

if failures:
    print('FAIL: CliqueVector arithmetic is not computed clique by clique from the current contents')
    for msg in failures[:25]:
        print('  -', msg)
    print('  (%d failing checks in total)' % len(failures))
    sys.exit(1)

for l in lines:
    print(l)
print('PASS', digest.hexdigest())
sys.exit(0)

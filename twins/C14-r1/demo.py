"""Equivalence demo for refactor1 (Factor binary ops routed through one helper).

Prints a deterministic digest of +, *, logaddexp, -, /, +=, *= and the
reflected/scalar forms on factors whose attributes are permuted, overlap
partially, are disjoint, have size 1, and contain -inf / 0 entries.
"""
import os, sys, itertools, warnings
ROOT = os.path.abspath(os.path.join(os.path.dirname(os.path.abspath(__file__)), '..', '..'))
sys.path.insert(0, os.path.join(ROOT, 'src'))
import numpy as np
from mbi import Domain, Factor
import mbi
assert os.path.abspath(mbi.__file__).startswith(ROOT), mbi.__file__
warnings.simplefilter('ignore')
np.seterr(all='ignore')

SIZES = {'a': 2, 'b': 3, 'c': 4, 'd': 1, 'e': 2}

def dom(attrs):
    return Domain(attrs, [SIZES[x] for x in attrs])

def mk(attrs, rng, kind):
    d = dom(attrs)
    v = rng.uniform(-2, 2, size=d.shape)
    if kind == 'pos':
        v = np.abs(v) + 0.25
    elif kind == 'neginf':
        v = v.copy(); v.flat[::3] = -np.inf
    elif kind == 'zeros':
        v = np.abs(v); v.flat[1::2] = 0.0
    elif kind == 'flat':
        return Factor(d, v.flatten())
    return Factor(d, v)

def digest(tag, f):
    if isinstance(f, Factor):
        v = np.asarray(f.values)
        print(tag, f.domain.attrs, f.domain.shape, v.dtype, v.shape, v.flags.writeable,
              np.array2string(np.round(v.flatten(), 9), separator=',', max_line_width=10**9, threshold=10**9))
    else:
        print(tag, type(f).__name__, repr(np.round(f, 9)))

rng = np.random.RandomState(14)
PAIRS = [
    (('a', 'b'), ('b', 'a')),
    (('a', 'b', 'c'), ('c', 'a')),
    (('c', 'a'), ('a', 'b', 'c')),
    (('b',), ('c', 'b')),
    (('a',), ('a',)),
    (('a', 'b'), ('c', 'e')),
    (('d', 'a'), ('b', 'd')),
    (('d',), ('d',)),
    (('e', 'c', 'a', 'b'), ('b', 'e')),
    (('c', 'b', 'a'), ('a', 'c', 'b')),
]
KINDS = ['plain', 'pos', 'neginf', 'zeros', 'flat']

for (A, B), (k1, k2) in itertools.product(PAIRS, [('plain', 'plain'), ('pos', 'zeros'), ('neginf', 'neginf'), ('flat', 'pos'), ('plain', 'neginf')]):
    f = mk(A, rng, k1); g = mk(B, rng, k2)
    tag = '%s|%s|%s|%s' % (''.join(A), ''.join(B), k1, k2)
    digest(tag + ' add', f + g)
    digest(tag + ' mul', f * g)
    digest(tag + ' lae', f.logaddexp(g))
    digest(tag + ' sub', f - g)
    digest(tag + ' radd', g.__radd__(f))
    digest(tag + ' rmul', g.__rmul__(f))
    if set(B) <= set(A):
        digest(tag + ' div', f / g)
        h = f.copy(); h2 = h; h += g; assert h is h2
        digest(tag + ' iadd', h)
        h = f.copy(); h *= g
        digest(tag + ' imul', h)
        # in-place forms agree with pure ones
        print(tag, 'iadd==add', np.array_equal((f + g).values, (lambda x: x.__iadd__(g))(f.copy()).values, equal_nan=True))
    # operands untouched
    digest(tag + ' lhs', f); digest(tag + ' rhs', g)

# scalar forms
f = mk(('c', 'a'), rng, 'neginf')
for s in [2, 2.5, -1.0, 0, np.float64(3.0), np.int64(2)]:
    digest('scalar %r add' % (s,), f + s)
    digest('scalar %r radd' % (s,), s + f)
    digest('scalar %r mul' % (s,), f * s)
    digest('scalar %r rmul' % (s,), s * f)
    digest('scalar %r sub' % (s,), f - s)
    if s != 0:
        digest('scalar %r div' % (s,), f / s)

# sum over python's builtin sum (uses 0 + factor -> __radd__)
fs = [mk(A, rng, 'plain') for A in [('a', 'b'), ('b', 'c'), ('c', 'a'), ('e',)]]
digest('builtin-sum', sum(fs))
digest('chained', (fs[0] * fs[1] + fs[2]).logaddexp(fs[3]))
# result of a binary op is an independent, writeable array
r = fs[0] + fs[1]; r.values[...] = 0
digest('after-write lhs', fs[0]); digest('after-write rhs', fs[1])

# error behaviour for mismatched sizes is unchanged
bad = Factor(Domain(['a'], [5]), np.arange(5.0))
for name, fn in [('add', lambda: fs[0] + bad), ('mul', lambda: fs[0] * bad), ('lae', lambda: fs[0].logaddexp(bad))]:
    try:
        fn(); print('bad', name, 'no error')
    except Exception as e:
        print('bad', name, type(e).__name__)

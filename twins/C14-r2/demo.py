"""Equivalence demo for refactor2 (respelled aggregations / expand / condition in Factor).

Prints a deterministic digest of sum, logsumexp, max, project (both aggs, every
requested order), condition, expand and transpose on factors with permuted
attribute orders, size-1 attributes, -inf and 0 entries, 1-d flattened input.
"""
import os, sys, itertools, warnings
ROOT = os.path.abspath(os.path.join(os.path.dirname(os.path.abspath(__file__)), '..', '..'))
sys.path.insert(0, os.path.join(ROOT, 'src'))
import numpy as np
from mbi import Domain, Factor
import mbi
assert os.path.abspath(mbi.__file__).startswith(ROOT), mbi.__file__
warnings.simplefilter('ignore')
np.seterr(all='ignore')

SIZES = {'a': 2, 'b': 3, 'c': 4, 'd': 1, 'e': 2}

def dom(attrs):
    return Domain(attrs, [SIZES[x] for x in attrs])

def mk(attrs, rng, kind):
    d = dom(attrs)
    v = rng.uniform(-2, 2, size=d.shape)
    if kind == 'neginf':
        v = v.copy(); v.flat[::3] = -np.inf
    elif kind == 'zeros':
        v = np.abs(v); v.flat[1::2] = 0.0
    elif kind == 'flat':
        return Factor(d, v.flatten())
    elif kind == 'int':
        return Factor(d, rng.randint(0, 9, size=d.shape))
    return Factor(d, v)

def digest(tag, f):
    if isinstance(f, Factor):
        v = np.asarray(f.values)
        print(tag, f.domain.attrs, f.domain.shape, v.dtype, v.shape, v.flags.writeable,
              np.array2string(np.round(v.flatten(), 9), separator=',', max_line_width=10**9, threshold=10**9))
    else:
        print(tag, type(f).__name__, repr(np.round(f, 9)))

def subsets(attrs):
    for r in range(len(attrs) + 1):
        for c in itertools.combinations(attrs, r):
            yield c

rng = np.random.RandomState(1414)
ORDERS = [('a',), ('d',), ('b', 'a'), ('d', 'c'), ('c', 'a', 'b'), ('b', 'd', 'a'), ('e', 'c', 'a', 'b')]
for A in ORDERS:
    for kind in ['plain', 'neginf', 'zeros', 'flat', 'int']:
        f = mk(A, rng, kind)
        tag = '%s|%s' % (''.join(A), kind)
        digest(tag + ' self', f)
        digest(tag + ' sum()', f.sum())
        digest(tag + ' lse()', f.logsumexp())
        digest(tag + ' max()', f.max())
        for S in subsets(A):
            # aggregate S away, giving the attribute names in several orders / container types
            for variant, attrs in [('tuple', S), ('rev-list', list(reversed(S))), ('set', set(S))]:
                if variant == 'set' and len(S) > 1:
                    # set order is hash dependent for multi-char strings only; single chars are stable,
                    # but keep to sorted tuple + frozenset membership only for safety
                    attrs = frozenset(S)
                t = tag + ' ' + variant + ' ' + ''.join(S)
                digest(t + ' sum', f.sum(attrs))
                digest(t + ' lse', f.logsumexp(attrs))
                digest(t + ' max', f.max(attrs))
            # project onto S in every order
            for P in itertools.permutations(S):
                digest(tag + ' proj ' + ''.join(P), f.project(P))
                digest(tag + ' projL ' + ''.join(P), f.project(list(P), agg='logsumexp'))
            # condition on S
            ev = {a: (SIZES[a] - 1) // (1 + (i % 2)) for i, a in enumerate(S)}
            digest(tag + ' cond ' + repr(sorted(ev.items())), f.condition(ev))
            ev_extra = dict(ev); ev_extra['zz'] = 0   # evidence on an attribute outside the factor
            digest(tag + ' condX ' + repr(sorted(ev.items())), f.condition(ev_extra))
            ev_np = {a: np.int64(v) for a, v in reversed(list(ev.items()))}
            digest(tag + ' condNP', f.condition(ev_np))
        # transposes
        for P in itertools.permutations(A):
            digest(tag + ' T ' + ''.join(P), f.transpose(P))
        digest(tag + ' after', f)

# expand onto larger domains with every placement of the old attributes
for A, B in [(('a',), ('b', 'a')), (('b', 'a'), ('a', 'c', 'b')), (('c', 'a'), ('e', 'a', 'd', 'c', 'b')),
             (('d',), ('a', 'd')), (('a', 'b'), ('a', 'b')), (('b', 'a'), ('a', 'b')), ((), ('a', 'b'))]:
    for kind in ['plain', 'neginf']:
        f = mk(A, rng, kind)
        for P in itertools.permutations(B):
            g = f.expand(dom(P))
            digest('expand %s->%s %s' % (''.join(A), ''.join(P), kind), g)
            v = g.values
            print('   base-shares-memory', np.shares_memory(v, f.values), v.strides)

# string attribute name given to project (Domain.project wraps a bare str)
f = mk(('b', 'a'), rng, 'plain')
digest('proj-str', f.project('a'))
digest('proj-tuple1', f.project(('a',)))

# error behaviour preserved
for name, fn in [('expand-not-contained', lambda: f.expand(dom(('a', 'c')))),
                 ('transpose-wrong', lambda: f.transpose(('a',))),
                 ('project-agg', lambda: f.project(('a',), agg='max')),
                 ('sum-unknown', lambda: f.sum(('zz',))),
                 ('cond-oob', lambda: f.condition({'a': 7}))]:
    try:
        fn(); print('err', name, 'no error')
    except Exception as e:
        print('err', name, type(e).__name__)

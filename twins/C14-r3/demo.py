"""Equivalence demo for refactor3 (CliqueVector.combine/__add__/dot/size respelled,
Domain.merge with the marginalize helper inlined).

Prints a deterministic digest of CliqueVector arithmetic, combine (exact, sub-clique,
permuted sub-clique, several candidate super-cliques, unmatched cliques), dot, size,
and of Domain.merge / Factor binary ops that go through it.
"""
import os, sys, itertools, warnings
ROOT = os.path.abspath(os.path.join(os.path.dirname(os.path.abspath(__file__)), '..', '..'))
sys.path.insert(0, os.path.join(ROOT, 'src'))
import numpy as np
from mbi import Domain, Factor, CliqueVector
import mbi
assert os.path.abspath(mbi.__file__).startswith(ROOT), mbi.__file__
warnings.simplefilter('ignore')
np.seterr(all='ignore')

SIZES = {'a': 2, 'b': 3, 'c': 4, 'd': 1, 'e': 2}
FULL = Domain(list(SIZES), list(SIZES.values()))

def dom(attrs):
    return Domain(attrs, [SIZES[x] for x in attrs])

def fac(attrs, rng, neginf=False):
    d = dom(attrs)
    v = rng.uniform(-2, 2, size=d.shape)
    if neginf:
        v.flat[::4] = -np.inf
    return Factor(d, v)

def dfac(tag, f):
    v = np.asarray(f.values)
    print(tag, f.domain.attrs, f.domain.shape, v.dtype, v.flags.writeable,
          np.array2string(np.round(v.flatten(), 9), separator=',', max_line_width=10**9, threshold=10**9))

def dcv(tag, cv):
    print(tag, type(cv).__name__, 'keys', list(cv.keys()))
    for cl in cv:
        dfac('   %s %r' % (tag, cl), cv[cl])

def cvec(cliques, rng, neginf=False):
    return CliqueVector({cl: fac(cl, rng, neginf) for cl in cliques})

rng = np.random.RandomState(314)

# ---- Domain.merge ---------------------------------------------------------
ORD = [(), ('a',), ('d',), ('b', 'a'), ('a', 'b'), ('c', 'e'), ('e', 'c', 'a'), ('b', 'd', 'a', 'c'), ('e', 'd', 'c', 'b', 'a')]
for A, B in itertools.product(ORD, ORD):
    m = dom(A).merge(dom(B))
    print('merge', A, B, '->', m.attrs, m.shape, sorted(m.config.items()), type(m.attrs).__name__, type(m.shape).__name__)
# attrs given as lists / dict views, shape with numpy ints
d1 = Domain.fromdict({'x': 2, 'y': np.int64(3)}); d2 = Domain(['z', 'y', 'x'], np.array([5, 3, 2]))
for p, q in [(d1, d2), (d2, d1), (d1, d1)]:
    m = p.merge(q); print('merge2', m.attrs, m.shape, [type(s).__name__ for s in m.shape], repr(m))
# operands unchanged
print('operands', d1, d2)

# ---- factor ops that rely on merge ----------------------------------------
for A, B in [(('b', 'a'), ('a', 'c')), (('c',), ('a', 'c', 'b')), (('a', 'd'), ('e',)), (('c', 'b', 'a'), ('a', 'b', 'c'))]:
    f = fac(A, rng, True); g = fac(B, rng)
    t = ''.join(A) + '|' + ''.join(B)
    dfac(t + ' add', f + g); dfac(t + ' mul', f * g); dfac(t + ' lae', f.logaddexp(g)); dfac(t + ' sub', g - f)

# ---- CliqueVector arithmetic ----------------------------------------------
CL = [('a', 'b'), ('c', 'b'), ('e',), ('d', 'a', 'c')]
u = cvec(CL, rng); v = cvec(list(reversed(CL)), rng, neginf=True)
# v stores some cliques with a different attribute order inside the factor
w = CliqueVector({cl: fac(tuple(reversed(cl)), rng) for cl in CL})
dcv('u', u); dcv('v', v); dcv('w', w)
dcv('u+v', u + v); dcv('v+u', v + u); dcv('u+w', u + w)
dcv('u-v', u - v); dcv('u-w', u - w)
for s in [0, 2, -1.5, np.float64(0.25), np.int64(3)]:
    dcv('u+%r' % (s,), u + s); dcv('%r*u' % (s,), s * u); dcv('u*%r' % (s,), u * s)
dcv('exp', u.exp()); dcv('log(exp)', u.exp().log()); dcv('v.exp', v.exp())
print('dot', repr(round(float(u.dot(w)), 9)), repr(round(float(w.dot(u)), 9)), repr(round(float(u.dot(u)), 9)), repr(float(u.dot(v))))
print('size', u.size(), v.size(), w.size(), CliqueVector({}).size(), repr(CliqueVector({}).dot(CliqueVector({}))))
# extra cliques in `other` are ignored by +, missing ones raise
big = cvec(CL + [('b', 'e')], rng)
dcv('u+big', u + big)
try:
    big + u; print('big+u no error')
except Exception as ex:
    print('big+u', type(ex).__name__, ex.args)
dcv('u after', u)

# ---- combine ---------------------------------------------------------------
def run_combine(tag, self_cl, other_cl, permute_other=False):
    a = cvec(self_cl, rng)
    if permute_other:
        b = CliqueVector({cl: fac(tuple(reversed(cl)), rng) for cl in other_cl})
    else:
        b = cvec(other_cl, rng, neginf=True)
    before = {cl: (id(a[cl]), id(a[cl].values)) for cl in a}
    dcv(tag + ' self.before', a); dcv(tag + ' other', b)
    r = a.combine(b)
    print(tag, 'returns', r, 'same objects', [before[cl] == (id(a[cl]), id(a[cl].values)) for cl in a])
    dcv(tag + ' self.after', a); dcv(tag + ' other.after', b)

run_combine('exact', [('a', 'b'), ('b', 'c')], [('a', 'b'), ('b', 'c')])
run_combine('exact-permkeys', [('a', 'b'), ('b', 'c')], [('b', 'a'), ('c', 'b')])
run_combine('sub', [('a', 'b', 'c'), ('c', 'e')], [('a',), ('c',), ('b', 'a'), ('e', 'c')])
run_combine('first-wins', [('a', 'b'), ('b', 'a', 'c'), ('a', 'e')], [('a',), ('b', 'a'), ('c', 'a'), ('a',)])
run_combine('order-matters', [('b', 'a', 'c'), ('a', 'b')], [('a', 'b'), ('b',), ('a', 'b', 'c')])
run_combine('unmatched', [('a', 'b')], [('c',), ('a', 'b', 'c'), ('b',)])
run_combine('permuted-factors', [('a', 'b', 'c'), ('d', 'e')], [('c', 'a'), ('e', 'd'), ('b',)], permute_other=True)
run_combine('empty-other', [('a', 'b')], [])
run_combine('empty-self', [], [('a',)])
run_combine('size1', [('d', 'a')], [('d',), ('a', 'd')])
# combine with itself and with a plain dict
a = cvec([('a', 'b'), ('a',)], rng); a.combine(a); dcv('self-combine', a)
a = cvec([('a', 'b'), ('c',)], rng); a.combine({('b',): fac(('b',), rng), ('c',): fac(('c',), rng)}); dcv('dict-combine', a)
# static constructors
dcv('zeros', CliqueVector.zeros(FULL, CL)); dcv('ones', CliqueVector.ones(FULL, CL)); dcv('uniform', CliqueVector.uniform(FULL, CL))
z = CliqueVector.zeros(FULL, CL); z.combine(u); z.combine(w); dcv('zeros.combine(u,w)', z)

"""Pair 1 demo -- Dataset.project must carry the record weights along.

Property C15 (clause "projection ... commutes with marginalising and
transposing that table and carries record weights along"):

    for every dataset D (records R, optional weights w) over a domain and every
    attribute list `cols` (any order, given as list / tuple / bare string)

        D.project(cols).datavector(flatten=False)
            == transpose( sum over the other axes of T ),   T = table(D)

    where T[v] = number of records equal to v (w is None) or the total weight
    of those records.  The reference table is built here with an explicit loop,
    independent of numpy.histogramdd / pandas column selection.

Exit status 0 + "PASS <digest>" when every case agrees, 1 + "FAIL ..." otherwise.
"""
import hashlib
import os
import sys
import warnings

ROOT = os.path.dirname(os.path.dirname(os.path.dirname(os.path.abspath(__file__))))
sys.path.insert(0, os.path.join(ROOT, 'src'))
warnings.filterwarnings('ignore')

import numpy as np
import pandas as pd
import mbi
from mbi import Dataset, Domain

assert os.path.abspath(mbi.__file__).startswith(os.path.join(ROOT, 'src')), \
    'mbi imported from %s, expected the worktree copy' % mbi.__file__


def reference_table(records, shape, weights):
    """ contingency table by brute force: one += per record """
    table = np.zeros(shape)
    for i, rec in enumerate(records):
        table[tuple(int(v) for v in rec)] += 1.0 if weights is None else weights[i]
    return table


def reference_projection(table, attrs, cols):
    """ marginalise the axes not in cols, then transpose into the order of cols """
    drop = tuple(i for i, a in enumerate(attrs) if a not in cols)
    marg = table.sum(axis=drop) if drop else table
    kept = [a for a in attrs if a in cols]
    return np.transpose(marg, [kept.index(c) for c in cols])


def weight_vectors(rng, n):
    """ the weight configurations the property quantifies over """
    out = [('none', None), ('ones', np.ones(n))]
    out.append(('uniform', rng.uniform(0.0, 3.0, size=n).round(3)))
    out.append(('integer', rng.integers(0, 5, size=n).astype(float)))
    out.append(('signed', rng.normal(size=n).round(3)))
    out.append(('zeros', np.zeros(n)))
    return out


def main():
    rng = np.random.default_rng(20240915)
    failures = []
    digest = hashlib.sha256()
    ncases = 0

    scenarios = [
        # name, attrs, shape, number of records
        ('abcd',          ['a', 'b', 'c', 'd'], [3, 4, 2, 5], 60),
        ('with size one', ['p', 'q', 'r'],      [1, 4, 3],    25),
        ('unsorted names', ['zip', 'age', 'sex'], [4, 3, 2],  40),
        ('single record', ['a', 'b'],           [2, 3],       1),
        ('empty',         ['a', 'b', 'c'],      [2, 3, 2],    0),
    ]

    for name, attrs, shape, n in scenarios:
        records = np.array([rng.integers(0, s, size=n) for s in shape]).T.reshape(n, len(shape))
        if n >= 10:
            # duplicates and boundary values
            records[1] = records[0]
            records[2] = records[0]
            records[3] = 0
            records[4] = np.array(shape) - 1
        frame = pd.DataFrame(records, columns=attrs)
        # extra columns that are not part of the domain, interleaved
        frame.insert(1, 'unused_1', np.arange(n) % 7)
        frame['unused_2'] = 99
        domain = Domain(attrs, shape)

        projections = [tuple(attrs), tuple(reversed(attrs)), (attrs[-1], attrs[0]),
                       (attrs[0],), [attrs[1], attrs[0]], attrs[-1], list(attrs[1:])]

        for wname, weights in weight_vectors(rng, n):
            data = Dataset(frame, domain, weights)
            table = reference_table(records, shape, weights)

            full = data.datavector(flatten=False)
            ok = full.shape == table.shape and np.allclose(full, table)
            ncases += 1
            digest.update(np.round(full, 6).tobytes())
            if not ok:
                failures.append('%s / weights=%s: datavector() differs from the contingency table'
                                % (name, wname))

            for cols in projections:
                as_list = [cols] if type(cols) is str else list(cols)
                want = reference_projection(table, attrs, as_list)

                proj = data.project(cols)
                got = proj.datavector(flatten=False)
                ncases += 1
                digest.update(repr((name, wname, cols, proj.domain.attrs, proj.domain.shape,
                                    proj.records)).encode())
                digest.update(np.round(got, 6).tobytes())
                if proj.domain.attrs != tuple(as_list) or got.shape != want.shape:
                    failures.append('%s / weights=%s / project(%r): wrong domain %s'
                                    % (name, wname, cols, proj.domain))
                elif not np.allclose(got, want):
                    failures.append('%s / weights=%s / project(%r): total %.3f, expected %.3f '
                                    '(max cell error %.3f)'
                                    % (name, wname, cols, got.sum(), want.sum(),
                                       np.abs(got - want).max()))

                # projecting twice == projecting once (weights survive a chain)
                if len(as_list) > 1:
                    sub = as_list[-1:]
                    got2 = proj.project(sub).datavector(flatten=False)
                    want2 = reference_projection(table, attrs, sub)
                    ncases += 1
                    digest.update(np.round(got2, 6).tobytes())
                    if got2.shape != want2.shape or not np.allclose(got2, want2):
                        failures.append('%s / weights=%s / project(%r).project(%r) differs'
                                        % (name, wname, cols, sub))

            # drop() is project() onto the complement
            got = data.drop([attrs[0]]).datavector(flatten=False)
            want = reference_projection(table, attrs, attrs[1:])
            ncases += 1
            digest.update(np.round(got, 6).tobytes())
            if got.shape != want.shape or not np.allclose(got, want):
                failures.append('%s / weights=%s / drop([%r]) differs' % (name, wname, attrs[0]))

    if failures:
        print('FAIL: %d of %d checks violate "projection carries record weights along / '
              'commutes with marginalising and transposing the table"' % (len(failures), ncases))
        for f in failures[:12]:
            print('  -', f)
        if len(failures) > 12:
            print('  - ... and %d more' % (len(failures) - 12))
        sys.exit(1)
    print('PASS %d checks, digest %s' % (ncases, digest.hexdigest()))
    sys.exit(0)


if __name__ == '__main__':
    main()

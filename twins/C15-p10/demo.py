"""C15 pair 2 -- Domain.canonical: the canonical order of an attribute
collection is the set of those attributes that belong to the domain, listed
once each in domain order.  It depends only on the SET of requested
attributes (duplicates collapse, unknown names are dropped, the order of the
request is irrelevant) and it composes with project / marginalize / invert /
merge and with Dataset.project(...).datavector().
"""
import os, sys, hashlib, itertools, warnings

ROOT = os.path.dirname(os.path.dirname(os.path.dirname(os.path.abspath(__file__))))
sys.path.insert(0, os.path.join(ROOT, 'src'))
warnings.simplefilter('ignore')

import numpy as np
import pandas as pd
import mbi
from mbi import Domain, Dataset

assert os.path.abspath(mbi.__file__).startswith(ROOT), mbi.__file__

failures = []
digest = hashlib.sha256()
lines = []


def reference(domain_attrs, request):
    request = list(request)
    return tuple(a for a in domain_attrs if any(a == r for r in request))


def check(label, dom, request):
    """ request is a zero-argument callable producing a fresh attribute collection """
    want = reference(dom.attrs, request())
    try:
        got = dom.canonical(request())
    except Exception as e:
        failures.append('%s: canonical(%r) raised %r' % (label, request(), e))
        return
    if type(got) is not tuple:
        failures.append('%s: canonical(%r) returned a %s' % (label, request(), type(got).__name__))
        return
    if got != want:
        failures.append('%s: canonical(%r) = %r, expected %r (each attribute once, domain order)'
                        % (label, request(), got, want))
        return
    # laws that tie canonical to the rest of the domain algebra
    again = dom.canonical(got)
    if again != got:
        failures.append('%s: canonical is not idempotent on %r: %r' % (label, got, again))
        return
    sub = dom.project(got)
    if sub.attrs != want or sub.shape != tuple(dom[a] for a in want):
        failures.append('%s: project(canonical(%r)) = %r' % (label, request(), sub))
        return
    comp = dom.marginalize(dom.invert(list(request())))
    if comp.attrs != sub.attrs or comp.shape != sub.shape:
        failures.append('%s: project(canonical(A)) != marginalize(invert(A)) for A=%r: %r vs %r'
                        % (label, request(), sub, comp))
        return
    if sub.size() != dom.size(got) or len(sub) != len(set(got)):
        failures.append('%s: size law broken for %r' % (label, request()))
        return
    digest.update(('%s|%r|%r|%r' % (label, sorted(map(str, request())), got, sub.shape)).encode())
    lines.append('%-26s %-34s -> %s' % (label, sorted(map(str, request())), ','.join(got) or '()'))


# domain whose order is deliberately not alphabetical, with a size-1 attribute
dom = Domain(['d', 'a', 'c', 'b', 'e'], [2, 3, 1, 4, 2])

# 1. plain subsets in every order
for k in range(0, 4):
    for req in itertools.permutations(['a', 'b', 'd', 'e'], k):
        check('permutation', dom, lambda req=req: list(req))

# 2. different container types
check('tuple', dom, lambda: ('b', 'd'))
check('set', dom, lambda: {'e', 'a', 'c'})
check('frozenset', dom, lambda: frozenset(['c', 'd']))
check('dict keys', dom, lambda: {'b': 0, 'a': 1}.keys())
check('Domain object', dom, lambda: Domain(['b', 'c'], [4, 1]))
check('numpy array', dom, lambda: list(np.array(['e', 'd'])))
check('whole domain reversed', dom, lambda: dom.attrs[::-1])

# 3. unknown attribute names are dropped
check('unknown', dom, lambda: ['zz', 'b', 'a'])
check('unknown only', dom, lambda: ['zz', 'yy'])
check('unknown + size-1', dom, lambda: ('c', 'q'))

# 4. repeated names (e.g. the concatenation of two overlapping cliques, as
#    GraphicalModel.calculate_many_marginals does with key[0]+key[1])
cliques = [('d', 'a'), ('a', 'c'), ('c', 'b'), ('b', 'e'), ('d', 'a', 'c'), ('a', 'c', 'b')]
for ci, cj in itertools.combinations(cliques, 2):
    check('clique union', dom, lambda ci=ci, cj=cj: ci + cj)
check('repeated', dom, lambda: ['b', 'b'])
check('repeated size-1', dom, lambda: ['c', 'e', 'c'])
check('repeated + unknown', dom, lambda: ['e', 'x', 'e', 'd', 'x'])

# 5. canonical(A+B) is the attribute tuple of the merged sub-domains, reordered
for ci, cj in itertools.combinations(cliques, 2):
    merged = dom.project(ci).merge(dom.project(cj))
    got = dom.canonical(ci + cj)
    want = tuple(a for a in dom.attrs if a in merged.attrs)
    if got != want or sorted(got) != sorted(merged.attrs):
        failures.append('merge law: canonical(%r + %r) = %r but the merged domain has attributes %r'
                        % (ci, cj, got, merged.attrs))
    else:
        digest.update(repr((ci, cj, got)).encode())

# 6. the joint table over the union of two cliques: projection of a dataset on
#    canonical(ci + cj) must be the marginal of the full contingency table
prng = np.random.RandomState(7)
N = 60
vals = np.array([prng.randint(0, n, size=N) for n in dom.shape]).T
weights = prng.randint(1, 4, size=N).astype(float)
data = Dataset(pd.DataFrame(vals, columns=dom.attrs), dom, weights)
full = data.datavector(flatten=False)
for ci, cj in itertools.combinations(cliques, 2):
    union = dom.canonical(ci + cj)
    keep_axes = [dom.attrs.index(a) for a in dom.attrs if a in set(ci) | set(cj)]
    drop_axes = tuple(i for i in range(len(dom)) if i not in keep_axes)
    want = full.sum(axis=drop_axes)
    try:
        got = data.project(union).datavector(flatten=False)
    except Exception as e:
        failures.append('dataset: project(canonical(%r + %r)) raised %r' % (ci, cj, e))
        continue
    if got.shape != want.shape or not np.array_equal(got, want):
        failures.append('dataset: table over canonical(%r + %r) = %r has shape %s, expected %s'
                        % (ci, cj, union, got.shape, want.shape))
        continue
    digest.update(repr((union, got.tolist())).encode())

if failures:
    print('FAIL: Domain.canonical does not return each requested domain attribute once, in domain order')
    for f in failures[:12]:
        print('  -', f)
    if len(failures) > 12:
        print('  ... and %d more' % (len(failures) - 12))
    sys.exit(1)

print('PASS')
for l in lines:
    print(l)
print('checked', len(lines), 'requests; digest', digest.hexdigest())

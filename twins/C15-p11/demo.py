""" C15 pair 1 -- Dataset.datavector re-expressed as a scatter-add.

Checks, cell by cell, that Dataset.datavector / Dataset.project(cols).datavector
equal the (weighted) contingency table computed by a plain python loop, on
record sets with and without duplicated records, with and without weights.
Exit 0 + PASS + digest when every cell agrees, exit 1 + FAIL otherwise.
"""
import os, sys, hashlib, itertools, warnings
warnings.filterwarnings('ignore')
ROOT = os.path.dirname(os.path.dirname(os.path.dirname(os.path.abspath(__file__))))
sys.path.insert(0, os.path.join(ROOT, 'src'))
import numpy as np
import pandas as pd
from mbi import Domain, Dataset

def reference(rows, weights, shape):
    """ contingency table by brute force: one pass over the records """
    table = np.zeros(shape)
    for i, r in enumerate(rows):
        table[tuple(int(v) for v in r)] += 1.0 if weights is None else weights[i]
    return table

def distinct_records(shape, prng):
    """ every cell of the domain at most once, shuffled (no duplicated record) """
    cells = np.array(list(itertools.product(*[range(n) for n in shape])))
    keep = prng.permutation(len(cells))[: max(1, len(cells) // 2)]
    return cells[keep]

failures, lines = [], []

def check(label, data, cols, rows, weights):
    """ compare data.project(cols).datavector(...) with the brute-force table """
    dom = data.domain
    proj = data.project(cols) if cols is not None else data
    cols = dom.attrs if cols is None else ([cols] if type(cols) is str else list(cols))
    ax = [dom.attrs.index(c) for c in cols]
    shape = tuple(dom.shape[i] for i in ax)
    expect = reference(rows[:, ax] if len(rows) else rows.reshape(0, len(ax)), weights, shape)
    got_nd = proj.datavector(flatten=False)
    got = proj.datavector()
    ok = (got_nd.shape == shape and got.shape == (int(np.prod(shape)),)
          and np.allclose(got_nd, expect, rtol=0, atol=1e-9)
          and np.array_equal(got, got_nd.flatten()))
    total = float(len(rows)) if weights is None else float(np.sum(weights))
    ok = ok and abs(got.sum() - total) < 1e-7
    if not ok:
        bad = int(np.sum(~np.isclose(got_nd, expect))) if got_nd.shape == shape else -1
        failures.append('%s cols=%s: %d cells differ from the contingency table; '
                        'sum of vector %.4f, total weight %.4f' % (label, cols, bad, got.sum(), total))
    lines.append('%s|%s|%s' % (label, ','.join(map(str, cols)),
                               ' '.join('%.9f' % v for v in got)))

prng = np.random.RandomState(20240815)
cases = []
for name, attrs, shape in [('abc', ['a', 'b', 'c'], (2, 3, 4)),
                           ('size1', ['u', 'one', 'v'], (3, 1, 2)),
                           ('single', ['x'], (5,)),
                           ('wide', ['p', 'q', 'r', 's'], (2, 2, 3, 2))]:
    dom = Domain(attrs, shape)
    recs = {
        'empty': np.zeros((0, len(shape)), dtype=int),
        'distinct': distinct_records(shape, prng),
        'random': np.array([prng.randint(0, n, 40) for n in shape]).T,
        'boundary': np.array([[0] * len(shape), [n - 1 for n in shape]] * 3),
    }
    for rname, rows in recs.items():
        N = len(rows)
        wts = {'none': None, 'int': prng.randint(0, 4, N).astype(float),
               'float': prng.rand(N) * 3, 'signed': prng.randn(N)}
        for wname, w in wts.items():
            cases.append(('%s/%s/%s' % (name, rname, wname), dom, rows, w))

for label, dom, rows, w in cases:
    df = pd.DataFrame(rows, columns=list(dom.attrs)).astype(int)
    df['unused'] = 7                                  # extra column outside the domain
    df = df[['unused'] + list(dom.attrs)[::-1]]      # and permuted columns
    data = Dataset(df, dom, w)
    check(label, data, None, rows, w)
    for k in range(1, len(dom) + 1):
        for cols in itertools.permutations(dom.attrs, k):
            if len(cols) <= 2 or cols == tuple(reversed(dom.attrs)):
                check(label, data, cols, rows, w)
    check(label, data, dom.attrs[-1], rows, w)        # single name as str

digest = hashlib.sha256('\n'.join(lines).encode()).hexdigest()
if failures:
    print('FAIL: Dataset.datavector is not the contingency table of the records')
    for f in failures[:12]:
        print('  -', f)
    print('  (%d of %d checks failed; every failing case contains duplicated records)'
          % (len(failures), len(lines)))
    sys.exit(1)
print('PASS: %d vectors equal the brute-force contingency table' % len(lines))
print('digest', digest)
sys.exit(0)

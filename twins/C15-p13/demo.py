#!/usr/bin/env python
""" C15 / pair 1 -- Dataset.project: "projection onto any attribute list in ANY ORDER
commutes with marginalising and transposing the contingency table, and carries the
record weights along".

For several domains (attribute sizes incl. 1), record sets (empty, duplicates, boundary
values, an extra unused column), weight vectors and EVERY ordered sub-tuple of the
attributes, the program compares

    data.project(cols).domain                     with   Domain(cols, sizes of cols)
    data.project(cols).datavector(flatten=False)  with   the brute-force table of the full data,
                                                         summed over the other axes and transposed
                                                         into the order of `cols`

Projections are requested as tuples, as lists, as single names, and chained
(project of a project).  Exit 0 + PASS + digest if everything agrees, else exit 1 + FAIL.
"""
import os, sys, hashlib, itertools, warnings
warnings.filterwarnings('ignore')
ROOT = os.path.dirname(os.path.dirname(os.path.dirname(os.path.abspath(__file__))))
sys.path.insert(0, os.path.join(ROOT, 'src'))
import numpy as np
import pandas as pd
from mbi import Domain, Dataset
import mbi
assert os.path.abspath(mbi.__file__).startswith(ROOT), mbi.__file__

def brute_table(records, weights, shape):
    """ contingency table by explicit counting """
    tab = np.zeros(shape)
    for i, r in enumerate(records):
        tab[tuple(int(v) for v in r)] += 1.0 if weights is None else weights[i]
    return tab

def expected(full, attrs, cols):
    """ marginalise `full` (axes in order `attrs`) onto cols, in the order of cols """
    keep = [attrs.index(c) for c in cols]
    drop = tuple(i for i in range(len(attrs)) if i not in keep)
    marg = full.sum(axis=drop) if drop else full
    left = [a for a in attrs if a in cols]          # axis order after summing
    return np.transpose(marg, [left.index(c) for c in cols])

def cases():
    prng = np.random.RandomState(150915)
    # name, attrs, shape, number of records
    specs = [('abc',      ('a','b','c'),          (2,3,4),   60),
             ('one-sized', ('p','q','r'),         (3,1,2),   25),
             ('unsorted', ('zip','age','sex','job'), (3,4,2,3), 80),
             ('single',   ('only',),              (5,),      17),
             ('empty',    ('u','v','w'),          (2,2,3),    0)]
    for name, attrs, shape, N in specs:
        recs = np.array([prng.randint(0, n, size=N) for n in shape]).T.reshape(N, len(shape))
        if N >= 6:
            recs[0] = 0                               # boundary values
            recs[1] = np.array(shape) - 1
            recs[2] = recs[3] = recs[4]               # duplicates
        for wname in ['none', 'float', 'sparse']:
            if wname == 'none':   w = None
            if wname == 'float':  w = np.round(prng.rand(N) * 3, 3)
            if wname == 'sparse': w = (prng.rand(N) < 0.4) * 2.0
            yield name + '/' + wname, attrs, shape, recs, w

def main():
    failures, digest, checks = [], hashlib.sha256(), 0
    for label, attrs, shape, recs, w in cases():
        dom = Domain(attrs, shape)
        df = pd.DataFrame(recs, columns=list(attrs))
        df['unused'] = 7                               # extra column, not in the domain
        df = df[['unused'] + list(attrs)]
        data = Dataset(df, dom, w)
        full = brute_table(recs, w, shape)
        got = data.datavector(flatten=False)
        if got.shape != full.shape or not np.array_equal(got, full):
            failures.append('%s: full datavector differs from the counted table' % label)
        digest.update(got.tobytes())

        for k in range(1, len(attrs) + 1):
            for cols in itertools.permutations(attrs, k):
                exp = expected(full, list(attrs), cols)
                want_dom = Domain(cols, tuple(shape[attrs.index(c)] for c in cols))
                requests = [('tuple', cols), ('list', list(cols))]
                if k == 1:
                    requests.append(('name', cols[0]))
                for how, req in requests:
                    proj = data.project(req)
                    checks += 1
                    tab = proj.datavector(flatten=False)
                    vec = proj.datavector()
                    digest.update(repr((label, how, cols, proj.domain.attrs, proj.domain.shape)).encode())
                    digest.update(tab.tobytes())
                    if not (proj.domain == want_dom):
                        failures.append('%s: project(%r).domain is %s, expected %s'
                                        % (label, req, proj.domain, want_dom))
                    elif tab.shape != exp.shape or not np.allclose(tab, exp, atol=1e-9):
                        failures.append('%s: project(%r) table is not the transposed marginal' % (label, req))
                    elif not np.allclose(vec, exp.flatten(), atol=1e-9):
                        failures.append('%s: project(%r) flat vector is not the transposed marginal' % (label, req))
                    if tuple(proj.df.columns) != tuple(cols):
                        failures.append('%s: project(%r).df columns are %s' % (label, req, tuple(proj.df.columns)))
                    if (w is None) != (proj.weights is None) or (w is not None and not np.array_equal(w, proj.weights)):
                        failures.append('%s: project(%r) lost the weights' % (label, req))

        # chained projections: project of a (re-ordered) projection
        if len(attrs) >= 3:
            for outer in itertools.permutations(attrs, 3):
                for inner in itertools.permutations(outer, 2):
                    proj = data.project(outer).project(inner)
                    checks += 1
                    exp = expected(full, list(attrs), inner)
                    tab = proj.datavector(flatten=False)
                    digest.update(repr((label, outer, inner, proj.domain.attrs)).encode())
                    digest.update(tab.tobytes())
                    if proj.domain.attrs != tuple(inner) or tab.shape != exp.shape or not np.allclose(tab, exp, atol=1e-9):
                        failures.append('%s: project(%r).project(%r) -> %s is not the transposed marginal'
                                        % (label, outer, inner, proj.domain))
            rest = data.drop([attrs[1]])
            exp = expected(full, list(attrs), [a for a in attrs if a != attrs[1]])
            checks += 1
            if not np.allclose(rest.datavector(flatten=False), exp, atol=1e-9):
                failures.append('%s: drop(%r) is not the marginal' % (label, attrs[1]))

    if failures:
        print('FAIL: %d violations in %d projection checks of "projection in any order commutes '
              'with marginalising + transposing the contingency table"' % (len(failures), checks))
        for f in failures[:12]:
            print('   ', f)
        if len(failures) > 12:
            print('    ... and %d more' % (len(failures) - 12))
        sys.exit(1)
    print('PASS: %d projection checks' % checks)
    print('digest', digest.hexdigest())
    sys.exit(0)

if __name__ == '__main__':
    main()

#!/usr/bin/env python
""" C15 / pair 2 -- Domain algebra, the SIZE / SORT clause:

    domain.size()        == product of all attribute sizes
    domain.size(attrs)   == product of the sizes of exactly the named attributes
                            (attrs: a tuple, a list, or ONE attribute name given as a str)
    domain.sort('size')  == the attributes ordered by their OWN size, ties in domain order
    domain.sort('name')  == the attributes ordered by name

The domains include single-letter names (as in the unit tests) and real-world style names
where one attribute name is contained in another one ('education' / 'education-num',
'sex' / 'sex-partner', 'age' / 'wage' / 'marriage').  Sizes include 1.
Exit 0 + PASS + digest if all laws hold, else exit 1 + FAIL.
"""
import os, sys, hashlib, itertools, warnings
warnings.filterwarnings('ignore')
ROOT = os.path.dirname(os.path.dirname(os.path.dirname(os.path.abspath(__file__))))
sys.path.insert(0, os.path.join(ROOT, 'src'))
import numpy as np
import pandas as pd
from mbi import Domain, Dataset
import mbi
assert os.path.abspath(mbi.__file__).startswith(ROOT), mbi.__file__

DOMAINS = [
    ('letters', ['a','b','c','d'], [10,20,30,40]),
    ('letters-unsorted', ['d','b','a','c'], [3,1,3,2]),
    ('adult', ['age','workclass','education','education-num','sex','income'], [8,9,16,5,2,2]),
    ('survey', ['sex-partner','sex','wage','age','marriage'], [2,3,6,4,5]),
    ('prefix', ['x','xy','xyz','y'], [7,2,3,5]),
    ('ones', ['u','v','w'], [1,1,1]),
    ('single', ['only'], [6]),
]

def prod(xs):
    ans = 1
    for x in xs:
        ans *= x
    return ans

def main():
    failures, digest, checks = [], hashlib.sha256(), 0
    for label, attrs, shape in DOMAINS:
        dom = Domain(attrs, shape)
        sizes = dict(zip(attrs, shape))

        def check(what, got, want):
            nonlocal checks
            checks += 1
            digest.update(repr((label, what, got)).encode())
            if got != want:
                failures.append('%s: %s is %r, expected %r' % (label, what, got, want))

        check('size()', dom.size(), prod(shape))
        check('size(None)', dom.size(None), prod(shape))
        check('size(())', dom.size(()), 1)
        for a in attrs:                                    # ONE attribute, by name
            check('size(%r)' % a, dom.size(a), sizes[a])
            check('size([%r])' % a, dom.size([a]), sizes[a])
            check('project(%r).size()' % a, dom.project(a).size(), sizes[a])
        for k in range(1, min(len(attrs), 3) + 1):          # ordered sub-tuples
            for cols in itertools.permutations(attrs, k):
                want = prod(sizes[c] for c in cols)
                check('size(%r)' % (cols,), dom.size(cols), want)
                check('size(%r)' % (list(cols),), dom.size(list(cols)), want)
        check('size(all attrs)', dom.size(dom.attrs), prod(shape))

        # size is multiplicative over a split of the attributes
        for k in range(len(attrs) + 1):
            left = attrs[:k]
            rest = dom.invert(left)
            check('size(%r)*size(rest)' % (left,), dom.size(left) * dom.size(rest), prod(shape))
            check('marginalize(%r).size()' % (left,), dom.marginalize(left).size(), prod(sizes[a] for a in rest))

        # sort: by own size (stable), by name
        by_size = dom.sort('size')
        want = sorted(range(len(attrs)), key=lambda i: (shape[i], i))
        check("sort('size').attrs", by_size.attrs, tuple(attrs[i] for i in want))
        check("sort('size').shape", by_size.shape, tuple(shape[i] for i in want))
        check("sort() default", dom.sort().attrs, tuple(attrs[i] for i in want))
        by_name = dom.sort('name')
        check("sort('name').attrs", by_name.attrs, tuple(sorted(attrs)))
        check("sort('name').shape", by_name.shape, tuple(sizes[a] for a in sorted(attrs)))
        check("sort('size').size()", by_size.size(), prod(shape))

        # the dataset view: the vector of a one-attribute projection has size(attr) cells
        prng = np.random.RandomState(7)
        df = pd.DataFrame({a: prng.randint(0, n, size=12) for a, n in sizes.items()})
        data = Dataset(df, dom)
        for a in attrs:
            check('size(%r) [cells of project(%r).datavector()]' % (a, a), dom.size(a), int(data.project(a).datavector().size))

    if failures:
        print('FAIL: %d violations in %d checks of the size / sort laws of Domain' % (len(failures), checks))
        for f in failures[:14]:
            print('   ', f)
        if len(failures) > 14:
            print('    ... and %d more' % (len(failures) - 14))
        sys.exit(1)
    print('PASS: %d size / sort checks' % checks)
    print('digest', digest.hexdigest())
    sys.exit(0)

if __name__ == '__main__':
    main()

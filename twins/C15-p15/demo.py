""" C15 pair 1 -- Domain.__eq__ (domain-algebra laws are stated with ==).

Law checked: two domains are equal  <=>  same attributes in the same ORDER with the same sizes
             <=>  every dataset vectorises to the same table under both.
In particular D.transpose(perm) == D only for the identity permutation, and
D1.merge(D2) == D2.merge(D1) only if the attribute orders agree.
"""
import os, sys, itertools, hashlib, warnings
ROOT = os.path.dirname(os.path.dirname(os.path.dirname(os.path.abspath(__file__))))
sys.path.insert(0, os.path.join(ROOT, 'src'))
warnings.simplefilter('ignore')
import numpy as np
import pandas as pd
from mbi import Domain, Dataset
import mbi
assert os.path.abspath(mbi.__file__).startswith(ROOT), mbi.__file__

failures = []
lines = []

def structurally_equal(d1, d2):
    return tuple(d1.attrs) == tuple(d2.attrs) and tuple(d1.shape) == tuple(d2.shape)

def check_pair(tag, d1, d2, df=None, weights=None):
    """ == must agree with structural equality, != must be its negation, and domains
    that compare equal must give identical data vectors """
    want = structurally_equal(d1, d2)
    got = (d1 == d2)
    ne = (d1 != d2)
    if got is not want:
        failures.append('%s: %r == %r returned %r, expected %r' % (tag, d1, d2, got, want))
    if ne is not (not want):
        failures.append('%s: %r != %r returned %r, expected %r' % (tag, d1, d2, ne, not want))
    if df is not None and got:
        v1 = Dataset(df, d1, weights).datavector()
        v2 = Dataset(df, d2, weights).datavector()
        if v1.shape != v2.shape or not np.array_equal(v1, v2):
            failures.append('%s: domains compare equal but vectorise the same records differently' % tag)
    lines.append('%s %s %s' % (tag, want, got))

rng = np.random.RandomState(15)

# 1. the cases the unit tests look at (same names, sizes re-assigned) plus plain equal / unequal ones
base = Domain(['a', 'b', 'c', 'd'], [10, 20, 30, 40])
check_pair('same', base, Domain(['a', 'b', 'c', 'd'], [10, 20, 30, 40]))
check_pair('names-permuted-sizes-not', base, Domain(['b', 'a', 'c', 'd'], [10, 20, 30, 40]))
check_pair('different-size', base, Domain(['a', 'b', 'c', 'd'], [10, 20, 30, 41]))
check_pair('subset', base, Domain(['a', 'b', 'c'], [10, 20, 30]))
check_pair('empty', Domain([], []), Domain([], []))
check_pair('size1', Domain(['x'], [1]), Domain(['x'], [1]))

# 2. transposition law: D.transpose(perm) == D iff perm is the identity
dom = Domain(['a', 'b', 'c'], [2, 1, 3])
N = 40
df = pd.DataFrame({'c': rng.randint(0, 3, N), 'a': rng.randint(0, 2, N),
                   'b': np.zeros(N, dtype=int), 'unused': rng.randint(0, 9, N)})
w = rng.rand(N)
for perm in itertools.permutations(dom.attrs):
    t = dom.transpose(perm)
    check_pair('transpose' + ''.join(perm), dom, t, df, w)
    check_pair('project' + ''.join(perm), dom.project(perm), t, df, None)

# 3. merge is only commutative up to attribute order
d1 = Domain(['a', 'b'], [2, 1])
d2 = Domain(['b', 'c'], [1, 3])
d3 = Domain(['c', 'a'], [3, 2])
for x, y in itertools.permutations([d1, d2, d3], 2):
    check_pair('merge', x.merge(y), y.merge(x), df, w)

# 4. sort / marginalize / invert round trips
big = Domain(['p', 'q', 'r', 's'], [4, 2, 4, 1])
check_pair('sort-size', big.sort('size'), big)
check_pair('sort-name', big.sort('name'), big)
check_pair('sort-name-of-sorted', big.sort('size').sort('name'), big)
check_pair('marg-vs-project', big.marginalize(['q']), big.project(['s', 'r', 'p']))
check_pair('marg-vs-project-ordered', big.marginalize(['q']), big.project(['p', 'r', 's']))
check_pair('invert', big.project(big.invert(['p', 's'])), big.project(['r', 'q']))

# 5. projected datasets: equal domains <=> same layout of the vector
data = Dataset(df, dom, w)
for r in (1, 2, 3):
    for cols in itertools.permutations(dom.attrs, r):
        p = data.project(cols)
        q = data.project(dom.canonical(cols))
        check_pair('dataproj' + ''.join(cols), p.domain, q.domain, df, w)

digest = hashlib.sha256('\n'.join(lines).encode()).hexdigest()
if failures:
    print('FAIL: Domain equality no longer distinguishes attribute order (%d violations)' % len(failures))
    for f in failures[:8]:
        print('  -', f)
    sys.exit(1)
print('PASS %d comparisons, digest %s' % (len(lines), digest))
sys.exit(0)

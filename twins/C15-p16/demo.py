""" C15 pair 2 -- Dataset.__init__ sanitises the weight vector.

Clause checked: the vector form of a weighted dataset holds, per cell, the TOTAL WEIGHT of the
records with that combination of values (any finite weights: fractional, zero, negative, huge,
integer typed), and projection carries the weights along unchanged.
"""
import os, sys, itertools, hashlib, warnings
ROOT = os.path.dirname(os.path.dirname(os.path.dirname(os.path.abspath(__file__))))
sys.path.insert(0, os.path.join(ROOT, 'src'))
warnings.simplefilter('ignore')
import numpy as np
import pandas as pd
from mbi import Domain, Dataset
import mbi
assert os.path.abspath(mbi.__file__).startswith(ROOT), mbi.__file__

failures = []
h = hashlib.sha256()

def reference(df, attrs, shape, weights):
    """ contingency table by explicit accumulation """
    ans = np.zeros(shape)
    cols = [df[a].values for a in attrs]
    for i in range(df.shape[0]):
        cell = tuple(int(c[i]) for c in cols)
        ans[cell] += 1.0 if weights is None else weights[i]
    return ans

def check(tag, df, dom, weights):
    data = Dataset(df, dom, None if weights is None else weights.copy())
    full = reference(df, dom.attrs, dom.shape, weights)
    got = data.datavector(flatten=False)
    if got.shape != full.shape or not np.allclose(got, full, rtol=1e-12, atol=1e-12):
        failures.append('%s: datavector differs from the weighted contingency table '
                        '(max abs err %.3g)' % (tag, np.abs(got - full).max()))
    h.update(np.round(got, 9).tobytes())
    total = data.records if weights is None else weights.sum()
    if not np.isclose(data.datavector().sum(), total, rtol=1e-9, atol=1e-9):
        failures.append('%s: cells sum to %.6g, total weight is %.6g'
                        % (tag, data.datavector().sum(), total))
    for r in range(1, len(dom) + 1):
        for cols in itertools.permutations(dom.attrs, r):
            proj = data.project(cols)
            want = reference(df, cols, tuple(dom[c] for c in cols), weights)
            vec = proj.datavector(flatten=False)
            if vec.shape != want.shape or not np.allclose(vec, want, rtol=1e-12, atol=1e-12):
                failures.append('%s: project(%s) differs (max abs err %.3g)'
                                % (tag, ','.join(cols), np.abs(vec - want).max()))
            # projecting twice must not touch the weights either
            again = proj.project(cols[::-1]).datavector(flatten=False)
            if not np.allclose(again, want.T, rtol=1e-12, atol=1e-12):
                failures.append('%s: project(%s).project(reversed) differs' % (tag, ','.join(cols)))
            h.update(np.round(vec, 9).tobytes())
    if weights is not None:
        kept = np.asarray(data.weights)
        if kept.dtype != weights.dtype or not np.array_equal(kept, weights):
            failures.append('%s: the stored weights are not the weights that were passed in' % tag)

rng = np.random.RandomState(1515)
dom = Domain(['a', 'b', 'c'], [3, 1, 4])
N = 60
df = pd.DataFrame({'c': rng.randint(0, 4, N), 'unused': rng.randint(0, 7, N),
                   'a': rng.randint(0, 3, N), 'b': np.zeros(N, dtype=int)})
df.iloc[0, df.columns.get_loc('c')] = 3     # boundary values present
df.iloc[1, df.columns.get_loc('a')] = 2
df = pd.concat([df, df.iloc[:5]], ignore_index=True)   # duplicates
N = df.shape[0]

cases = [
    ('unweighted', None),
    ('ones', np.ones(N)),
    ('fractional', rng.rand(N)),
    ('with-zeros', rng.rand(N) * (rng.rand(N) < 0.5)),
    ('integer', rng.randint(0, 5, N)),
    ('tiny', rng.rand(N) * 1e-300),
    ('huge', rng.rand(N) * 1e300),
    # difference of two datasets / importance weights of either sign
    ('signed', rng.randn(N)),
    ('plus-minus-one', np.where(rng.rand(N) < 0.5, 1.0, -1.0)),
    ('signed-integer', rng.randint(-3, 4, N)),
    ('all-negative', -rng.rand(N)),
]
for tag, w in cases:
    check(tag, df, dom, w)

# empty record set, with and without weights
empty = pd.DataFrame(np.zeros((0, 3), dtype=int), columns=['a', 'b', 'c'])
check('empty', empty, dom, None)
check('empty-weighted', empty, dom, np.zeros(0))

# a single record carrying a negative weight
one = pd.DataFrame({'a': [2], 'b': [0], 'c': [3]})
check('single-negative', one, dom, np.array([-2.5]))

if failures:
    print('FAIL: the vector form is no longer the total weight per cell (%d violations)' % len(failures))
    for f in failures[:8]:
        print('  -', f)
    sys.exit(1)
print('PASS %d weightings, digest %s' % (len(cases) + 3, h.hexdigest()))
sys.exit(0)

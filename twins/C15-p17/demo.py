""" C15 pair 1 -- Domain.contains must be attribute-SET inclusion (set law),
whatever sizes the two domains record for the shared attributes. """
import os, sys, hashlib, itertools, random, warnings
warnings.filterwarnings('ignore')
ROOT = os.path.dirname(os.path.dirname(os.path.dirname(os.path.abspath(__file__))))
sys.path.insert(0, os.path.join(ROOT, 'src'))
from mbi import Domain
import mbi
assert os.path.abspath(mbi.__file__).startswith(ROOT), mbi.__file__

random.seed(15)
names = ['a', 'b', 'c', 'd', 'e']
problems, log = [], []

def check(label, got, want):
    log.append('%s=%r' % (label, got))
    if got != want:
        problems.append('%s: got %r, expected %r' % (label, got, want))

def rand_domain(sizes):
    k = random.randint(0, len(names))
    attrs = random.sample(names, k)
    return Domain(attrs, [sizes(a) for a in attrs])

# 1. consistent sizes: every attribute has one global size (incl. size 1)
glob = {'a': 2, 'b': 1, 'c': 3, 'd': 4, 'e': 1}
for i in range(150):
    A, B = rand_domain(glob.get), rand_domain(glob.get)
    want = set(B.attrs) <= set(A.attrs)
    check('cons%d' % i, A.contains(B), want)
    M = A.merge(B)
    check('cons%d.mA' % i, M.contains(A), True)
    check('cons%d.mB' % i, M.contains(B), True)
    check('cons%d.proj' % i, A.contains(A.project(A.attrs[::2])), True)

# 2. the two domains disagree about the size of shared attributes
#    (e.g. a compressed / re-discretised domain next to the original one)
for i in range(150):
    A = rand_domain(lambda a: random.randint(1, 4))
    B = rand_domain(lambda a: random.randint(1, 4))
    want = set(B.attrs) <= set(A.attrs)
    check('free%d' % i, A.contains(B), want)
    M = A.merge(B)
    check('free%d.mA' % i, M.contains(A), True)
    check('free%d.mB' % i, M.contains(B), True)
    check('free%d.marg' % i, A.contains(B.marginalize(B.invert(A.attrs))), True)

# 3. fixed examples
full = Domain(['a', 'b', 'c'], [10, 20, 30])
small = Domain(['c', 'a'], [3, 10])         # 'c' compressed from 30 to 3 values
check('fixed.compressed', full.contains(small), True)
check('fixed.self', full.contains(full), True)
check('fixed.empty', full.contains(Domain([], [])), True)
check('fixed.reverse', small.contains(full), False)
check('fixed.extra', full.contains(Domain(['a', 'z'], [10, 2])), False)

digest = hashlib.sha256('\n'.join(log).encode()).hexdigest()
if problems:
    print('FAIL: Domain.contains is not attribute-set inclusion (%d violations)' % len(problems))
    for p in problems[:8]:
        print('   ', p)
    sys.exit(1)
print('PASS %d checks digest %s' % (len(log), digest))

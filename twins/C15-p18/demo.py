""" C15 pair 2 -- Dataset.drop(cols) is the projection onto the complement of cols:
its vector form is the full (weighted) contingency table summed over the dropped
axes, for every way the library's callers spell an attribute collection
(list, tuple = clique, set, dict keys, single name, names that are absent). """
import os, sys, hashlib, warnings
warnings.filterwarnings('ignore')
ROOT = os.path.dirname(os.path.dirname(os.path.dirname(os.path.abspath(__file__))))
sys.path.insert(0, os.path.join(ROOT, 'src'))
import numpy as np, pandas as pd
from mbi import Domain, Dataset
import mbi
assert os.path.abspath(mbi.__file__).startswith(ROOT), mbi.__file__

problems, log = [], []

def table(df, dom, w):
    """ independent reference: weighted contingency table in domain order """
    T = np.zeros(dom.shape)
    idx = tuple(df[a].to_numpy().astype(int) for a in dom.attrs)
    np.add.at(T, idx, 1.0 if w is None else w)
    return T

def run(label, data, cols):
    dom = data.domain
    kept = [a for a in dom.attrs if a not in cols]
    gone = tuple(i for i, a in enumerate(dom.attrs) if a in cols)
    want = table(data.df, dom, data.weights).sum(axis=gone)
    try:
        res = data.drop(cols)
        got = res.datavector(flatten=False)
        attrs = list(res.domain.attrs)
    except Exception as e:
        problems.append('%s: drop(%r) raised %s: %s' % (label, cols, type(e).__name__, e))
        return
    log.append('%s %r %s %s' % (label, attrs, got.shape, np.round(got, 9).tolist()))
    if attrs != kept:
        problems.append('%s: drop(%r) kept %r, expected %r' % (label, cols, attrs, kept))
    elif got.shape != want.shape or not np.allclose(got, want):
        problems.append('%s: drop(%r) vector differs from the marginal table' % (label, cols))
    if (res.weights is None) != (data.weights is None):
        problems.append('%s: drop(%r) lost / invented the weights' % (label, cols))

rng = np.random.RandomState(1515)
dom = Domain(['a', 'b', 'c', 'd'], [3, 1, 4, 2])
N = 60
df = pd.DataFrame({'zz': rng.randint(0, 9, N), 'd': rng.randint(0, 2, N),
                   'c': rng.randint(0, 4, N), 'a': rng.randint(0, 3, N),
                   'b': np.zeros(N, dtype=int)})
df.iloc[-1] = df.iloc[0]                      # a duplicate record
df.loc[1, ['a', 'c', 'd']] = [2, 3, 1]        # boundary values
w = np.round(rng.rand(N) * 3 - 0.5, 3)

sets = {
    'plain':    Dataset(df, dom),
    'weighted': Dataset(df, dom, w),
    'empty':    Dataset(df.iloc[:0], dom),
    'permuted': Dataset(df, dom.project(['c', 'a', 'd', 'b']), w),
}
spellings = [
    ['a'], ['c', 'a'], [], ['b'], ['a', 'b', 'c'],          # lists
    ('a',), ('c', 'a'), ('b', 'd'), ('d', 'b', 'a'), (),     # tuples (cliques)
    {'c'}, frozenset(['a', 'd']), {'a': 1, 'c': 2}.keys(),   # sets / key views
    'c', 'd',                                               # a single name
    ['a', 'nope'], ('nope',), ('c', 'zz'), np.array(['a', 'd']),
]
for name, data in sets.items():
    for k, cols in enumerate(spellings):
        run('%s/%d' % (name, k), data, cols)

# a clique-shaped request, the way mechanisms talk about attribute groups
cl = ('a', 'c')
rest = sets['weighted'].drop(cl)
log.append('clique %r %r' % (rest.domain.attrs, rest.datavector().round(9).tolist()))
if set(rest.domain.attrs) & set(cl):
    problems.append('clique: drop(%r) left %r in the dataset' % (cl, rest.domain.attrs))

digest = hashlib.sha256('\n'.join(log).encode()).hexdigest()
if problems:
    print('FAIL: Dataset.drop is not the projection onto the complement (%d violations)' % len(problems))
    for p in problems[:8]:
        print('   ', p)
    sys.exit(1)
print('PASS %d cases digest %s' % (len(log), digest))

""" C15 pair1: Domain.sort(how='name') must order attributes by their NAME
(natural ordering of the names, i.e. sorted(attrs)), keep every attribute's
size, and Dataset.project onto the sorted domain must give the transposed
contingency table.  Checked for string names and for integer names (the
default column labels of a DataFrame built from an array). """
import os, sys, hashlib
ROOT = os.path.dirname(os.path.dirname(os.path.dirname(os.path.abspath(__file__))))
sys.path.insert(0, os.path.join(ROOT, 'src'))
import numpy as np
import pandas as pd
from mbi import Domain, Dataset

fails = []
digest = hashlib.sha256()

def note(*xs):
    line = ' '.join(str(x) for x in xs)
    digest.update(line.encode() + b'\n')
    print(line)

def check(label, attrs, shape, seed):
    dom = Domain(attrs, shape)
    got = dom.sort('name')
    want = tuple(sorted(attrs))
    note(label, 'sorted attrs', got.attrs, 'shape', got.shape)
    if got.attrs != want:
        fails.append('%s: sort(name) gave %s, sorted names are %s' % (label, got.attrs, want))
    if any(got[a] != dom[a] for a in attrs) or set(got.attrs) != set(attrs):
        fails.append('%s: sizes changed by sort' % label)
    # names must be non-decreasing pairwise
    if any(got.attrs[i] > got.attrs[i+1] for i in range(len(got) - 1)):
        fails.append('%s: result is not in increasing name order' % label)
    # dataset level: projecting onto the name-sorted domain = transposed table
    rng = np.random.RandomState(seed)
    N = 40
    vals = np.array([rng.randint(0, n, N) for n in shape]).T
    w = rng.rand(N)
    data = Dataset(pd.DataFrame(vals, columns=list(attrs)), dom, w)
    full = data.datavector(flatten=False)
    proj = data.project(got.attrs).datavector(flatten=False)
    ref = full.transpose(dom.axes(want))
    note(label, 'table', proj.shape, '%.9f' % (proj * np.arange(proj.size).reshape(proj.shape)).sum())
    if proj.shape != ref.shape or not np.allclose(proj, ref):
        fails.append('%s: projection onto sort(name) is not the name-ordered table' % label)

check('str-names', ['c', 'a', 'd', 'b'], [2, 3, 1, 4], 0)
check('str-names-long', ['b10', 'b2', 'a'], [3, 2, 2], 1)
check('int-names-small', [3, 0, 2, 1], [2, 3, 1, 2], 2)
# integer labels with different numbers of digits: 2 < 9 < 10 < 11
check('int-names-wide', [10, 2, 11, 9], [2, 3, 2, 1], 3)
check('int-names-range12', list(range(11, -1, -1)), [2, 1, 2, 1, 2, 1, 1, 1, 2, 1, 1, 2], 4)
check('int-names-negative', [5, -3, -20, 0], [2, 2, 3, 1], 5)

# sort by size is untouched, included in the digest for completeness
note('size', Domain(['x10', 'x2', 'x11'], [3, 1, 2]).sort('size').attrs)

if fails:
    print('FAIL')
    for f in fails:
        print('  ' + f)
    sys.exit(1)
print('PASS', digest.hexdigest())

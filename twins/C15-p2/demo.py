"""Pair 2 demo -- Domain.invert and the laws tying it to the other domain operations.

Property C15 (clause "the domain operations (project, marginalise, merge, invert,
canonical order, size, sort) obey the corresponding set and product laws"):

    for every domain D and attribute list X
      (L1) D.invert(X)              == [a for a in D.attrs if a not in X]   (domain order)
      (L2) D.project(D.invert(X))   == D.marginalize(X)
      (L3) D.canonical(X) and D.invert(X) partition D.attrs, and interleave back to D.attrs
      (L4) D.size(D.canonical(X)) * D.size(D.invert(X)) == D.size()
      (L5) D.project(Xc).merge(D)   has attrs  Xc + invert(X)   (Xc = canonical(X))
      (L6) data.project(D.invert(X)).datavector(False) == table(data).sum(axis=D.axes(Xc))
           i.e. projecting a dataset onto the complement is marginalising its table

Exit status 0 + "PASS <digest>" when every law holds on every case, 1 + "FAIL ..." otherwise.
"""
import hashlib
import itertools
import os
import sys
import warnings

ROOT = os.path.dirname(os.path.dirname(os.path.dirname(os.path.abspath(__file__))))
sys.path.insert(0, os.path.join(ROOT, 'src'))
warnings.filterwarnings('ignore')

import numpy as np
import pandas as pd
import mbi
from mbi import Dataset, Domain

assert os.path.abspath(mbi.__file__).startswith(os.path.join(ROOT, 'src')), \
    'mbi imported from %s, expected the worktree copy' % mbi.__file__


def reference_table(records, shape, weights):
    table = np.zeros(shape)
    for i, rec in enumerate(records):
        table[tuple(int(v) for v in rec)] += 1.0 if weights is None else weights[i]
    return table


def subsets(attrs, rng):
    """ attribute lists to invert: all subsets (in a shuffled order each), plus
        lists with a repeated attribute and with an attribute foreign to the domain """
    out = []
    for k in range(len(attrs) + 1):
        for combo in itertools.combinations(attrs, k):
            combo = list(combo)
            rng.shuffle(combo)
            out.append(combo)
    out.append([attrs[0], attrs[0]])
    out.append((attrs[-1], 'not-in-domain'))
    out.append({attrs[1]: None}.keys())
    return out


def main():
    rng = np.random.default_rng(715)
    failures = []
    digest = hashlib.sha256()
    nchecks = 0

    domains = [
        # the shape of domain the unit tests use: names already in sorted order
        ('alphabetical',     ['a', 'b', 'c', 'd'],               [3, 4, 2, 5]),
        # realistic column orders: not sorted by name
        ('census-like',      ['sex', 'age', 'zip', 'income'],     [2, 5, 4, 3]),
        ('reverse',          ['d', 'c', 'b', 'a'],                [2, 3, 4, 5]),
        ('with size one',    ['y', 'x', 'w'],                     [1, 3, 1]),
        ('integer names',    [2, 0, 1],                           [2, 3, 4]),
        ('capitalised',      ['b', 'A', 'c', 'B'],                [2, 2, 3, 2]),
        ('mixed name types', ['a', 0, 'b', 1],                   [2, 3, 2, 2]),
    ]

    for name, attrs, shape in domains:
        D = Domain(attrs, shape)
        n = 50
        records = np.array([rng.integers(0, s, size=n) for s in shape]).T
        weights = rng.uniform(0, 2, size=n).round(3)
        frame = pd.DataFrame(records, columns=pd.Index(attrs, dtype=object, tupleize_cols=False))
        data = Dataset(frame, D, weights)
        table = reference_table(records, shape, weights)

        for X in subsets(attrs, rng):
            label = '%s / X=%r' % (name, list(X))
            want = [a for a in attrs if a not in X]
            canon_want = tuple(a for a in attrs if a in X)
            try:
                inv = D.invert(X)
            except Exception as e:                      # e.g. unorderable names
                failures.append('%s: invert raised %s: %s' % (label, type(e).__name__, e))
                nchecks += 1
                continue
            digest.update(repr((name, list(X), list(inv))).encode())

            # L1
            nchecks += 1
            if list(inv) != want:
                failures.append('%s: (L1) invert -> %r, domain order is %r' % (label, list(inv), want))

            # L2
            nchecks += 1
            lhs, rhs = D.project(inv), D.marginalize(X)
            digest.update(repr((lhs.attrs, lhs.shape)).encode())
            if not (lhs == rhs):
                failures.append('%s: (L2) project(invert(X)) = %s but marginalize(X) = %s'
                                % (label, lhs, rhs))

            # L3
            nchecks += 1
            canon = D.canonical(X)
            it_c, it_i = iter(canon), iter(inv)
            rebuilt = tuple(next(it_c) if a in X else next(it_i, None) for a in attrs)
            if canon != canon_want or set(canon) & set(inv) or rebuilt != D.attrs:
                failures.append('%s: (L3) canonical %r + invert %r do not interleave back to %r'
                                % (label, canon, list(inv), D.attrs))

            # L4
            nchecks += 1
            prod = D.size(list(canon)) * D.size(list(inv)) if len(canon) and len(inv) else D.size()
            digest.update(repr(prod).encode())
            if prod != D.size():
                failures.append('%s: (L4) size product %d != %d' % (label, prod, D.size()))

            # L5
            nchecks += 1
            merged = D.project(list(canon)).merge(D)
            digest.update(repr((merged.attrs, merged.shape)).encode())
            if merged.attrs != canon + tuple(inv):
                failures.append('%s: (L5) project(Xc).merge(D) = %r but Xc + invert(X) = %r'
                                % (label, merged.attrs, canon + tuple(inv)))

            # L6
            if len(inv):
                nchecks += 1
                got = data.project(inv).datavector(flatten=False)
                ref = table.sum(axis=D.axes(canon)) if len(canon) else table
                digest.update(np.round(got, 6).tobytes())
                if got.shape != ref.shape or not np.allclose(got, ref):
                    failures.append('%s: (L6) table of data.project(invert(X)) has shape %r, '
                                    'marginalised table has shape %r%s'
                                    % (label, got.shape, ref.shape,
                                       '' if got.shape != ref.shape else ' and the cells differ'))

    if failures:
        print('FAIL: %d of %d checks violate the invert / project / marginalize / canonical / '
              'merge laws (results must be in DOMAIN order)' % (len(failures), nchecks))
        for f in failures[:14]:
            print('  -', f)
        if len(failures) > 14:
            print('  - ... and %d more' % (len(failures) - 14))
        sys.exit(1)
    print('PASS %d checks, digest %s' % (nchecks, digest.hexdigest()))
    sys.exit(0)


if __name__ == '__main__':
    main()

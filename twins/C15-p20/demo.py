""" C15 pair 1 -- Dataset.datavector: early return for a dataset without records.

Checks datavector(flatten) and project(cols).datavector(flatten) against an
independently computed contingency table (plain Python loop over the records),
for populated and EMPTY record sets, with and without weights, both values of
`flatten`.
"""
import os, sys, hashlib, itertools, warnings
ROOT = os.path.dirname(os.path.dirname(os.path.dirname(os.path.abspath(__file__))))
sys.path.insert(0, os.path.join(ROOT, 'src'))
warnings.simplefilter('ignore')
import numpy as np
import pandas as pd
from mbi import Dataset, Domain

def table(rows, weights, shape):
    """ reference contingency table: one cell per combination, in domain order """
    ans = np.zeros(shape)
    for i, r in enumerate(rows):
        ans[tuple(int(v) for v in r)] += 1.0 if weights is None else weights[i]
    return ans

def make(rng, attrs, shape, N, weighted, extra):
    cols = { a : rng.integers(0, n, N) for a, n in zip(attrs, shape) }
    if N > 0:                       # boundary values and a duplicate record
        for a, n in zip(attrs, shape):
            cols[a][0] = n-1
        if N > 2:
            for a in attrs: cols[a][2] = cols[a][1]
    if extra:
        cols['unused'] = rng.integers(0, 7, N)
    order = list(cols)
    rng.shuffle(order)              # frame columns in arbitrary order
    df = pd.DataFrame({ a : cols[a] for a in order })
    w = rng.integers(-2, 9, N) / 4.0 if weighted else None
    return Dataset(df, Domain(attrs, shape), w), df, w

failures = []
digest = hashlib.sha256()
lines = []

def check(label, got, want_table, flatten):
    want = want_table.flatten() if flatten else want_table
    ok = isinstance(got, np.ndarray) and got.shape == want.shape and np.array_equal(got, want)
    if not ok:
        failures.append('%s: flatten=%s gives shape %s, contingency table has shape %s%s'
            % (label, flatten, getattr(got, 'shape', None), want.shape,
               '' if getattr(got, 'shape', None) != want.shape else ' (cell values differ)'))
    else:
        digest.update(np.ascontiguousarray(got, dtype=float).tobytes())
        digest.update(repr(got.shape).encode())
    return ok

rng = np.random.default_rng(1515)
configs = [
    (('a','b','c'), (3,4,2)),
    (('z','y','x','w'), (2,1,3,2)),     # size-1 attribute, names not sorted
    (('p',), (5,)),
    (('u','v'), (1,1)),
]
case = 0
for attrs, shape in configs:
    for N in (0, 1, 40):
        for weighted in (False, True):
            for extra in (False, True):
                data, df, w = make(rng, attrs, shape, N, weighted, extra)
                projections = [attrs, attrs[::-1]] + [c for r in (1,2) for c in itertools.permutations(attrs, r)][:6]
                nok = 0
                for cols in projections:
                    cols = tuple(cols)
                    sub = data.project(cols)
                    ref = table(df.loc[:, list(cols)].values, w, tuple(data.domain[a] for a in cols))
                    for flatten in (True, False):
                        label = 'domain %s, %d records, weights=%s, project%s' % (dict(zip(attrs, shape)), N, weighted, cols)
                        nok += check(label, sub.datavector(flatten=flatten), ref, flatten)
                full = table(df.loc[:, list(attrs)].values, w, shape)
                for flatten in (True, False):
                    nok += check('domain %s, %d records, weights=%s, full' % (dict(zip(attrs, shape)), N, weighted),
                                 data.datavector(flatten=flatten), full, flatten)
                # default argument is the flat form
                nok += check('default flatten', data.datavector(), full, True)
                case += 1
                lines.append('case %02d attrs=%s N=%d weighted=%d extra=%d checks_ok=%d total=%r'
                             % (case, ','.join(attrs), N, weighted, extra, nok, float(data.datavector().sum())))

# a filter that matches nothing, then the table is used cell-wise (as the mechanisms do)
data, df, w = make(rng, ('a','b','c'), (3,4,2), 25, True, True)
none = Dataset(df[df['a'] > 99], data.domain, w[:0])
tab = none.project(('c','a')).datavector(flatten=False)
if tab.shape != (2,3):
    failures.append('empty selection: project(c,a).datavector(flatten=False) has shape %s, expected (2, 3)' % (tab.shape,))
else:
    lines.append('empty selection table %s row sums %s' % (tab.shape, tab.sum(axis=1).tolist()))

if failures:
    print('FAIL: %d checks disagree with the contingency table' % len(failures))
    for f in failures[:8]:
        print('  ' + f)
    print('  ... the vector form must be the contingency table in domain order: shape = domain.shape when flatten=False')
    sys.exit(1)
for l in lines:
    print(l)
print('digest', digest.hexdigest())
print('PASS')
sys.exit(0)

"""Pair 1 demo: Domain.merge must obey the set/product laws of the property.

merge(D1, D2) = D1's attributes IN D1's ORDER, followed by the attributes of D2
that D1 lacks in D2's order; sizes follow the attributes; the size of the merge
is size(D1) * size(D2 minus D1).  Checked on a fixed list of hand-picked pairs
(subsets, supersets, permutations, size-1 attributes, empty domains) and on
seeded random pairs, then once more through Factor arithmetic, which lays its
result out in the merged domain.
"""
import os, sys, hashlib, itertools, warnings
ROOT = os.path.dirname(os.path.dirname(os.path.dirname(os.path.abspath(__file__))))
sys.path.insert(0, os.path.join(ROOT, 'src'))
warnings.simplefilter('ignore')
import numpy as np
from mbi import Domain, Factor

SIZES = {'a': 2, 'b': 3, 'c': 1, 'd': 4, 'e': 5, 'f': 1, 'g': 2}

def dom(attrs):
    return Domain(list(attrs), [SIZES[a] for a in attrs])

def expected_merge(d1, d2):
    attrs = list(d1.attrs) + [a for a in d2.attrs if a not in d1.attrs]
    return tuple(attrs), tuple(SIZES[a] for a in attrs)

failures = []
lines = []

def check_pair(x, y, tag):
    d1, d2 = dom(x), dom(y)
    m = d1.merge(d2)
    ea, es = expected_merge(d1, d2)
    lines.append('%s %s + %s -> %s %s' % (tag, ''.join(x) or '-', ''.join(y) or '-', ''.join(m.attrs) or '-', m.shape))
    if (tuple(m.attrs), tuple(m.shape)) != (ea, es):
        failures.append('%s: Domain%s.merge(Domain%s) = %s %s, law requires %s %s'
                        % (tag, tuple(x), tuple(y), m.attrs, m.shape, ea, es))
        return
    # product law
    if m.size() != d1.size() * d2.marginalize(d1.attrs).size():
        failures.append('%s: size law violated for %s, %s' % (tag, x, y))
    # the inputs were not modified
    if d1 != dom(x) or d2 != dom(y):
        failures.append('%s: merge modified its arguments' % tag)

# 1. hand-picked pairs
HAND = [
    ('ab', 'bc'), ('ab', 'ab'), ('ab', 'ba'), ('ba', 'ab'),
    ('abcd', 'bdef'), ('abcd', 'db'), ('db', 'abcd'),       # sub / superset, other order
    ('b', 'ab'), ('b', 'ba'), ('ca', 'abc'), ('cf', 'fc'),  # size-1 attributes
    ('', 'ab'), ('ab', ''), ('', ''),
    ('gda', 'adge'), ('edcba', 'abcde'), ('ac', 'cab'),
]
for x, y in HAND:
    check_pair(tuple(x), tuple(y), 'hand')

# 2. seeded random pairs
rng = np.random.RandomState(20150)
names = sorted(SIZES)
for i in range(300):
    x = tuple(rng.permutation(names)[:rng.randint(0, 6)])
    y = tuple(rng.permutation(names)[:rng.randint(0, 8)])
    check_pair(x, y, 'rand%03d' % i)

# 3. the layout of a Factor product is the merged domain: first factor's axes first
rng = np.random.RandomState(7)
for x, y in [('ba', 'abd'), ('ab', 'abd'), ('db', 'bd'), ('e', 'ae')]:
    f = Factor(dom(x), rng.rand(*dom(x).shape))
    g = Factor(dom(y), rng.rand(*dom(y).shape))
    for name, h in [('mul', f * g), ('add', f + g)]:
        ea, es = expected_merge(f.domain, g.domain)
        lines.append('factor %s %s %s -> %s %s %.12f' % (name, x, y, ''.join(h.domain.attrs), h.values.shape, h.values.ravel()[1]))
        if tuple(h.domain.attrs) != ea or h.values.shape != es:
            failures.append('Factor %s of domains %s and %s is laid out as %s %s, expected %s %s'
                            % (name, x, y, h.domain.attrs, h.values.shape, ea, es))

if failures:
    print('FAIL: Domain.merge violates the merge law (self.attrs first, in order, then the new attributes of other)')
    print('%d violations, first ones:' % len(failures))
    for f in failures[:8]:
        print('  ' + f)
    sys.exit(1)

digest = hashlib.sha256('\n'.join(lines).encode()).hexdigest()
print('PASS')
print('checked %d merges' % len(lines))
print('digest ' + digest)
sys.exit(0)

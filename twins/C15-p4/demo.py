"""Pair 2 demo: a weighted Dataset vectorises to the table of TOTAL WEIGHT per cell,
and projection carries the record weights along.

Every (dataset, weight vector, projection) below is compared with an independently
computed reference table (np.add.at over the records).  The weight vectors include
the ordinary cases (None, all ones, random) and the specific regime the breaking
change needs: non-uniform weights that happen to be normalised to mean one, i.e.
whose sum equals the number of records (importance weights / PublicInference
weights rescaled to total = number of public records).
"""
import os, sys, hashlib, warnings
ROOT = os.path.dirname(os.path.dirname(os.path.dirname(os.path.abspath(__file__))))
sys.path.insert(0, os.path.join(ROOT, 'src'))
warnings.simplefilter('ignore')
import numpy as np
import pandas as pd
from mbi import Domain, Dataset

def reference(values, shape, weights):
    table = np.zeros(shape)
    w = np.ones(values.shape[0]) if weights is None else np.asarray(weights, dtype=float)
    np.add.at(table, tuple(values.T), w)
    return table

rng = np.random.RandomState(1515)
attrs = ['a', 'b', 'c', 'd']
shape = [3, 1, 4, 2]                      # includes a size-1 attribute
domain = Domain(attrs, shape)

def make_frame(n):
    cols = {a: rng.randint(0, s, size=n) for a, s in zip(attrs, shape)}
    cols['unused'] = rng.randint(0, 100, size=n)      # extra column outside the domain
    df = pd.DataFrame(cols)
    return df[['unused', 'd', 'a', 'c', 'b']]           # frame order differs from domain order

frames = {'n0': make_frame(0), 'n1': make_frame(1), 'n8': make_frame(8), 'n64': make_frame(64)}
# duplicates and boundary values
dup = pd.DataFrame({'a': [2, 2, 2, 0], 'b': [0, 0, 0, 0], 'c': [3, 3, 3, 0], 'd': [1, 1, 1, 0], 'unused': [5, 6, 7, 8]})
frames['dup4'] = dup

def weight_vectors(n):
    out = [('none', None), ('ones', np.ones(n)), ('int-ones', np.ones(n, dtype=int))]
    out.append(('random', rng.rand(n)))
    out.append(('zeros', np.zeros(n)))
    if n >= 2:
        # exactly representable, non-uniform, sum == n
        w = np.ones(n); w[0::2] = 0.5; w[1::2] = 1.5
        if n % 2: w[-1] = 1.0
        out.append(('mean-one-dyadic', w))
        w = np.zeros(n); w[0] = float(n)                # all the mass on the first record
        out.append(('mean-one-point-mass', w))
        w = np.ones(n); w[0] = -1.0; w[1] = 3.0         # signed, sum == n
        out.append(('mean-one-signed', w))
        w = rng.randint(0, 5, size=n).astype(float); w[-1] += n - w.sum()   # integer importance counts
        out.append(('mean-one-counts', w))
    return out

projections = [('a','b','c','d'), ('d','c','b','a'), ('c','a'), ('a','c'), ('b',), ('d','b'), 'c']

failures, lines = [], []
for fname in sorted(frames):
    df = frames[fname]
    n = df.shape[0]
    for wname, w in weight_vectors(n):
        data = Dataset(df, domain, None if w is None else w.copy())
        for proj in projections:
            cols = [proj] if isinstance(proj, str) else list(proj)
            ref = reference(df[cols].values.reshape(n, len(cols)), [domain[c] for c in cols], w)
            sub = data.project(proj)
            got = sub.datavector(flatten=False)
            flat = sub.datavector()
            ok = got.shape == ref.shape and np.array_equal(got, ref) and np.array_equal(flat, ref.flatten())
            lines.append('%s %s %s %s' % (fname, wname, ','.join(cols), np.array2string(flat, precision=10)))
            if not ok:
                failures.append('%s weights=%s project%s: got %s, total weight per cell is %s'
                                % (fname, wname, tuple(cols), np.array2string(flat, precision=6), np.array2string(ref.flatten(), precision=6)))
        # full vector (no projection) and total mass
        full = data.datavector()
        ref = reference(df[attrs].values, shape, w).flatten()
        lines.append('%s %s full %s' % (fname, wname, np.array2string(full, precision=10)))
        if not np.array_equal(full, ref):
            failures.append('%s weights=%s datavector(): total %.6f, expected total weight %.6f'
                            % (fname, wname, full.sum(), ref.sum()))

if failures:
    print('FAIL: a weighted dataset does not vectorise to the table of total weights')
    print('%d violations (all with weight vectors whose sum equals the record count), first ones:' % len(failures))
    for f in failures[:8]:
        print('  ' + f)
    sys.exit(1)

print('PASS')
print('checked %d vectors' % len(lines))
print('digest ' + hashlib.sha256('\n'.join(lines).encode()).hexdigest())
sys.exit(0)

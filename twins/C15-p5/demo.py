"""C15 pair 1 -- Dataset.datavector must be the contingency table on EVERY call.

The vector form of a dataset is a function of (records, weights, domain) only.
This demo builds several datasets (size-1 attributes, empty record set,
duplicates, boundary values, weights, extra unused columns, permuted
projections), and for each one runs the kind of call sequence a caller of the
library writes:

    v  = data.datavector()                 # flat counts
    t  = data.datavector(flatten=False)    # table, then used as scratch space
    t /= t.sum()  /  t[...] = 0  /  t *= 2 # in-place arithmetic on the RESULT
    v2 = data.datavector()                 # must still be the counts
    t2 = data.datavector(flatten=False)    # must still be the table

Every returned array is compared with an independently computed contingency
table (np.add.at over the raw records).
"""
import os
import sys
import hashlib
import warnings

ROOT = os.path.dirname(os.path.dirname(os.path.dirname(os.path.abspath(__file__))))
sys.path.insert(0, os.path.join(ROOT, 'src'))
warnings.filterwarnings('ignore')

import numpy as np
import pandas as pd
import mbi
from mbi import Domain, Dataset

assert os.path.abspath(mbi.__file__).startswith(ROOT), 'wrong mbi imported: %s' % mbi.__file__


def reference(values, attrs, shape, weights, cols):
    """ contingency table of the records over `cols` (in that order) """
    idx = tuple(values[:, attrs.index(c)] for c in cols)
    shp = tuple(shape[attrs.index(c)] for c in cols)
    table = np.zeros(shp)
    w = np.ones(values.shape[0]) if weights is None else weights
    np.add.at(table, idx, w)
    return table


def scratch_ops():
    def normalise(t):
        s = t.sum()
        if s > 0:
            t /= s

    def clear(t):
        t[...] = 0

    def double(t):
        t *= 2

    def smooth(t):
        t += 1

    return [('normalise', normalise), ('clear', clear), ('double', double), ('smooth', smooth)]


def cases(prng):
    out = []
    # (name, attrs, shape, N, weighted, extra columns)
    specs = [
        ('plain', ['a', 'b', 'c'], [2, 3, 4], 50, False, []),
        ('weighted', ['a', 'b', 'c'], [3, 2, 5], 40, True, []),
        ('size-one attrs', ['a', 'b', 'c', 'd'], [1, 4, 1, 3], 30, True, []),
        ('empty', ['a', 'b'], [3, 2], 0, False, []),
        ('empty weighted', ['a', 'b'], [3, 2], 0, True, []),
        ('single attr', ['a'], [6], 25, True, []),
        ('extra columns', ['a', 'b', 'c'], [4, 2, 3], 35, True, ['junk', 'zz']),
        ('one record', ['a', 'b'], [2, 2], 1, False, []),
    ]
    for name, attrs, shape, N, weighted, extra in specs:
        values = np.array([prng.randint(0, n, size=N) for n in shape]).T.reshape(N, len(shape))
        if N >= 4:
            values[0] = 0                              # boundary: all-low
            values[1] = np.array(shape) - 1            # boundary: all-high
            values[3] = values[2]                      # duplicate record
        weights = np.round(prng.rand(N) * 4, 2) if weighted else None
        cols = list(attrs) + extra
        frame = np.hstack([values, 7 * np.ones((N, len(extra)), dtype=int)]).astype(int)
        order = list(prng.permutation(len(cols)))      # shuffled frame columns
        df = pd.DataFrame(frame[:, order], columns=[cols[i] for i in order])
        out.append((name, attrs, shape, values, weights, df))
    return out


def main():
    prng = np.random.RandomState(1515)
    digest = hashlib.sha256()
    problems = []
    checked = 0

    def check(label, got, want):
        nonlocal checked
        checked += 1
        got = np.asarray(got)
        digest.update(label.encode())
        digest.update(np.ascontiguousarray(got, dtype=float).tobytes())
        if got.shape != want.shape or not np.array_equal(got, want):
            problems.append('%s: expected %s got %s' % (label, want.flatten().tolist(), got.flatten().tolist()))

    for name, attrs, shape, values, weights, df in cases(prng):
        data = Dataset(df, Domain(attrs, shape), weights)
        projections = [tuple(attrs), tuple(reversed(attrs)), (attrs[-1],)]
        if len(attrs) > 2:
            projections.append((attrs[2], attrs[0]))
        targets = [('full', data, tuple(attrs))]
        targets += [('proj%s' % (p,), data.project(list(p)), p) for p in projections]
        for tname, obj, cols in targets:
            ref = reference(values, attrs, shape, weights, cols)
            for opname, op in scratch_ops():
                lab = '%s/%s/%s' % (name, tname, opname)
                check(lab + '/flat-before', obj.datavector(), ref.flatten())
                table = obj.datavector(flatten=False)
                check(lab + '/table-before', table, ref)
                op(table)                              # caller's scratch arithmetic
                check(lab + '/flat-after', obj.datavector(), ref.flatten())
                check(lab + '/table-after', obj.datavector(flatten=False), ref)
                flat = obj.datavector()
                flat[:] = -1                           # flat results are scratch too
                check(lab + '/flat-after-flat-write', obj.datavector(), ref.flatten())
            # the parent must be unaffected by what was done to a projection
            check('%s/%s/parent' % (name, tname), data.datavector(flatten=False),
                  reference(values, attrs, shape, weights, tuple(attrs)))

    if problems:
        print('FAIL: Dataset.datavector stopped being the contingency table of the records '
              'after a caller wrote into a previously returned array (%d of %d checks)' % (len(problems), checked))
        for p in problems[:8]:
            print('  ' + p[:300])
        sys.exit(1)
    print('PASS %d checks digest=%s' % (checked, digest.hexdigest()))
    sys.exit(0)


if __name__ == '__main__':
    main()

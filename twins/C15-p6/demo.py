"""C15 pair 2 -- Domain.project (and everything built on it) is a pure function
of (domain, argument): the answer may not depend on which other calls were made
on the same Domain object before.

The demo drives long, seeded sequences of domain-algebra calls (project with a
list / tuple / single attribute name, size, marginalize, transpose, merge, sort,
invert, canonical, axes) against ONE shared Domain object per scenario and
compares every answer with a stateless reference model written directly from
the set / product laws.  Attribute names are realistic column names of mixed
length, including derived columns named after the columns they were built from
('x', 'y', 'xy'), and size-1 attributes.  It finishes with the Dataset level:
project the records onto ('x', 'y') in both orders after the domain was sorted.
"""
import os
import sys
import hashlib
import warnings

ROOT = os.path.dirname(os.path.dirname(os.path.dirname(os.path.abspath(__file__))))
sys.path.insert(0, os.path.join(ROOT, 'src'))
warnings.filterwarnings('ignore')

import numpy as np
import pandas as pd
import mbi
from mbi import Domain, Dataset

assert os.path.abspath(mbi.__file__).startswith(ROOT), 'wrong mbi imported: %s' % mbi.__file__


# ---------------------------------------------------------------- reference
class Ref:
    """ stateless model of the domain algebra: an ordered list of (attr, size) """

    def __init__(self, attrs, shape):
        self.attrs, self.shape = tuple(attrs), tuple(shape)
        self.n = dict(zip(self.attrs, self.shape))

    def project(self, attrs):
        attrs = [attrs] if isinstance(attrs, str) else list(attrs)
        return Ref(attrs, [self.n[a] for a in attrs])

    def marginalize(self, attrs):
        return self.project([a for a in self.attrs if a not in attrs])

    def invert(self, attrs):
        return [a for a in self.attrs if a not in attrs]

    def canonical(self, attrs):
        return tuple(a for a in self.attrs if a in attrs)

    def axes(self, attrs):
        return tuple(self.attrs.index(a) for a in attrs)

    def merge(self, other):
        extra = [a for a in other.attrs if a not in self.attrs]
        return Ref(self.attrs + tuple(extra), self.shape + tuple(other.n[a] for a in extra))

    def size(self, attrs=None):
        dom = self if attrs is None else self.project(attrs)
        out = 1
        for n in dom.shape:
            out *= n
        return out

    def sort(self, how):
        key = (lambda a: self.n[a]) if how == 'size' else (lambda a: a)
        return self.project(sorted(self.attrs, key=key))

    def plain(self):
        return (self.attrs, self.shape)


def plain(x):
    if isinstance(x, (Domain, Ref)):
        return (tuple(x.attrs), tuple(int(n) for n in x.shape))
    if isinstance(x, (list, tuple)):
        return tuple(x)
    return int(x)


# ---------------------------------------------------------------- scenarios
SCENARIOS = [
    (['a', 'b', 'c', 'd'], [3, 4, 5, 6]),
    (['age', 'sex', 'race', 'income'], [7, 2, 5, 1]),
    (['x', 'y', 'xy', 'z'], [2, 3, 5, 1]),              # derived column 'xy'
    (['b', 'a', 'ab', 'ba', 'c'], [4, 2, 7, 3, 1]),     # derived columns, both orders
    (['u'], [9]),
    (['s', 't', 'st', 'ts', 'tst'], [1, 2, 3, 4, 5]),
]


def random_subset(prng, attrs, ordered=True):
    k = prng.randint(0, len(attrs) + 1)
    sub = list(prng.choice(len(attrs), size=k, replace=False))
    if not ordered:
        sub.sort()
    return [attrs[i] for i in sub]


def run_sequence(prng, attrs, shape, steps, record):
    dom, ref = Domain(attrs, shape), Ref(attrs, shape)
    other_attrs = list(attrs[::2]) + ['extra']
    other_shape = [ref.n[a] for a in attrs[::2]] + [4]
    for step in range(steps):
        op = prng.randint(0, 11)
        sub = random_subset(prng, list(attrs))
        one = attrs[prng.randint(0, len(attrs))]
        if op == 0:
            call, args = 'project', (sub,)
        elif op == 1:
            call, args = 'project', (tuple(sub),)
        elif op == 2:
            call, args = 'project', (one,)              # single attribute name
        elif op == 3:
            call, args = 'size', (one,)
        elif op == 4:
            call, args = 'size', (sub,)
        elif op == 5:
            call, args = 'marginalize', (sub,)
        elif op == 6:
            call, args = 'sort', (['size', 'name'][prng.randint(0, 2)],)
        elif op == 7:
            call, args = 'invert', (sub,)
        elif op == 8:
            call, args = 'canonical', (sub,)
        elif op == 9:
            call, args = 'axes', (sub,)
        else:
            call, args = 'merge', None
        label = '%s#%d %s%r' % ('|'.join(attrs), step, call, args)
        if call == 'merge':
            want = plain(ref.merge(Ref(other_attrs, other_shape)))
        else:
            want = plain(getattr(ref, call)(*args))
        try:
            if call == 'merge':
                got = plain(dom.merge(Domain(other_attrs, other_shape)))
            else:
                got = plain(getattr(dom, call)(*args))
        except Exception as e:                           # noqa
            got = 'raised %r' % (e,)
        record(label, got, want)
        # product law on the shared object: |proj| * |marg| == |domain|
        if call == 'project' and not isinstance(args[0], str):
            try:
                got = dom.size(args[0]) * dom.marginalize(args[0]).size()
            except Exception as e:                       # noqa
                got = 'raised %r' % (e,)
            record(label + ' product-law', got, ref.size())


def dataset_level(prng, record):
    attrs, shape = ['x', 'y', 'xy', 'z'], [2, 3, 5, 1]
    N = 60
    values = np.array([prng.randint(0, n, size=N) for n in shape]).T
    weights = np.round(prng.rand(N) * 3, 2)
    df = pd.DataFrame(values, columns=attrs)
    for wname, w in [('unweighted', None), ('weighted', weights)]:
        data = Dataset(df, Domain(attrs, shape), w)
        data.domain.sort()                               # e.g. to print the domain by size
        for cols in [('x', 'y'), ('y', 'x'), ('xy',), ('z', 'xy', 'x')]:
            table = np.zeros([shape[attrs.index(c)] for c in cols])
            np.add.at(table, tuple(values[:, attrs.index(c)] for c in cols), 1.0 if w is None else w)
            label = 'dataset/%s/%r' % (wname, cols)
            try:
                proj = data.project(cols)
                got = (plain(proj.domain), proj.datavector().tolist())
            except Exception as e:                       # noqa
                got = 'raised %r' % (e,)
            want = ((tuple(cols), tuple(table.shape)), table.flatten().tolist())
            record(label, got, want)


def main():
    prng = np.random.RandomState(2015)
    digest = hashlib.sha256()
    problems, checked = [], [0]

    def record(label, got, want):
        checked[0] += 1
        digest.update(('%s => %r\n' % (label, got)).encode())
        if got != want:
            problems.append('%s: expected %r got %r' % (label, want, got))

    for attrs, shape in SCENARIOS:
        for rep in range(6):
            run_sequence(prng, attrs, shape, 60, record)
    dataset_level(prng, record)

    if problems:
        print('FAIL: a Domain method returned an answer that violates the domain algebra '
              '(it depended on earlier calls on the same object): %d of %d checks' % (len(problems), checked[0]))
        for p in problems[:8]:
            print('  ' + p[:300])
        sys.exit(1)
    print('PASS %d checks digest=%s' % (checked[0], digest.hexdigest()))
    sys.exit(0)


if __name__ == '__main__':
    main()

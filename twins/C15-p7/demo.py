"""C15 pair 1 -- Domain.sort(how='size'): the sort law.

Law checked (for every domain d, sizes incl. 1, ties, already-sorted domains):
  * d.sort() is a permutation of d (same attribute set, same size per attribute,
    same total size) with non-decreasing sizes;
  * attributes of EQUAL size keep their domain (canonical) order, i.e. d.sort()
    is THE stable sort by size -- consequently an already size-sorted domain is a
    fixed point and sort is idempotent;
  * d.sort('name') is the attributes in lexicographic order.
The reference result is computed here, independently of mbi.
"""
import os, sys, json, hashlib

ROOT = os.path.dirname(os.path.dirname(os.path.dirname(os.path.abspath(__file__))))
sys.path.insert(0, os.path.join(ROOT, 'src'))
import warnings
warnings.filterwarnings('ignore')
import numpy as np
from mbi import Domain
import mbi
assert os.path.abspath(mbi.__file__).startswith(ROOT), mbi.__file__


def reference_sort(attrs, shape):
    idx = sorted(range(len(attrs)), key=lambda i: (shape[i], i))
    return tuple(attrs[i] for i in idx), tuple(shape[i] for i in idx)


def cases():
    out = []
    out.append(('distinct', ['a', 'b', 'c', 'd'], [6, 3, 5, 4]))
    out.append(('one-attr', ['only'], [7]))
    out.append(('size-1', ['u', 'v', 'w'], [1, 4, 1]))
    out.append(('all-equal-4', ['d', 'c', 'b', 'a'], [2, 2, 2, 2]))
    out.append(('sorted-ties', ['x1', 'x2', 'x3', 'x4', 'x5', 'x6'], [2, 2, 2, 3, 3, 9]))
    with open(os.path.join(ROOT, 'data', 'adult-domain.json')) as f:
        cfg = json.load(f)
    out.append(('adult', list(cfg.keys()), list(cfg.values())))
    rng = np.random.RandomState(20241)
    for d in (5, 8, 12, 17, 24, 40):
        for rep in range(3):
            attrs = ['v%02d' % i for i in rng.permutation(d)]
            shape = [int(s) for s in rng.choice([1, 2, 3, 5, 8], size=d)]
            out.append(('rand-%d-%d' % (d, rep), attrs, shape))
    # already sorted by size, many ties, names in non-alphabetic order
    attrs = ['q%02d' % i for i in rng.permutation(40)]
    shape = sorted(int(s) for s in rng.choice([2, 3, 4], size=40))
    out.append(('presorted-40', attrs, shape))
    return out


def main():
    failures = []
    lines = []
    for name, attrs, shape in cases():
        dom = Domain(attrs, shape)
        got = dom.sort()
        exp_attrs, exp_shape = reference_sort(attrs, shape)
        probs = []
        if set(got.attrs) != set(attrs) or len(got.attrs) != len(attrs):
            probs.append('not a permutation of the attributes')
        if any(got[a] != dom[a] for a in attrs):
            probs.append('attribute sizes changed')
        if got.size() != dom.size():
            probs.append('total size changed')
        if list(got.shape) != sorted(shape):
            probs.append('sizes not non-decreasing')
        if got.attrs != exp_attrs or got.shape != exp_shape:
            first = next(i for i, (g, e) in enumerate(zip(got.attrs, exp_attrs)) if g != e) \
                if got.attrs != exp_attrs else -1
            probs.append('ties not kept in domain order: position %d is %r, stable sort has %r'
                         % (first, got.attrs[first], exp_attrs[first]))
        again = got.sort()
        if again.attrs != got.attrs:
            probs.append('sort is not idempotent (sorting the sorted domain moved attributes)')
        if list(shape) == sorted(shape) and got.attrs != tuple(attrs):
            probs.append('an already size-sorted domain is not a fixed point of sort')
        byname = dom.sort('name')
        if byname.attrs != tuple(sorted(attrs)) or any(byname[a] != dom[a] for a in attrs):
            probs.append("sort('name') wrong")
        if dom.attrs != tuple(attrs) or dom.shape != tuple(shape):
            probs.append('sort mutated the receiver')
        if probs:
            failures.append((name, probs))
        lines.append('%s|%s|%s|%s' % (name, ','.join(got.attrs), ','.join(map(str, got.shape)),
                                      ','.join(byname.attrs)))
    if failures:
        print('FAIL: Domain.sort violates the sort law on %d of %d domains' % (len(failures), len(lines)))
        for name, probs in failures:
            for p in probs:
                print('  %-14s %s' % (name, p))
        sys.exit(1)
    digest = hashlib.sha256('\n'.join(lines).encode()).hexdigest()
    print('PASS: %d domains, sort law holds' % len(lines))
    for l in lines[:6]:
        print('  ' + l)
    print('digest', digest)
    sys.exit(0)


if __name__ == '__main__':
    main()

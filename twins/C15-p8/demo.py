"""C15 pair 2 -- Dataset.load: the vector form is the contingency table IN DOMAIN ORDER.

For a csv file (columns in any order, possibly with extra unused columns) and a
domain json file {attr: size, ...}, Dataset.load(csv, json) must give a dataset whose
domain lists the attributes in the order of the domain file, and whose datavector is
the contingency table of the records with axes in that order (cell (i,j,..) = number of
records with attr1 == i, attr2 == j, ...).  Projections (any order) of the loaded
dataset must equal the marginalised + transposed table.
The reference table is computed here with np.add.at, independently of mbi.
"""
import os, sys, json, hashlib, tempfile, itertools, shutil, atexit

ROOT = os.path.dirname(os.path.dirname(os.path.dirname(os.path.abspath(__file__))))
sys.path.insert(0, os.path.join(ROOT, 'src'))
import warnings
warnings.filterwarnings('ignore')
import numpy as np
import pandas as pd
from mbi import Dataset, Domain
import mbi
assert os.path.abspath(mbi.__file__).startswith(ROOT), mbi.__file__


def table(records, attrs, config):
    """ contingency table of records (dict attr -> int array) with axes in order attrs """
    shape = tuple(config[a] for a in attrs)
    ans = np.zeros(shape)
    if len(next(iter(records.values()))) > 0:
        np.add.at(ans, tuple(records[a] for a in attrs), 1.0)
    return ans


def make_cases():
    rng = np.random.RandomState(771)
    cases = []

    def rand_records(config, n):
        return {a: rng.randint(0, s, size=n) for a, s in config.items()}

    # 1. csv columns in the same order as the domain file (the stock adult.csv situation)
    cfg = {'a': 3, 'b': 4, 'c': 2}
    cases.append(('same-order', cfg, ['a', 'b', 'c'], rand_records(cfg, 60)))
    # 2. csv columns permuted w.r.t. the domain file
    cfg = {'a': 3, 'b': 4, 'c': 2}
    cases.append(('permuted-csv', cfg, ['c', 'a', 'b'], rand_records(cfg, 60)))
    # 3. permuted + extra unused columns interleaved
    cfg = {'x': 2, 'y': 5, 'z': 3, 'w': 1}
    cases.append(('extra-cols', cfg, ['id', 'z', 'junk', 'w', 'y', 'x'], rand_records(cfg, 80)))
    # 4. square domain (all sizes equal): a transposed table has the SAME shape
    cfg = {'p': 3, 'q': 3}
    cases.append(('square', cfg, ['q', 'p'], rand_records(cfg, 40)))
    # 5. boundary values and duplicates only
    cfg = {'lo': 4, 'hi': 6}
    recs = {'lo': np.array([0, 0, 3, 3, 3, 0]), 'hi': np.array([5, 5, 0, 0, 5, 0])}
    cases.append(('boundary-dups', cfg, ['hi', 'extra', 'lo'], recs))
    # 6. empty record set (header-only csv), reversed columns
    cfg = {'e1': 2, 'e2': 3, 'e3': 2}
    recs = {a: np.zeros(0, dtype=int) for a in cfg}
    cases.append(('empty', cfg, ['e3', 'e2', 'e1'], recs))
    # 7. the stock domain file with a column-shuffled sample of records
    with open(os.path.join(ROOT, 'data', 'adult-domain.json')) as f:
        full = json.load(f)
    keep = ['sex', 'race', 'relationship', 'income>50K', 'marital-status']
    cfg = {a: full[a] for a in full if a in keep}
    cases.append(('adult-5cols', cfg, ['income>50K', 'sex', 'marital-status', 'race', 'relationship'],
                  rand_records(cfg, 300)))
    return cases


def main():
    tmp = tempfile.mkdtemp(prefix='c15p2_')
    atexit.register(shutil.rmtree, tmp, True)
    failures, lines = [], []
    for name, cfg, csv_cols, recs in make_cases():
        n = len(next(iter(recs.values())))
        frame = {}
        for k, c in enumerate(csv_cols):
            frame[c] = recs[c] if c in recs else (np.arange(n) * 7 + k) % 11
        csv = os.path.join(tmp, name + '.csv')
        dom = os.path.join(tmp, name + '.json')
        pd.DataFrame(frame, columns=csv_cols).to_csv(csv, index=False)
        with open(dom, 'w') as f:
            json.dump(cfg, f)

        data = Dataset.load(csv, dom)
        attrs = list(cfg.keys())
        expect = table(recs, attrs, cfg)
        probs = []
        if data.domain.attrs != tuple(attrs) or data.domain.shape != tuple(cfg.values()):
            probs.append('loaded domain is %s, domain file says %s'
                         % (list(zip(data.domain.attrs, data.domain.shape)), list(cfg.items())))
        if tuple(data.df.columns) != data.domain.attrs:
            probs.append('frame columns %s not in domain order' % (tuple(data.df.columns),))
        if data.records != n:
            probs.append('records = %d, expected %d' % (data.records, n))
        vec = data.datavector()
        if vec.shape != (expect.size,) or not np.array_equal(vec, expect.flatten()):
            bad = int((vec != expect.flatten()).sum()) if vec.shape == (expect.size,) else -1
            probs.append('datavector is not the contingency table in domain-file order '
                         '(%d of %d cells differ)' % (bad, expect.size))
        tab = data.datavector(flatten=False)
        if tab.shape != expect.shape:
            probs.append('unflattened datavector has shape %s, expected %s' % (tab.shape, expect.shape))
        # projections in any order == marginalise + transpose the reference table
        subsets = [p for r in (1, 2) for p in itertools.permutations(attrs, r)][:14]
        for p in subsets:
            ref = table(recs, list(p), cfg)
            got = data.project(list(p)).datavector(flatten=False)
            if got.shape != ref.shape or not np.array_equal(got, ref):
                probs.append('projection onto %s wrong' % (p,))
        if probs:
            failures.append((name, probs))
        lines.append('%s|%s|%s|%s' % (name, ','.join(data.domain.attrs),
                                      'x'.join(map(str, data.domain.shape)),
                                      hashlib.sha256(np.ascontiguousarray(vec).tobytes()).hexdigest()[:16]))
    if failures:
        print('FAIL: Dataset.load does not vectorise in domain-file order in %d of %d cases'
              % (len(failures), len(lines)))
        for name, probs in failures:
            for p in probs:
                print('  %-14s %s' % (name, p))
        sys.exit(1)
    print('PASS: %d load cases, vector form == contingency table in domain order' % len(lines))
    for l in lines:
        print('  ' + l)
    print('digest', hashlib.sha256('\n'.join(lines).encode()).hexdigest())
    sys.exit(0)


if __name__ == '__main__':
    main()

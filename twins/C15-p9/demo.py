"""C15 pair 1 -- Dataset.datavector: the vector form of a dataset is its
contingency table in domain order, with exactly one entry per cell of the
domain (also for cells / values no record takes).

Compares Dataset.datavector (directly and after Dataset.project in several
orders) with a contingency table built by a plain python loop.
"""
import os, sys, hashlib, itertools, warnings

ROOT = os.path.dirname(os.path.dirname(os.path.dirname(os.path.abspath(__file__))))
sys.path.insert(0, os.path.join(ROOT, 'src'))
warnings.simplefilter('ignore')

import numpy as np
import pandas as pd
import mbi
from mbi import Domain, Dataset

assert os.path.abspath(mbi.__file__).startswith(ROOT), mbi.__file__


def reference(rows, weights, shape):
    """ contingency table by brute force: one cell per combination of values """
    table = np.zeros(shape)
    for i, r in enumerate(rows):
        table[tuple(int(v) for v in r)] += 1.0 if weights is None else weights[i]
    return table


failures = []
digest = hashlib.sha256()
lines = []


def check(label, data, cols, rows, weights):
    """ project `data` on `cols` and compare with the brute-force table """
    shape = tuple(data.domain[c] for c in cols)
    colidx = [list(data.domain.attrs).index(c) for c in cols]
    sub = [[r[j] for j in colidx] for r in rows]
    ref = reference(sub, weights, shape)
    proj = data.project(list(cols)) if tuple(cols) != data.domain.attrs else data
    for flatten in (True, False):
        want = ref.flatten() if flatten else ref
        try:
            got = proj.datavector(flatten=flatten)
        except Exception as e:
            failures.append('%s cols=%s flatten=%s: raised %r' % (label, cols, flatten, e))
            continue
        got = np.asarray(got)
        tag = '%s cols=%s flatten=%s' % (label, ','.join(cols), flatten)
        if got.shape != want.shape:
            failures.append('%s: vector has shape %s but the domain has shape %s '
                            '(one entry per cell is required, also for values no record takes)'
                            % (tag, got.shape, want.shape))
            continue
        if got.dtype != np.float64:
            failures.append('%s: dtype %s' % (tag, got.dtype))
            continue
        if not np.array_equal(got, want):
            failures.append('%s: cell values differ from the contingency table: %s vs %s'
                            % (tag, got.tolist(), want.tolist()))
            continue
        digest.update(tag.encode())
        digest.update(repr(got.tolist()).encode())
    lines.append('%-34s %-8s total=%r' % (label, ','.join(cols), float(ref.sum())))


def all_projections(attrs, maxlen=3):
    for k in range(1, min(len(attrs), maxlen) + 1):
        for cols in itertools.permutations(attrs, k):
            yield cols


# ---- case 1: small hand-written data, top value of 'c' and of 'd' never taken
dom = Domain(['a', 'b', 'c', 'd'], [3, 1, 4, 5])
rows = [(0, 0, 2, 1), (2, 0, 0, 0), (2, 0, 2, 3), (1, 0, 1, 0), (2, 0, 2, 3), (0, 0, 0, 2)]
df = pd.DataFrame(rows, columns=dom.attrs)
df['unused'] = 7                              # extra column outside the domain
w = np.array([1.0, 2.0, 0.5, 4.0, 0.25, 8.0])
for label, weights in (('hand/unweighted', None), ('hand/weighted', w)):
    data = Dataset(df, dom, weights)
    for cols in all_projections(dom.attrs):
        check(label, data, cols, rows, weights)
    check(label, data, dom.attrs, rows, weights)

# ---- case 2: boundary values only (0 and n-1), duplicates
dom2 = Domain(['x', 'y'], [6, 2])
rows2 = [(0, 0), (5, 1), (5, 1), (0, 1), (5, 0), (0, 0)]
data2 = Dataset(pd.DataFrame(rows2, columns=dom2.attrs), dom2)
for cols in all_projections(dom2.attrs):
    check('boundary', data2, cols, rows2, None)

# ---- case 3: every record has the smallest value (all other cells empty)
rows3 = [(0, 0)] * 4
data3 = Dataset(pd.DataFrame(rows3, columns=dom2.attrs), dom2, np.array([1.0, 1.0, 2.0, 3.0]))
for cols in all_projections(dom2.attrs):
    check('all-zero records', data3, cols, rows3, np.array([1.0, 1.0, 2.0, 3.0]))

# ---- case 4: empty record set
data4 = Dataset(pd.DataFrame(np.zeros((0, 2), dtype=int), columns=dom2.attrs), dom2)
for cols in all_projections(dom2.attrs):
    check('empty', data4, cols, [], None)
data4w = Dataset(pd.DataFrame(np.zeros((0, 2), dtype=int), columns=dom2.attrs), dom2, np.zeros(0))
for cols in all_projections(dom2.attrs):
    check('empty/weighted', data4w, cols, [], np.zeros(0))

# ---- case 5: float-typed columns holding integral values
rows5 = [(1.0, 0.0), (3.0, 1.0), (1.0, 1.0)]
data5 = Dataset(pd.DataFrame(rows5, columns=dom2.attrs, dtype=float), dom2)
for cols in all_projections(dom2.attrs):
    check('float columns', data5, cols, rows5, None)

# ---- case 6: seeded random data, few records over wide attributes
prng = np.random.RandomState(20261004)
for trial in range(6):
    k = prng.randint(1, 5)
    shape = [int(prng.choice([1, 2, 3, 7, 12])) for _ in range(k)]
    attrs = ['q%d' % i for i in range(k)]
    dom6 = Domain(attrs, shape)
    N = int(prng.choice([1, 3, 8, 40]))
    vals = np.array([prng.randint(0, n, size=N) for n in shape]).T
    rows6 = [tuple(int(v) for v in r) for r in vals]
    weights = None if trial % 2 == 0 else prng.randint(0, 5, size=N) / 4.0
    data6 = Dataset(pd.DataFrame(vals, columns=attrs), dom6, weights)
    for cols in all_projections(dom6.attrs, maxlen=2):
        check('random#%d %s N=%d' % (trial, shape, N), data6, cols, rows6, weights)

if failures:
    print('FAIL: Dataset.datavector is not the contingency table of the records')
    for f in failures[:12]:
        print('  -', f)
    if len(failures) > 12:
        print('  ... and %d more' % (len(failures) - 12))
    sys.exit(1)

print('PASS')
for l in lines:
    print(l)
print('checked', len(lines), 'projections; digest', digest.hexdigest())

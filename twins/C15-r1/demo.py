"""Equivalence demo for refactor1 (Dataset.datavector).

Prints a deterministic digest of Dataset.datavector() on a range of inputs.
Run with  PYTHONPATH=<worktree>/src  so that the worktree copy of mbi is used.
"""
import os
import sys
import itertools
import hashlib

ROOT = os.path.abspath(os.path.join(os.path.dirname(os.path.abspath(__file__)), '..', '..'))
sys.path.insert(0, os.path.join(ROOT, 'src'))

import numpy as np
import pandas as pd
from mbi import Dataset, Domain
import mbi.dataset

assert os.path.abspath(mbi.dataset.__file__).startswith(ROOT), mbi.dataset.__file__


def digest(arr):
    arr = np.asarray(arr)
    h = hashlib.sha256(np.ascontiguousarray(arr).tobytes()).hexdigest()[:16]
    return 'shape=%s dtype=%s sum=%r sha=%s' % (arr.shape, arr.dtype, float(arr.sum()), h)


def show(tag, arr, full=False):
    print(tag, digest(arr))
    if full:
        print('   ', np.asarray(arr).tolist())


def brute(df, domain, weights):
    """ independent contingency table, only used to print agreement flag """
    ans = np.zeros(domain.shape)
    w = np.ones(df.shape[0]) if weights is None else weights
    for row, wt in zip(df.loc[:, list(domain.attrs)].values, w):
        ans[tuple(int(v) for v in row)] += wt
    return ans


def case(tag, df, domain, weights=None, full=False):
    data = Dataset(df, domain, weights)
    flat = data.datavector()
    cube = data.datavector(flatten=False)
    flat_kw = data.datavector(True)
    show(tag + ' flat', flat, full)
    show(tag + ' cube', cube)
    print('    flat==cube.flatten():', bool(np.array_equal(flat, cube.flatten())),
          ' positional flag same:', bool(np.array_equal(flat, flat_kw)),
          ' owns/contig:', flat.flags['C_CONTIGUOUS'], cube.flags['C_CONTIGUOUS'],
          ' ndim:', flat.ndim, cube.ndim,
          ' matches brute force:', bool(np.allclose(cube, brute(df, domain, weights))),
          ' records:', data.records)
    return data


prng = np.random.RandomState(1234)

# 1. small hand-written data set with duplicates and boundary values
dom = Domain(['a', 'b', 'c'], [2, 3, 4])
df = pd.DataFrame({'a': [0, 1, 1, 1, 0, 1], 'b': [0, 2, 2, 2, 1, 0], 'c': [3, 0, 0, 3, 3, 0]})
case('hand', df, dom, full=True)
w = np.array([0.5, 2.0, 0.25, 1.0, 3.0, 0.0])
case('hand+w', df, dom, w, full=True)
case('hand+negw', df, dom, np.array([-1.0, 1.0, 1e-9, 1e9, 2.5, -0.5]), full=True)
case('hand+intw', df, dom, np.array([1, 2, 3, 4, 5, 6]), full=True)

# 2. dataframe columns in a different order than the domain + unused columns
df2 = df.copy()
df2['zzz'] = [9, 9, 9, 9, 9, 9]
df2['extra'] = [7, 1, 7, 1, 7, 1]
df2 = df2[['extra', 'c', 'a', 'zzz', 'b']]
case('permuted-cols', df2, dom, full=True)
case('permuted-cols+w', df2, dom, w, full=True)
for perm in itertools.permutations(['a', 'b', 'c']):
    d = Domain(perm, [dom[x] for x in perm])
    case('domain-order %s' % ''.join(perm), df2, d, w)

# 3. attributes of size one, single attribute domains
dom1 = Domain(['u', 'v', 'w'], [1, 5, 1])
df1 = pd.DataFrame({'u': np.zeros(20, dtype=int), 'v': prng.randint(0, 5, 20), 'w': np.zeros(20, dtype=int)})
case('size-one attrs', df1, dom1, full=True)
case('size-one attrs + w', df1, dom1, prng.rand(20), full=True)
case('single attr', df1, Domain(['v'], [5]), full=True)
case('single attr size one', df1, Domain(['u'], [1]), full=True)
case('all size one', df1, Domain(['w', 'u'], [1, 1]), prng.rand(20), full=True)

# 4. empty record set
empty = pd.DataFrame({'a': np.array([], dtype=int), 'b': np.array([], dtype=int), 'c': np.array([], dtype=int)})
case('empty', empty, dom, full=True)
case('empty+w', empty, dom, np.array([]), full=True)

# 5. one record at each corner of the domain
corners = pd.DataFrame(list(itertools.product([0, 1], [0, 2], [0, 3])), columns=['a', 'b', 'c'])
case('corners', corners, dom, full=True)
case('corners+w', corners, dom, np.arange(8) + 0.125, full=True)

# 6. random larger data sets, different dtypes
for i, shape in enumerate([(3, 4, 5, 2), (7,), (2, 2, 2, 2, 2, 2), (10, 1, 6), (1, 1, 9, 1)]):
    attrs = ['x%d' % j for j in range(len(shape))]
    d = Domain(attrs, shape)
    N = 500
    vals = np.array([prng.randint(0, n, N) for n in shape]).T
    frame = pd.DataFrame(vals, columns=attrs)
    wts = prng.exponential(1.0, N) * prng.choice([0.01, 1.0, 100.0], N)
    case('rand%d' % i, frame, d)
    case('rand%d+w' % i, frame, d, wts)
    case('rand%d int32' % i, frame.astype('int32'), d, wts)
    case('rand%d float' % i, frame.astype(float), d, wts)
    # reversed domain order, reversed frame
    rd = Domain(attrs[::-1], shape[::-1])
    case('rand%d reversed' % i, frame[attrs[::-1]], rd, wts)
    # projections through Dataset.project, in any order
    data = Dataset(frame, d, wts)
    for k in range(1, len(attrs) + 1):
        for cols in itertools.islice(itertools.permutations(attrs, k), 0, 200, 7):
            p = data.project(list(cols))
            v = p.datavector(flatten=False)
            ref = data.datavector(flatten=False)
            other = tuple(j for j, a in enumerate(attrs) if a not in cols)
            ref = ref.sum(axis=other)
            kept = [a for a in attrs if a in cols]
            ref = ref.transpose([kept.index(a) for a in cols])
            print('  proj', cols, digest(p.datavector()), bool(np.allclose(v, ref)))

# 7. Dataset.synthetic with a seeded global numpy generator
np.random.seed(7)
syn = Dataset.synthetic(Domain(['p', 'q', 'r'], [4, 1, 3]), 1000)
show('synthetic flat', syn.datavector(), True)
show('synthetic cube', syn.datavector(flatten=False))
show('synthetic proj', syn.project(['r', 'p']).datavector(), True)

# 8. results must be independent arrays (mutating one must not affect a second call)
data = Dataset(df, dom, w)
v1 = data.datavector()
v1[:] = -1
c1 = data.datavector(flatten=False)
c1[:] = -2
show('after mutation flat', data.datavector(), True)
show('after mutation cube', data.datavector(flatten=False))

# 9. out of range values fall outside every bin and are dropped
dfo = pd.DataFrame({'a': [0, 1, 2, -1, 1], 'b': [0, 3, 1, 1, 2], 'c': [0, 0, 0, 0, 4]})
case_data = Dataset(dfo, dom)
show('out-of-range flat', case_data.datavector(), True)
show('out-of-range weighted', Dataset(dfo, dom, np.array([1., 2., 3., 4., 5.])).datavector(), True)

# 10. error behaviour: weights of the wrong length are rejected by the constructor
try:
    Dataset(df, dom, np.ones(3))
    print('no error')
except AssertionError as e:
    print('AssertionError', repr(str(e)))

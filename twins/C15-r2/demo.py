"""Equivalence demo for refactor2 (Dataset.project / Dataset.drop / Dataset.records).

Prints a deterministic digest of projections of weighted and unweighted data sets.
Run with  PYTHONPATH=<worktree>/src  so that the worktree copy of mbi is used.
"""
import os
import sys
import itertools
import hashlib

ROOT = os.path.abspath(os.path.join(os.path.dirname(os.path.abspath(__file__)), '..', '..'))
sys.path.insert(0, os.path.join(ROOT, 'src'))

import numpy as np
import pandas as pd
from mbi import Dataset, Domain
import mbi.dataset

assert os.path.abspath(mbi.dataset.__file__).startswith(ROOT), mbi.dataset.__file__


def sha(arr):
    arr = np.ascontiguousarray(np.asarray(arr))
    return hashlib.sha256(arr.tobytes()).hexdigest()[:16]


def describe(tag, data, parent=None):
    vec = data.datavector()
    cube = data.datavector(flatten=False)
    print(tag)
    print('    domain      :', repr(data.domain), type(data.domain.attrs).__name__, data.domain.attrs, data.domain.shape)
    print('    df columns  :', list(data.df.columns), ' df shape:', data.df.shape, ' dtypes:', [str(t) for t in data.df.dtypes])
    print('    records     :', repr(data.records), type(data.records).__name__)
    print('    df sha      :', sha(data.df.values), ' index:', list(data.df.index[:5]))
    if data.weights is None:
        print('    weights     : None')
    else:
        print('    weights     : sha', sha(data.weights), 'sum', repr(float(data.weights.sum())))
    if parent is not None:
        print('    weights is parent weights:', data.weights is parent.weights)
    print('    vector      :', vec.shape, cube.shape, repr(float(vec.sum())), sha(vec))
    if vec.size <= 30:
        print('    vector full :', vec.tolist())


def attempt(tag, fn):
    try:
        out = fn()
        print(tag, '-> ok', type(out).__name__)
        return out
    except Exception as e:  # print type and message: must be the same before/after
        print(tag, '-> raised', type(e).__name__, repr(str(e))[:200])
        return None


def reference(data, cols):
    """ marginalise + transpose the full contingency table """
    attrs = list(data.domain.attrs)
    full = data.datavector(flatten=False)
    other = tuple(i for i, a in enumerate(attrs) if a not in cols)
    ref = full.sum(axis=other)
    kept = [a for a in attrs if a in cols]
    return ref.transpose([kept.index(a) for a in cols])


prng = np.random.RandomState(99)

attrs = ['age', 'sex', 'edu', 'one', 'zip']
shape = (5, 2, 4, 1, 3)
dom = Domain(attrs, shape)
N = 300
vals = np.array([prng.randint(0, n, N) for n in shape]).T
frame = pd.DataFrame(vals, columns=attrs)
frame['unused1'] = prng.randint(0, 50, N)
frame['unused2'] = 'text'
frame = frame[['unused2', 'zip', 'age', 'unused1', 'one', 'edu', 'sex']]   # shuffled, with extra columns
weights = prng.gamma(2.0, 1.0, N) * prng.choice([0.0, 1e-3, 1.0, 250.0], N)

plain = Dataset(frame, dom)
weighted = Dataset(frame, dom, weights)
describe('FULL plain', plain)
describe('FULL weighted', weighted)

# --- every projection tuple of length 1..3 and a sample of longer ones, in any order
for data, name in [(plain, 'plain'), (weighted, 'weighted')]:
    count = 0
    for k in range(1, len(attrs) + 1):
        perms = list(itertools.permutations(attrs, k))
        step = 1 if k <= 2 else 5
        for cols in perms[::step]:
            for kind in (list, tuple):
                p = data.project(kind(cols))
                ok = bool(np.allclose(p.datavector(flatten=False), reference(data, cols)))
                print('%s project %s %s: dom=%r cols=%s rec=%d w_same=%s vec=%s ok=%s' % (
                    name, kind.__name__, '/'.join(cols), p.domain, list(p.df.columns), p.records,
                    p.weights is data.weights, sha(p.datavector()), ok))
                count += 1
    print(name, 'projections checked:', count)

# --- single attribute given as a bare string, other argument spellings
describe('project("edu")', weighted.project('edu'), weighted)
describe('project(["edu"])', weighted.project(['edu']), weighted)
describe('project(("zip","age"))', weighted.project(('zip', 'age')), weighted)
describe('project(pd.Index)', weighted.project(pd.Index(['sex', 'zip'])), weighted)
describe('project(np.array)', weighted.project(np.array(['one', 'age'])), weighted)
describe('project(domain obj)', weighted.project(Domain(['zip', 'sex'], [3, 2])), weighted)
describe('project(project)', weighted.project(['zip', 'edu', 'age']).project(['age', 'zip']), weighted)
describe('project(all reversed)', weighted.project(attrs[::-1]), weighted)

# --- drop, with several argument spellings
describe('drop(["age"])', weighted.drop(['age']), weighted)
describe('drop(("zip","sex"))', weighted.drop(('zip', 'sex')), weighted)
describe('drop({"one","edu"})', weighted.drop({'one', 'edu'}), weighted)
describe('drop([])', weighted.drop([]), weighted)
describe('drop("age") (substring semantics)', weighted.drop('age'), weighted)
describe('drop("sexage...") (substring semantics)', weighted.drop('sex,age'), weighted)
describe('drop(unknown)', weighted.drop(['nope']), weighted)
describe('drop(domain)', weighted.drop(Domain(['zip'], [3])), weighted)
describe('drop then project', weighted.drop(['one']).project(['zip', 'sex']), weighted)
attempt('drop(all).datavector', lambda: weighted.drop(attrs).datavector())

# --- the source data set is left untouched by project / drop
describe('FULL weighted (after projections)', weighted)
print('weights object unchanged:', sha(weights) == sha(weighted.weights), weighted.weights is weights)

# --- integer attribute names (project accepts a bare int)
idom = Domain([0, 1, 2], [3, 1, 4])
iframe = pd.DataFrame({2: prng.randint(0, 4, 40), 0: prng.randint(0, 3, 40), 1: np.zeros(40, dtype=int), 7: np.arange(40)})
iw = prng.rand(40)
idata = Dataset(iframe, idom, iw)
describe('int attrs full', idata)
describe('int attrs project(2)', idata.project(2), idata)
describe('int attrs project([2,0])', idata.project([2, 0]), idata)
describe('int attrs project((1,))', idata.project((1,)), idata)
describe('int attrs drop([1])', idata.drop([1]), idata)
describe('int attrs drop((0,2))', idata.drop((0, 2)), idata)
attempt('int attrs project(np.int64(2))', lambda: idata.project(np.int64(2)))
attempt('int attrs project(True)', lambda: idata.project(True))
attempt('int attrs drop(1)', lambda: idata.drop(1))

# --- empty record set and duplicates / boundary values
edom = Domain(['a', 'b', 'c'], [2, 1, 3])
empty = pd.DataFrame({'c': np.array([], dtype=int), 'a': np.array([], dtype=int), 'b': np.array([], dtype=int)})
for w in (None, np.array([])):
    e = Dataset(empty, edom, w)
    describe('empty full', e)
    describe('empty project c,a', e.project(['c', 'a']), e)
    describe('empty project "b"', e.project('b'), e)
    describe('empty drop a', e.drop(['a']), e)
dup = pd.DataFrame({'a': [1, 1, 1, 0, 0, 1], 'b': [0, 0, 0, 0, 0, 0], 'c': [2, 2, 2, 0, 0, 2]})
dw = np.array([1.0, 2.0, 4.0, 8.0, 16.0, 32.0])
d = Dataset(dup, edom, dw)
describe('dup full', d)
describe('dup project c', d.project('c'), d)
describe('dup project c,a', d.project(['c', 'a']), d)
describe('dup project b,c,a', d.project(('b', 'c', 'a')), d)
describe('dup drop c', d.drop(['c']), d)

# --- error behaviour (type and message must be preserved)
attempt('project(missing)', lambda: weighted.project(['age', 'nope']))
attempt('project("nope")', lambda: weighted.project('nope'))
attempt('project(unused column)', lambda: weighted.project(['unused1']))
attempt('project(12)', lambda: weighted.project(12))
attempt('project(None)', lambda: weighted.project(None))
attempt('project(3.5)', lambda: weighted.project(3.5))
attempt('project([])', lambda: weighted.project([]))
attempt('project([]).datavector', lambda: weighted.project([]).datavector())
attempt('project(dup cols)', lambda: weighted.project(['age', 'age']))
attempt('project(dup cols).datavector', lambda: weighted.project(['age', 'age']).datavector())
attempt('project(generator)', lambda: weighted.project(a for a in ['zip', 'age']))
attempt('drop(None)', lambda: weighted.drop(None))
attempt('drop(5)', lambda: weighted.drop(5))

# --- Dataset.synthetic + project with the seeded global generator
np.random.seed(2024)
syn = Dataset.synthetic(Domain(['p', 'q', 'r', 's'], [3, 1, 2, 4]), 200)
describe('synthetic', syn)
describe('synthetic project s,p', syn.project(['s', 'p']), syn)
describe('synthetic drop q,s', syn.drop(['q', 's']), syn)

"""Equivalence demo for refactor3 (Domain algebra: marginalize / merge / contains / size).

Prints a deterministic digest of the results of the Domain operations on many domains.
Run with  PYTHONPATH=<worktree>/src  so that the worktree copy of mbi is used.
"""
import os
import sys
import itertools

ROOT = os.path.abspath(os.path.join(os.path.dirname(os.path.abspath(__file__)), '..', '..'))
sys.path.insert(0, os.path.join(ROOT, 'src'))

import numpy as np
import pandas as pd
from mbi import Dataset, Domain
import mbi.domain

assert os.path.abspath(mbi.domain.__file__).startswith(ROOT), mbi.domain.__file__


def fmt(x):
    """ exact, type-revealing rendering of a result """
    if isinstance(x, Domain):
        return 'Domain<attrs=%s:%r shape=%s:%r config=%r>' % (
            type(x.attrs).__name__, x.attrs, type(x.shape).__name__,
            tuple((type(s).__name__, int(s)) for s in x.shape), list(x.config.items()))
    if isinstance(x, (list, tuple)):
        return '%s%r' % (type(x).__name__, x)
    return '%s:%r' % (type(x).__name__, x)


def attempt(tag, fn):
    try:
        print(tag, '=>', fmt(fn()))
    except Exception as e:
        print(tag, '=> raised', type(e).__name__, repr(str(e))[:160])


def exercise(name, dom, arglists):
    print('=' * 10, name, fmt(dom))
    print('repr/str :', repr(dom), '|', str(dom), '| len', len(dom), '| iter', list(dom))
    attempt('size()', lambda: dom.size())
    attempt('size(None)', lambda: dom.size(None))
    attempt('size([])', lambda: dom.size([]))
    attempt('size(())', lambda: dom.size(()))
    attempt('sort(size)', lambda: dom.sort('size'))
    attempt('sort()', lambda: dom.sort())
    attempt('sort(name)', lambda: dom.sort('name'))
    attempt('sort(bogus)', lambda: dom.sort('bogus'))
    for a in dom:
        attempt('size(%r)' % (a,), lambda: dom.size(a))
        attempt('[%r] / in' % (a,), lambda: (dom[a], a in dom))
    for args in arglists:
        tag = repr(args) if not isinstance(args, Domain) else 'Domain' + repr(args.attrs)
        attempt('project(%s)' % tag, lambda: dom.project(args))
        attempt('transpose(%s)' % tag, lambda: dom.transpose(args))
        attempt('marginalize(%s)' % tag, lambda: dom.marginalize(args))
        attempt('invert(%s)' % tag, lambda: dom.invert(args))
        attempt('canonical(%s)' % tag, lambda: dom.canonical(args))
        attempt('axes(%s)' % tag, lambda: dom.axes(args))
        attempt('size(%s)' % tag, lambda: dom.size(args))


def laws(dom, others):
    """ set / product laws, printed as booleans """
    attrs = list(dom.attrs)
    for k in range(len(attrs) + 1):
        for sub in itertools.combinations(attrs, k):
            for cols in ([sub] if sub == sub[::-1] else [sub, sub[::-1]]):
                cols = list(cols)
                m = dom.marginalize(cols)
                p = dom.project(cols)
                inv = dom.invert(cols)
                ok = [
                    list(m.attrs) == inv,
                    set(m.attrs) | set(cols) == set(attrs),
                    not (set(m.attrs) & set(cols)),
                    m.size() * p.size() == dom.size(),
                    dom.size(cols) == p.size(),
                    p.merge(m).size() == dom.size(),
                    set(p.merge(m).attrs) == set(attrs),
                    p.merge(m).sort('name') == dom.sort('name'),
                    dom.contains(p) and dom.contains(m),
                    dom.project(dom.canonical(cols)) == dom.marginalize(inv),
                    m.merge(dom) == Domain(m.attrs + tuple(a for a in attrs if a not in m.attrs),
                                           m.shape + tuple(dom[a] for a in attrs if a not in m.attrs)),
                ]
                print('laws %-22s marg=%s inv=%s merge=%s size=%d*%d %s' % (
                    cols, m, inv, p.merge(m), p.size(), m.size(), ''.join('T' if o else 'F' for o in ok)))
    for o in others:
        attempt('merge(%r)' % (o.attrs,), lambda: dom.merge(o))
        attempt('rmerge(%r)' % (o.attrs,), lambda: o.merge(dom))
        attempt('contains(%r)' % (o.attrs,), lambda: dom.contains(o))
        attempt('rcontains(%r)' % (o.attrs,), lambda: o.contains(dom))
        attempt('merge.size(%r)' % (o.attrs,), lambda: dom.merge(o).size())
        attempt('marginalize(Domain %r)' % (o.attrs,), lambda: dom.marginalize(o))
        attempt('eq(%r)' % (o.attrs,), lambda: dom == o)


abc = Domain(['a', 'b', 'c'], [2, 3, 4])
arglists = [[], (), ['a'], ('c',), 'b', ['c', 'a'], ('b', 'a', 'c'), ['c', 'b', 'a'], {'a'}, ['a', 'a'],
            ['zz'], ['a', 'zz'], 'ab', 'abc', '', None, 3, Domain(['c', 'a'], [4, 2]), {'a': 1, 'b': 2}.keys(), pd.Index(['b', 'c']),
            np.array(['c', 'a'])]
exercise('abc', abc, arglists)

ones = Domain(('u', 'v', 'w', 'x'), (1, 5, 1, 5))          # sizes of one, ties for sort
exercise('ones', ones, [['u'], ['x', 'v'], ('w', 'u'), ['x', 'w', 'v', 'u'], 'v'])

single = Domain(['only'], [7])
exercise('single', single, [['only'], 'only', [], 'on', ['nope']])

empty = Domain([], [])
exercise('empty', empty, [[], (), ['a'], 'a'])

ints = Domain([0, 1, 2], [3, 1, 4])                          # integer attribute names
exercise('ints', ints, [[0], (2, 0), [1, 2, 0], 1, [5], {2}])

tup = Domain([('a', 'b'), 'c'], [6, 2])                       # tuple as an attribute name
exercise('tuple-named', tup, [[('a', 'b')], ['c', ('a', 'b')], ('a', 'b'), 'c'])

npdom = Domain(np.array(['p', 'q', 'r']), np.array([4, 1, 3]))   # numpy containers / numpy ints
exercise('numpy', npdom, [['r', 'p'], 'q', ('q', 'r', 'p'), []])

np32 = Domain(['s', 't'], np.array([70000, 70000], dtype=np.int32))   # product overflows int32
exercise('np-int32', np32, [['t'], ['t', 's']])

big = Domain(['x%02d' % i for i in range(40)], [10 + i for i in range(40)])   # python big ints
attempt('big size()', lambda: big.size())
attempt('big size(half)', lambda: big.size(big.attrs[::2]))
attempt('big sort(size) of reversed', lambda: big.project(big.attrs[::-1]).sort('size') == big)
attempt('big marginalize', lambda: big.marginalize(big.attrs[3:]))
attempt('big merge', lambda: big.project(big.attrs[5:10]).merge(big.project(big.attrs[8:12][::-1])))

floaty = Domain(['f', 'g'], [2.0, 3])                          # non integer sizes
exercise('float-sizes', floaty, [['g'], ['g', 'f']])

dupl = Domain(['a', 'a', 'b'], [2, 5, 3])                      # duplicate attribute names
exercise('duplicate-names', dupl, [['a'], ['b', 'a'], ['b']])

fd = Domain.fromdict({'m': 3, 'k': 2, 'l': 1})
exercise('fromdict', fd, [['l', 'm'], 'k'])

others = [Domain(['b', 'c'], [3, 4]), Domain(['c', 'd'], [4, 5]), Domain(['d', 'e'], [5, 1]), Domain(['c', 'a', 'b'], [4, 2, 3]),
          Domain([], []), Domain(['a'], [2]), Domain(['b', 'z', 'a', 'y'], [3, 9, 2, 8]),
          Domain(['a', 'd'], [99, 5]),       # conflicting size for the shared attribute a
          Domain(['d', 'd', 'a'], [5, 6, 2]),  # duplicate names in other
          ints, tup, npdom, floaty]
for name, dom in [('abc', abc), ('ones', ones), ('single', single), ('empty', empty), ('ints', ints), ('numpy', npdom), ('fromdict', fd), ('dupl', dupl)]:
    print('=' * 10, 'laws', name)
    laws(dom, others)

# merge / contains with something that is not a Domain
attempt('merge(None)', lambda: abc.merge(None))
attempt('merge(list)', lambda: abc.merge(['a', 'b']))
attempt('contains(None)', lambda: abc.contains(None))
attempt('contains(unhashable names)', lambda: abc.contains(Domain([['l']], [2])))
attempt('unhashable.contains', lambda: Domain([['l']], [2]).contains(abc))
attempt('marginalize(5)', lambda: abc.marginalize(5))
attempt('merge chain', lambda: abc.merge(others[1]).merge(others[2]).merge(ones))
attempt('merge chain size', lambda: abc.merge(others[1]).merge(others[2]).merge(ones).size())
attempt('merge is new object', lambda: (abc.merge(abc) is abc, abc.merge(abc) == abc, abc.marginalize([]) is abc, abc.marginalize([]) == abc))
print('abc unchanged:', fmt(abc))

# random domains: merge / marginalize / size / contains against set arithmetic
prng = np.random.RandomState(5)
pool = ['k%d' % i for i in range(9)]
sizes = dict((a, int(prng.choice([1, 2, 3, 7]))) for a in pool)
for trial in range(40):
    A = [str(a) for a in prng.permutation(pool)[:prng.randint(0, 7)]]
    B = [str(a) for a in prng.permutation(pool)[:prng.randint(0, 7)]]
    dA = Domain(A, [sizes[a] for a in A])
    dB = Domain(B, [sizes[a] for a in B])
    M = dA.merge(dB)
    print('rand', trial, fmt(M), 'size', M.size(), 'A.marg(B)', dA.marginalize(B), 'B.marg(A)', dB.marginalize(A),
          'contains', dA.contains(dB), dB.contains(dA), M.contains(dA), M.contains(dB),
          'sorted', M.sort('size').attrs, M.sort('name').attrs,
          'sizes', dA.size(), dB.size(), dA.size(dA.canonical(B)), 'axes', M.axes(B), M.canonical(B))

# the dataset level view: projection commutes with marginalising + transposing the table
dom = Domain(['a', 'b', 'c', 'd'], [2, 3, 1, 4])
N = 200
frame = pd.DataFrame(np.array([prng.randint(0, n, N) for n in dom.shape]).T, columns=dom.attrs)
w = prng.rand(N) * 10
data = Dataset(frame, dom, w)
full = data.datavector(flatten=False)
for k in range(1, 5):
    for cols in itertools.permutations(dom.attrs, k):
        out = dom.marginalize(cols).attrs
        ref = full.sum(axis=dom.axes(out))
        kept = dom.canonical(cols)
        ref = ref.transpose([kept.index(a) for a in cols])
        vec = data.project(cols).datavector(flatten=False)
        print('data', ''.join(cols), 'out', out, vec.shape, dom.size(cols), repr(round(float(vec.sum()), 9)),
              bool(np.allclose(vec, ref)), [round(float(x), 6) for x in vec.flatten()[:4]])

"""
Pair 1 demo -- RegionGraph(convex=False).belief_propagation over HISTORIES of calls.

Property clause exercised: the messages of a RegionGraph persist between calls (warm
start), and on a clique set that satisfies the running-intersection property the
generalised propagation must return the exact marginals of exp(sum of potentials) for
EVERY call of a history (the object is re-used with new potentials by
LocalInference.mirror_descent_auto), not only for the first call on a fresh object.
Pseudo-marginals must always be finite, nonnegative and sum to the total.

exit 0 + PASS + digest : all checks hold
exit 1 + FAIL          : some call of some history returned wrong marginals
"""
import os, sys

# set iteration order of the region set decides which redundant edge the minimal region
# graph keeps; pin the hash seed so the printed digest is reproducible
if os.environ.get('PYTHONHASHSEED') != '0':
    env = dict(os.environ, PYTHONHASHSEED='0')
    os.execve(sys.executable, [sys.executable] + sys.argv, env)

ROOT = os.path.dirname(os.path.dirname(os.path.dirname(os.path.abspath(__file__))))
sys.path.insert(0, os.path.join(ROOT, 'src'))

import warnings
warnings.filterwarnings('ignore')
import hashlib
import numpy as np
from scipy.special import logsumexp as sp_logsumexp
import mbi
from mbi import Domain, Factor, CliqueVector, RegionGraph

assert os.path.abspath(mbi.__file__).startswith(os.path.abspath(ROOT)), mbi.__file__


def brute_force(domain, potentials, total):
    """ exact marginals of total * softmax(sum of potentials), numpy only """
    attrs = list(domain.attrs)
    logp = np.zeros(domain.shape)
    for cl, f in potentials.items():
        vals = f.values
        src = list(f.domain.attrs)
        order = sorted(range(len(src)), key=lambda i: attrs.index(src[i]))
        vals = np.transpose(vals, order)
        shape = [domain.config[a] if a in src else 1 for a in attrs]
        logp = logp + vals.reshape(shape)
    logp = logp - sp_logsumexp(logp)
    P = total * np.exp(logp)
    out = {}
    for cl in potentials:
        drop = tuple(i for i, a in enumerate(attrs) if a not in cl)
        m = P.sum(axis=drop)
        rest = [a for a in attrs if a in cl]
        m = np.transpose(m, [rest.index(a) for a in cl])
        out[cl] = m
    return out


def draw(rs, domain, model, maximal, scale):
    """ random potentials on the maximal cliques, zero on the inner regions """
    pot = {}
    for r in sorted(model.cliques):
        dom = domain.project(r)
        if r in maximal:
            pot[r] = Factor(dom, scale * rs.randn(*dom.shape))
        else:
            pot[r] = Factor.zeros(dom)
    return CliqueVector(pot)


def check(model, mu, potentials, total, exact):
    """ returns (list of violated clauses, flat vector of marginals) """
    bad = []
    flat = []
    ref = brute_force(model.domain, potentials, total) if exact else None
    worst = 0.0
    for r in sorted(model.cliques):
        vals = mu[r].transpose(r).values
        flat.append(vals.flatten())
        if not np.all(np.isfinite(vals)): bad.append('non-finite')
        elif vals.min() < 0: bad.append('negative')
        elif abs(vals.sum() - total) > 1e-8 * total: bad.append('does not sum to total')
        if exact and np.all(np.isfinite(vals)):
            worst = max(worst, np.abs(vals - ref[r]).max() / total)
    if exact and worst > 1e-7:
        bad.append('not exact (max abs err / total = %.2e)' % worst)
    return sorted(set(bad)), np.concatenate(flat)


RIP = [
    ('pair',    [('A','B'),('B','C')]),
    ('chain2',  [('A','B'),('B','C'),('C','D')]),
    ('chain3',  [('A','B','C'),('B','C','D'),('C','D','E')]),
    ('star3',   [('A','B','C'),('A','B','D'),('A','B','E')]),
    ('mixed',   [('A','B','C'),('C','D'),('D','E','F'),('C','G')]),
    ('jt2',     [('A','B','C'),('B','C','D'),('B','D','E'),('E','F')]),
    ('deep',    [('X','A','B','C','D'),('X','A','C','P'),('X','B','D','Q'),('X','A','R'),('X','B','S')]),
    ('forest',  [('A','B'),('B','C'),('D','E')]),
]
LOOPY = [
    ('triangle', [('A','B'),('B','C'),('A','C')]),
    ('square',   [('A','B'),('B','C'),('C','D'),('A','D')]),
    ('k4',       [('A','B','C'),('A','B','D'),('A','C','D'),('B','C','D')]),
]

failures = []
digest = hashlib.sha256()
lines = []

def record(tag, bad, flat):
    digest.update(np.round(flat, 8).tobytes())
    h = hashlib.sha256(np.round(flat, 8).tobytes()).hexdigest()[:12]
    lines.append('%-44s %s %s' % (tag, 'ok ' if not bad else 'BAD', h))
    if bad:
        failures.append('%s: %s' % (tag, '; '.join(bad)))

seed = 0
for kind, sets in (('rip', RIP), ('loopy', LOOPY)):
    for name, cliques in sets:
        attrs = sorted(set(a for c in cliques for a in c))
        sizes = [2 + (i % 2) for i in range(len(attrs))]
        domain = Domain(attrs, sizes)
        for minimal in (True, False):
            seed += 1
            rs = np.random.RandomState(seed)
            total = [1.0, 10.0, 250.0][seed % 3]

            # history 1: one object, three calls, new potentials every call
            model = RegionGraph(domain, cliques, total=total, minimal=minimal, convex=False, iters=70)
            for call, scale in enumerate([1.0, 2.0, 0.5]):
                pot = draw(rs, domain, model, cliques, scale)
                mu = model.belief_propagation(pot)
                bad, flat = check(model, mu, pot, total, exact=(kind == 'rip'))
                record('%s/%s/minimal=%s/fresh-pot call %d' % (kind, name, minimal, call + 1), bad, flat)

            # history 2: one sweep per call (the LocalInference default inner_iters=1); the
            # sweeps accumulate in the persisted messages: 80 calls with theta1, then 80 with theta2
            model = RegionGraph(domain, cliques, total=total, minimal=minimal, convex=False, iters=1)
            for phase in (1, 2):
                pot = draw(rs, domain, model, cliques, 1.5)
                for _ in range(80):
                    mu = model.belief_propagation(pot)
                bad, flat = check(model, mu, pot, total, exact=(kind == 'rip'))
                record('%s/%s/minimal=%s/1-sweep calls, theta%d' % (kind, name, minimal, phase), bad, flat)

            # history 3: the same potentials again after a different call must give the same answer
            if kind == 'rip':
                model = RegionGraph(domain, cliques, total=total, minimal=minimal, convex=False, iters=70)
                potA = draw(rs, domain, model, cliques, 1.0)
                potB = draw(rs, domain, model, cliques, 1.0)
                first = model.belief_propagation(potA)
                model.belief_propagation(potB)
                again = model.belief_propagation(potA)
                bad, flat = check(model, again, potA, total, exact=True)
                record('%s/%s/minimal=%s/A,B,A history' % (kind, name, minimal), bad, flat)

for l in lines:
    print(l)
if failures:
    print('FAIL: %d of %d checked calls violate the property' % (len(failures), len(lines)))
    for f in failures[:12]:
        print('   ', f)
    print('Explanation: the marginals returned by a later call of a history (same RegionGraph object,')
    print('new potentials) are not the exact marginals of the potentials passed to THAT call on a')
    print('running-intersection clique set; the first call on a fresh object is still right.')
    sys.exit(1)
print('PASS', len(lines), 'calls checked, digest', digest.hexdigest())
sys.exit(0)

#!/usr/bin/env python
"""C16 / round 7 / pair 2 -- Factor.__add__ / Factor.__mul__ fast path (src/mbi/factor.py),
observed through the two approximate oracles.

Clause exercised: exactness on acyclic structures --
  * RegionGraph(convex=False): generalised BP returns the exact marginals when the clique
    set satisfies the running-intersection property, for EVERY way of writing the cliques
    (attribute order inside a clique tuple is arbitrary: the library is name based);
  * FactorGraph(convex=False): loopy BP is exact on tree factor graphs, also when a
    potential's Factor lists the clique's attributes in another order than the clique key.
Normalisation (finite, >= 0, sums to total) is checked on every case as well.

The reference marginals are computed with plain numpy, not with Factor arithmetic.

exit 0 + "PASS <digest>" / exit 1 + "FAIL ..."
"""
import os, sys, hashlib, warnings

if os.environ.get('PYTHONHASHSEED') != '0':           # set iteration order -> float summation order
    os.environ['PYTHONHASHSEED'] = '0'
    os.execv(sys.executable, [sys.executable] + sys.argv)

ROOT = os.path.dirname(os.path.dirname(os.path.dirname(os.path.abspath(__file__))))
sys.path.insert(0, os.path.join(ROOT, 'src'))
warnings.simplefilter('ignore')

import numpy as np
import mbi
from mbi import Domain, Factor, CliqueVector, RegionGraph, FactorGraph

if not os.path.abspath(mbi.__file__).startswith(os.path.join(ROOT, 'src')):
    print('ERROR: mbi imported from', mbi.__file__, 'instead of', ROOT)
    sys.exit(2)


# ---- brute force reference, plain numpy (no Factor arithmetic) ---------------------
def joint(dom, pots):
    attrs = list(dom.attrs)
    logp = np.zeros(dom.shape)
    for f in pots.values():
        a = f.domain.attrs
        order = sorted(range(len(a)), key=lambda i: attrs.index(a[i]))
        v = np.transpose(f.values, order)
        logp = logp + v.reshape([dom.config[x] if x in a else 1 for x in attrs])
    p = np.exp(logp - logp.max())
    return p / p.sum()

def marginal(dom, p, out):
    attrs = list(dom.attrs)
    m = p.sum(axis=tuple(i for i, x in enumerate(attrs) if x not in out))
    rem = [x for x in attrs if x in out]
    return np.transpose(m, [rem.index(x) for x in out])


MIXED = Domain(list('ABCDEFG'), [2, 3, 2, 3, 2, 4, 3])      # all sorts of sizes
EQUAL = Domain(list('ABCDEFG'), [3, 3, 3, 3, 3, 3, 3])      # every attribute has 3 values
PAIRS = Domain(list('ABCDEFG'), [2, 3, 2, 3, 4, 4, 2])      # |A|=|C|=|G|=2, |B|=|D|=3, |E|=|F|=4

# junction-tree-structured clique sets, written with sorted and with unsorted attribute order
RG_CASES = [
    ('sorted/mixed',     MIXED, [('A', 'B', 'C'), ('A', 'C', 'D'), ('D', 'E')]),
    ('sorted/equal',     EQUAL, [('A', 'B', 'C', 'D'), ('A', 'B', 'E'), ('B', 'C', 'F')]),
    ('unsorted/equal-1', EQUAL, [('C', 'A', 'B'), ('A', 'C', 'D')]),
    ('unsorted/equal-2', EQUAL, [('C', 'B', 'A'), ('D', 'C', 'A'), ('E', 'A')]),
    ('unsorted/equal-3', EQUAL, [('D', 'C', 'B', 'A'), ('B', 'A', 'E'), ('F', 'C', 'B'), ('G', 'B')]),
    ('unsorted/pairs',   PAIRS, [('C', 'B', 'A'), ('A', 'D', 'C'), ('G', 'C', 'A', 'F')]),
    ('unsorted/mixed',   MIXED, [('C', 'A', 'B'), ('D', 'C', 'A'), ('E', 'D')]),
]

# tree factor graphs; 'perm' lists cliques whose potential is stored with reversed attribute order
FG_CASES = [
    ('tree/mixed',        MIXED, [('A', 'B'), ('B', 'C', 'D'), ('D', 'E'), ('D', 'F'), ('A', 'G'), ('G',)], []),
    ('tree/equal',        EQUAL, [('A', 'B'), ('B', 'C'), ('C', 'D', 'E'), ('E',), ('B', 'F')], []),
    ('tree/equal/perm',   EQUAL, [('A', 'B'), ('B', 'C'), ('C', 'D', 'E'), ('E',), ('B', 'F')],
                                 [('A', 'B'), ('C', 'D', 'E')]),
    ('tree/pairs/perm',   PAIRS, [('A', 'C'), ('C', 'B'), ('B', 'D'), ('E', 'F'), ('F', 'A')],
                                 [('A', 'C'), ('B', 'D'), ('E', 'F')]),
]


def check(tag, dom, cliques, pots, mu, total, lines):
    sub = dom.project([a for a in dom.attrs if any(a in c for c in cliques)])
    p = joint(sub, pots) * total
    for r in sorted(mu.keys()):
        v = mu[r].values
        if not np.isfinite(v).all() or (v < 0).any() or abs(v.sum() - total) > 1e-9 * total:
            return 'FAIL %s: marginal %s is not a finite, nonnegative table summing to %r' % (tag, (r,), total)
        if set(mu[r].domain.attrs) != set(r):
            return 'FAIL %s: marginal %s is defined over %s' % (tag, (r,), mu[r].domain.attrs)
        err = np.abs(v - marginal(sub, p, mu[r].domain.attrs)).max()
        if err > 1e-7 * total:
            return ('FAIL %s: marginal %s differs from the exact marginal by %.3g '
                    '(acyclic structure: propagation must be exact)' % (tag, (r,), err))
    for r in sorted(mu.keys()):
        f = mu[r]
        vals = np.round(f.transpose(tuple(sorted(f.domain.attrs))).values.flatten(), 7) + 0.0
        lines.append('%s %s %s' % (tag, ''.join(sorted(r)), ' '.join('%.7f' % x for x in vals)))
    return None


def region_graph_case(name, dom, cliques, minimal, seed, lines):
    rng = np.random.RandomState(seed)
    total = 50.0
    rg = RegionGraph(dom, cliques, total, minimal=minimal, convex=False, iters=60)
    pots = {}
    for r in rg.cliques:
        d = dom.project(r)
        pots[r] = Factor(d, rng.normal(size=d.shape)) if r in cliques else Factor.zeros(d)
    pots = CliqueVector(pots)
    mu = rg.belief_propagation(pots)
    return check('RegionGraph %s minimal=%s' % (name, minimal), dom, cliques, pots, mu, total, lines)


def factor_graph_case(name, dom, cliques, perm, seed, lines):
    rng = np.random.RandomState(seed)
    total = 8.0
    fg = FactorGraph(dom, cliques, total, convex=False, iters=len(cliques) + 3)
    pots = {}
    for cl in cliques:
        attrs = tuple(reversed(cl)) if cl in perm else cl
        d = dom.project(attrs)
        pots[cl] = Factor(d, rng.normal(size=d.shape))
    pots = CliqueVector(pots)
    mu = fg.belief_propagation(pots)
    return check('FactorGraph %s' % name, dom, cliques, pots, mu, total, lines)


def main():
    lines = []
    seed = 100
    jobs = []
    for name, dom, cliques in RG_CASES:
        for minimal in (True, False):
            seed += 1
            jobs.append((('RegionGraph', name, minimal), region_graph_case, (name, dom, cliques, minimal, seed, lines)))
    for name, dom, cliques, perm in FG_CASES:
        seed += 1
        jobs.append((('FactorGraph', name), factor_graph_case, (name, dom, cliques, perm, seed, lines)))
    for ident, fn, args in jobs:
        try:
            msg = fn(*args)
        except Exception as e:                # a crash is a failure, too
            msg = 'FAIL %s: raised %r' % (' '.join(map(str, ident)), e)
        if msg:
            print(msg)
            print('  -> clique tuples / potential tables may list their attributes in any order; on a')
            print('     junction-tree-structured clique set (resp. tree factor graph) the oracle must')
            print('     return the exact marginals of the model defined by the potentials.')
            return 1
    digest = hashlib.sha256('\n'.join(lines).encode()).hexdigest()
    print('PASS %d marginals checked, digest %s' % (len(lines), digest))
    return 0


if __name__ == '__main__':
    sys.exit(main())

"""C16 / round 8 / pair 1 -- direct-parent (Hasse) edges of the region graph.

Clause exercised: "when the clique set already satisfies the running-intersection
property, generalised (region-graph) propagation returns the exact marginals"
(plus the normalisation clause on every input).

For a list of clique sets (all of them junction-tree structured, some with cliques
of mixed sizes) the demo
  * compares the parents the engine wired up with the covering relation of the
    region poset computed by brute force,
  * runs RegionGraph(..., convex=False).belief_propagation and compares every
    returned pseudo-marginal with the marginal of the explicitly materialised joint
    distribution,
  * checks finiteness / nonnegativity / sum == total (also on two loopy clique sets).
Exit status 0 and a digest on success, 1 and an explanation otherwise.
"""
import os, sys

if os.environ.get('PYTHONHASHSEED') != '0':
    # set iteration order of tuples of str is hash dependent; pin it so that the
    # digest is reproducible from run to run
    env = dict(os.environ, PYTHONHASHSEED='0')
    os.execve(sys.executable, [sys.executable] + sys.argv, env)

ROOT = os.path.dirname(os.path.dirname(os.path.dirname(os.path.abspath(__file__))))
sys.path.insert(0, os.path.join(ROOT, 'src'))

import hashlib
import warnings
warnings.simplefilter('ignore')
import numpy as np
import mbi
from mbi import Domain, Factor, CliqueVector, RegionGraph

assert os.path.abspath(mbi.__file__).startswith(os.path.join(ROOT, 'src')), mbi.__file__

TOTAL = 40.0
TOL = 1e-8

# name, cliques, exact?  (exact == junction-tree structured)
CASES = [
    ('pairwise chain',      [('A','B'),('B','C'),('C','D'),('D','E')], True),
    ('triple chain',        [('A','B','C'),('B','C','D'),('C','D','E')], True),
    ('star, 4 levels',      [('A','B','C','D'),('A','B','D','X'),('A','C','D','Y'),('B','C','D','Z')], True),
    ('fan',                 [('A','B','C'),('A','B','D'),('A','B','E'),('A','F')], True),
    ('mixed sizes, flat',   [('A','B'),('B','C','D'),('C','D','E'),('E','F')], True),
    ('mixed sizes, nested 1', [('A','B','C'),('A','B','G'),('B','D','E','F')], True),
    ('mixed sizes, nested 2', [('A','B','C'),('A','C','D'),('G','E','C','F')], True),
    ('mixed sizes, nested 3', [('A','B','C','D'),('E','F','B'),('E','B','G','H'),('I','J','F')], True),
    ('loop of pairs',       [('A','B'),('B','C'),('C','D'),('A','D')], False),
    ('loopy, mixed sizes',  [('A','B','C'),('B','C','D'),('A','D'),('D','E','F','B')], False),
]


def brute_covers(regions):
    regions = list(regions)
    ans = {}
    for r in regions:
        above = [s for s in regions if set(r) < set(s)]
        ans[r] = set(s for s in above if not any(set(t) < set(s) for t in above))
    return ans


def joint_marginals(domain, potentials, total, cliques):
    logp = sum(potentials[c] for c in potentials)
    logp = logp + (np.log(total) - logp.logsumexp())
    P = logp.exp()
    return {c: P.project(c) for c in cliques}


def run_case(name, cliques, is_exact, minimal, rng, digest):
    attrs = sorted(set(a for c in cliques for a in c))
    domain = Domain(attrs, [2 + (i % 2) for i in range(len(attrs))])
    engine = RegionGraph(domain, cliques, total=TOTAL, convex=False,
                         minimal=minimal, iters=120)
    problems = []

    # potentials live on the maximal cliques only (the regime in which GBP is exact)
    pots = {}
    for r in engine.cliques:
        dom = domain.project(r)
        vals = rng.standard_normal(dom.shape) if r in cliques else np.zeros(dom.shape)
        pots[r] = Factor(dom, vals)
    pots = CliqueVector(pots)

    if not minimal:
        # before pruning: the wired parents must be the covering relation
        want = brute_covers(engine.regions)
        for r in sorted(engine.regions):
            got = set(engine.parents[r])
            if got != want[r]:
                problems.append('region %s: parents %s, covering relation says %s'
                                % (r, sorted(got), sorted(want[r])))

    mu = engine.belief_propagation(pots)
    worst = 0.0
    truth = joint_marginals(domain, pots, TOTAL, engine.cliques) if is_exact else None
    for r in engine.cliques:
        v = mu[r].values
        if not np.isfinite(v).all() or (v < 0).any():
            problems.append('marginal %s not finite/nonnegative' % (r,))
        if abs(v.sum() - TOTAL) > 1e-6:
            problems.append('marginal %s sums to %r, not %r' % (r, float(v.sum()), TOTAL))
        if is_exact:
            err = float(np.abs(mu[r].transpose(truth[r].domain.attrs).values - truth[r].values).max())
            worst = max(worst, err)
            if err > TOL:
                problems.append('marginal %s differs from the true marginal by %.3g' % (r, err))
        digest.update(repr(r).encode())
        digest.update(np.ascontiguousarray(v).tobytes())
    return worst, len(engine.regions), problems


def main():
    rng = np.random.default_rng(20240816)
    digest = hashlib.sha256()
    failures = []
    for name, cliques, is_exact in CASES:
        for minimal in (True, False):
            worst, nreg, problems = run_case(name, cliques, is_exact, minimal, rng, digest)
            tag = 'minimal' if minimal else 'saturated'
            status = 'ok' if not problems else 'VIOLATION'
            what = ('max|err|<=%g' % TOL) if is_exact else 'normalised'
            print('%-22s %-9s regions=%2d  %-16s %s' % (name, tag, nreg, what, status))
            for p in problems:
                failures.append('%s [%s]: %s' % (name, tag, p))
    if failures:
        print('FAIL: generalised belief propagation is not exact / normalised:')
        for f in failures:
            print('   ' + f)
        sys.exit(1)
    print('PASS digest=' + digest.hexdigest())
    sys.exit(0)


if __name__ == '__main__':
    main()

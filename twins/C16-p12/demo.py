"""C16 / round 8 / pair 2 -- RegionGraph.__init__: dropping the non-maximal cliques.

Clause exercised: "forall clique sets": the clique *list* handed to the engine may
name the same clique more than once (LocalInference builds it as
[proj for (Q, y, noise, proj) in measurements], so two measurements of one marginal
give a duplicated clique) and may contain cliques nested in others.  Whatever the
list looks like, RegionGraph(..., convex=False).belief_propagation must return, for
every requested clique, a finite nonnegative pseudo-marginal that sums to the total,
and the exact marginal when the distinct cliques are junction-tree structured.

The demo runs several clique lists (with and without repetitions / nested cliques)
through the engine directly, and one small end-to-end LocalInference('approx')
estimation in which one marginal is measured twice.
Exit status 0 and a digest on success, 1 and an explanation otherwise.
"""
import os, sys

if os.environ.get('PYTHONHASHSEED') != '0':
    # set iteration order of tuples of str is hash dependent; pin it so that the
    # digest is reproducible from run to run
    env = dict(os.environ, PYTHONHASHSEED='0')
    os.execve(sys.executable, [sys.executable] + sys.argv, env)

ROOT = os.path.dirname(os.path.dirname(os.path.dirname(os.path.abspath(__file__))))
sys.path.insert(0, os.path.join(ROOT, 'src'))

import hashlib
import warnings
warnings.simplefilter('ignore')
import numpy as np
import mbi
from mbi import Domain, Factor, CliqueVector, RegionGraph
from mbi.local_inference import LocalInference

assert os.path.abspath(mbi.__file__).startswith(os.path.join(ROOT, 'src')), mbi.__file__

TOTAL = 25.0
TOL = 1e-8

AB, BC, CD = ('A','B'), ('B','C'), ('C','D')
ABC, BCD, CDE = ('A','B','C'), ('B','C','D'), ('C','D','E')

# name, clique list as handed to the constructor, exact?
CASES = [
    ('chain, all distinct',           [AB, BC, CD], True),
    ('chain, nested clique',          [AB, ('B',), BC, CD], True),
    ('triples, nested pair',          [ABC, BC, BCD, CDE], True),
    ('nested clique listed twice',    [ABC, BC, BCD, BC], True),
    ('chain, last clique twice',      [AB, BC, CD, CD], True),
    ('chain, middle clique 3 times',  [AB, BC, BC, CD, BC], True),
    ('triples, first clique twice',   [ABC, BCD, ABC, CDE], True),
    ('single clique, twice',          [AB, AB], True),
    ('loop of pairs',                 [AB, BC, CD, ('A','D')], False),
    ('loop of pairs, one repeated',   [AB, BC, CD, ('A','D'), BC], False),
]


def joint_marginals(domain, potentials, total, cliques):
    logp = sum(potentials[c] for c in potentials)
    logp = logp + (np.log(total) - logp.logsumexp())
    P = logp.exp()
    return {c: P.project(c) for c in cliques}


def run_case(name, cliques, is_exact, rng, digest):
    cliques = [tuple(c) for c in cliques]          # fresh tuple objects
    attrs = sorted(set(a for c in cliques for a in c))
    domain = Domain(attrs, [2 + (i % 2) for i in range(len(attrs))])
    engine = RegionGraph(domain, list(cliques), total=TOTAL, convex=False, iters=120)
    problems = []

    distinct = sorted(set(cliques))
    maximal = [c for c in distinct if not any(set(c) < set(d) for d in distinct)]
    for c in maximal:
        if c not in engine.cliques:
            problems.append('requested clique %s is not part of the model (model.cliques = %s)'
                            % (c, engine.cliques))
    if problems:
        return 0, problems

    pots = {}
    for r in engine.cliques:
        dom = domain.project(r)
        vals = rng.standard_normal(dom.shape) if r in maximal else np.zeros(dom.shape)
        pots[r] = Factor(dom, vals)
    pots = CliqueVector(pots)

    mu = engine.belief_propagation(pots)
    truth = joint_marginals(domain, pots, TOTAL, engine.cliques) if is_exact else None
    for r in engine.cliques:
        v = mu[r].values
        if not np.isfinite(v).all() or (v < 0).any():
            problems.append('marginal %s not finite/nonnegative' % (r,))
        if abs(v.sum() - TOTAL) > 1e-6:
            problems.append('marginal %s sums to %r, not %r' % (r, float(v.sum()), TOTAL))
        if is_exact:
            err = float(np.abs(mu[r].transpose(truth[r].domain.attrs).values - truth[r].values).max())
            if err > TOL:
                problems.append('marginal %s differs from the true marginal by %.3g' % (r, err))
        digest.update(repr(r).encode())
        digest.update(np.ascontiguousarray(v).tobytes())
    return len(engine.cliques), problems


def local_inference_case(digest):
    """ A 3-attribute data distribution, (A,B) measured twice and (B,C) once, no noise. """
    rng = np.random.default_rng(7)
    domain = Domain(['A','B','C'], [2,3,2])
    # a distribution that factorises over the chain A - B - C
    pab = rng.random((2,3)); pab /= pab.sum()
    pc_b = rng.random((3,2)); pc_b /= pc_b.sum(axis=1, keepdims=True)
    P = Factor(domain, 100.0 * pab[:,:,None] * pc_b[None,:,:])
    measurements = []
    for cl in [('A','B'), ('B','C'), ('A','B')]:
        y = P.project(cl).datavector()
        measurements.append((np.eye(y.size), y.copy(), 1.0, tuple(cl)))
    engine = LocalInference(domain, marginal_oracle='approx', iters=400, inner_iters=3)
    model = engine.estimate(measurements, total=100.0)
    problems = []
    for cl in [('A','B'), ('B','C')]:
        if cl not in model.cliques:
            problems.append('measured marginal %s is not part of the estimated model '
                            '(model.cliques = %s): its measurements were dropped' % (cl, model.cliques))
            continue
        est = model.marginals[cl]
        v = est.values
        if not np.isfinite(v).all() or (v < 0).any() or abs(v.sum() - 100.0) > 1e-6:
            problems.append('estimated marginal %s not finite/nonnegative/normalised' % (cl,))
        err = float(np.abs(est.transpose(cl).datavector() - P.project(cl).datavector()).max())
        if err > 0.1:          # records out of 100; mirror descent is stopped after 400 steps
            problems.append('estimated marginal %s is off by %.3g records although it was measured '
                            'without noise' % (cl, err))
        digest.update(np.round(est.transpose(cl).datavector(), 6).tobytes())
    return problems


def main():
    rng = np.random.default_rng(8150)
    digest = hashlib.sha256()
    failures = []
    for name, cliques, is_exact in CASES:
        nreg, problems = run_case(name, cliques, is_exact, rng, digest)
        status = 'ok' if not problems else 'VIOLATION'
        what = ('max|err|<=%g' % TOL) if is_exact else 'normalised'
        print('%-30s cliques=%d regions=%d  %-16s %s' % (name, len(cliques), nreg, what, status))
        failures.extend('%s: %s' % (name, p) for p in problems)

    problems = local_inference_case(digest)
    print('%-30s %s' % ('LocalInference, AB measured 2x', 'ok' if not problems else 'VIOLATION'))
    failures.extend('LocalInference: %s' % p for p in problems)

    if failures:
        print('FAIL: the approximate oracle lost a requested clique / is not exact / not normalised:')
        for f in failures:
            print('   ' + f)
        sys.exit(1)
    print('PASS digest=' + digest.hexdigest())
    sys.exit(0)


if __name__ == '__main__':
    main()

"""C16 / round 9 / pair 1 -- GBP damping update on raw arrays (named vs positional axes).

Exit 0 + PASS + digest on the unmodified code and with keep/patch.diff,
exit 1 + FAIL with break/patch.diff.
"""
import os, sys

# region sets are sets of tuples of str: fix the hash seed so that float summation
# order (and therefore the digest) is reproducible from run to run.
if os.environ.get('PYTHONHASHSEED') != '0':
    os.environ['PYTHONHASHSEED'] = '0'
    os.execv(sys.executable, [sys.executable] + sys.argv)

ROOT = os.path.dirname(os.path.dirname(os.path.dirname(os.path.abspath(__file__))))
sys.path.insert(0, os.path.join(ROOT, 'src'))

import warnings
warnings.filterwarnings('ignore')
import hashlib
import numpy as np
from mbi import Domain, Factor, CliqueVector, RegionGraph
import mbi
assert os.path.abspath(mbi.__file__).startswith(ROOT), mbi.__file__

TOL = 1e-6
failures = []
digest = hashlib.sha256()


def potentials_for(rg, dom, cliques, prng, scale=1.0):
    """random log-potentials on the maximal cliques, zero on the intersection regions"""
    pots = {}
    for r in rg.cliques:
        d = dom.project(r)
        if r in cliques:
            pots[r] = Factor(d, scale * prng.randn(*d.shape))
        else:
            pots[r] = Factor.zeros(d)
    return CliqueVector(pots)


def exact(pots, cliques, total):
    logp = sum(pots[r] for r in cliques)
    return (logp + (np.log(total) - logp.logsumexp())).exp()


def run(name, attrs, shape, cliques, total, exactness, minimal=True, iters=60, calls=1, seed=0):
    prng = np.random.RandomState(seed)
    dom = Domain(attrs, shape)
    try:
        rg = RegionGraph(dom, cliques, total=total, convex=False, minimal=minimal, iters=iters)
        for call in range(calls):
            pots = potentials_for(rg, dom, cliques, prng)
            mu = rg.belief_propagation(pots)
    except Exception as e:  # a crash is a violation too ("returns ... marginals")
        failures.append('%s: raised %s: %s' % (name, type(e).__name__, e))
        return
    worst_norm, worst_exact = 0.0, 0.0
    p = exact(pots, cliques, total) if exactness else None
    for r in sorted(mu):
        v = mu[r].project(r).datavector()
        if not np.all(np.isfinite(v)) or v.min() < 0:
            failures.append('%s: marginal %s not finite / nonnegative' % (name, r))
        worst_norm = max(worst_norm, abs(v.sum() - total) / total)
        if exactness:
            worst_exact = max(worst_exact, np.abs(v - p.project(r).datavector()).max() / total)
        digest.update(repr((name, r)).encode())
        digest.update(np.round(v, 8).tobytes())
    if worst_norm > 1e-9:
        failures.append('%s: marginals do not sum to the total (rel. err %.3g)' % (name, worst_norm))
    if exactness and worst_exact > TOL:
        failures.append('%s: clique set has the running-intersection property but GBP is not exact '
                        '(max abs err / total = %.3g)' % (name, worst_exact))
    print('%-34s norm_err=%.1e exact_err=%s' % (name, worst_norm,
          ('%.1e' % worst_exact) if exactness else 'n/a'))


# 1. cliques written in sorted attribute order: named and positional alignment coincide
run('chain/sorted', 'ABCDE', [2, 3, 2, 3, 2],
    [('A', 'B', 'C'), ('B', 'C', 'D'), ('C', 'D', 'E')], 10.0, True)
run('chain/sorted/saturated', 'ABCDE', [2, 3, 2, 3, 2],
    [('A', 'B', 'C'), ('B', 'C', 'D'), ('C', 'D', 'E')], 250, True, minimal=False)
run('star/sorted', 'ABCD', [3, 2, 4, 2],
    [('A', 'B'), ('A', 'C'), ('A', 'D')], 1.0, True)
# 2. loopy clique set: only normalisation is promised
run('loop/sorted', 'ABCD', [2, 3, 2, 3],
    [('A', 'B'), ('B', 'C'), ('C', 'D'), ('A', 'D')], 7.5, False)
# 3. junction-tree clique sets whose tuples are NOT in sorted order, equal attribute sizes:
#    the separator ('B','C') is stored sorted, the message computed from ('C','B','D') has axes (C,B)
run('chain/unsorted/equal-sizes', 'ABCDE', [3, 3, 3, 3, 3],
    [('B', 'A', 'C'), ('C', 'B', 'D'), ('D', 'C', 'E')], 10.0, True)
run('chain/unsorted/equal-sizes/x2', 'ABCDE', [3, 3, 3, 3, 3],
    [('B', 'A', 'C'), ('C', 'B', 'D'), ('D', 'C', 'E')], 100, True, calls=2, seed=3)
run('chain/unsorted/saturated', 'ABCDE', [2, 2, 2, 2, 2],
    [('C', 'B', 'A'), ('D', 'C', 'B'), ('E', 'D', 'C')], 1.0, True, minimal=False, seed=5)
# 4. realistic attribute names, natural (non-alphabetical) order, different sizes
run('census/unsorted/mixed-sizes', ['sex', 'age', 'income', 'edu'], [2, 5, 4, 3],
    [('sex', 'age', 'income'), ('income', 'age', 'edu')], 1000.0, True, seed=7)
run('census-loop/unsorted', ['sex', 'age', 'income', 'edu'], [2, 5, 4, 3],
    [('sex', 'age', 'income'), ('income', 'age', 'edu'), ('sex', 'edu')], 1000.0, False, seed=8)

if failures:
    print('FAIL')
    for f in failures:
        print('  -', f)
    sys.exit(1)
print('PASS', digest.hexdigest())
sys.exit(0)

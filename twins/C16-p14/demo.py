"""C16 / round 9 / pair 2 -- FactorGraph: variable -> factor adjacency by sorting + grouping the edges.

Exit 0 + PASS + digest on the unmodified code and with keep/patch.diff,
exit 1 + FAIL with break/patch.diff.
"""
import os, sys

ROOT = os.path.dirname(os.path.dirname(os.path.dirname(os.path.abspath(__file__))))
sys.path.insert(0, os.path.join(ROOT, 'src'))

import warnings
warnings.filterwarnings('ignore')
import hashlib
import numpy as np
from mbi import Domain, Factor, CliqueVector, FactorGraph
import mbi
assert os.path.abspath(mbi.__file__).startswith(ROOT), mbi.__file__

TOL = 1e-8
failures = []
digest = hashlib.sha256()


def exact(pots, cliques, total):
    logp = sum(pots[r] for r in cliques)
    return (logp + (np.log(total) - logp.logsumexp())).exp()


def run(name, attrs, shape, cliques, total, tree, iters=12, calls=1, seed=0):
    prng = np.random.RandomState(seed)
    dom = Domain(attrs, shape)
    try:
        fg = FactorGraph(dom, cliques, total=total, convex=False, iters=iters)
        for call in range(calls):
            pots = CliqueVector({cl: Factor(dom.project(cl), prng.randn(*dom.project(cl).shape))
                                 for cl in cliques})
            mu = fg.belief_propagation(pots)
    except Exception as e:
        failures.append('%s: raised %s: %s' % (name, type(e).__name__, e))
        return
    worst_norm, worst_exact = 0.0, 0.0
    p = exact(pots, cliques, total) if tree else None
    for cl in cliques:
        v = mu[cl].project(cl).datavector()
        if not np.all(np.isfinite(v)) or v.min() < 0:
            failures.append('%s: marginal %s not finite / nonnegative' % (name, cl))
        worst_norm = max(worst_norm, abs(v.sum() - total) / total)
        if tree:
            worst_exact = max(worst_exact, np.abs(v - p.project(cl).datavector()).max() / total)
        digest.update(repr((name, cl)).encode())
        digest.update(np.round(v, 9).tobytes())
    if worst_norm > 1e-9:
        failures.append('%s: marginals do not sum to the total (rel. err %.3g)' % (name, worst_norm))
    if tree and worst_exact > TOL:
        failures.append('%s: the factor graph is a tree but loopy BP is not exact after %d sweeps '
                        '(max abs err / total = %.3g)' % (name, iters, worst_exact))
    print('%-36s norm_err=%.1e exact_err=%s' % (name, worst_norm,
          ('%.1e' % worst_exact) if tree else 'n/a'))


# 1. all attribute sizes distinct
run('chain/distinct-sizes', 'ABCD', [2, 3, 4, 5],
    [('A', 'B'), ('B', 'C'), ('C', 'D')], 10.0, True)
run('star/distinct-sizes', 'ABCD', [2, 3, 4, 5],
    [('A', 'B'), ('A', 'C'), ('A', 'D')], 250, True)
# 2. equal sizes, but the cliques are listed along the path, so the edges of a variable are adjacent
run('chain/equal-sizes/path-order', 'ABCD', [3, 3, 3, 3],
    [('A', 'B'), ('B', 'C'), ('C', 'D')], 1.0, True)
# 3. equal sizes and the edges of a variable are NOT adjacent in clique-major order
run('star/equal-sizes', 'ABCD', [3, 3, 3, 3],
    [('A', 'B'), ('A', 'C'), ('A', 'D')], 10.0, True, seed=1)
run('chain/equal-sizes/shuffled', 'ABCD', [3, 3, 3, 3],
    [('A', 'B'), ('C', 'D'), ('B', 'C')], 10.0, True, seed=2)
run('chain/two-equal-sizes', 'ABCDE', [2, 3, 4, 3, 5],
    [('A', 'B'), ('D', 'E'), ('B', 'C'), ('C', 'D')], 100, True, seed=3)
run('tree/higher-order', 'ABCDEF', [2, 2, 3, 2, 3, 2],
    [('A', 'B', 'C'), ('C', 'D'), ('D', 'E', 'F'), ('C',)], 1000.0, True, seed=4)
run('star/equal-sizes/x2', ['sex', 'age', 'race', 'edu'], [2, 5, 5, 5],
    [('sex', 'age'), ('sex', 'race'), ('race', 'edu')], 42.0, True, calls=2, seed=5)
# 4. loopy factor graphs: only normalisation is promised
run('loop/equal-sizes', 'ABCD', [2, 2, 2, 2],
    [('A', 'B'), ('B', 'C'), ('C', 'D'), ('A', 'D')], 7.5, False, iters=25, seed=6)
run('loop/distinct-sizes', 'ABC', [2, 3, 4],
    [('A', 'B'), ('B', 'C'), ('A', 'C'), ('A', 'B', 'C')], 3, False, iters=25, seed=7)

if failures:
    print('FAIL')
    for f in failures:
        print('  -', f)
    sys.exit(1)
print('PASS', digest.hexdigest())
sys.exit(0)

#!/usr/bin/env python
"""
C16 / round 10 / pair 1  --  FactorGraph.loopy_belief_propagation: normalising the
factor->variable messages (log domain vs linear domain).

Clause exercised: "pseudo-marginals are always finite, nonnegative and sum to the total"
(arbitrary clique sets) and "exact on tree factor graphs" -- for ALL potentials, in
particular log-potentials whose magnitude exceeds the range of exp() (|theta| > ~709).

exit 0 + PASS + digest : property holds on every case
exit 1 + FAIL + reasons: property violated
"""
import os, sys, hashlib, warnings

ROOT = os.path.dirname(os.path.dirname(os.path.dirname(os.path.abspath(__file__))))
if os.environ.get('PYTHONHASHSEED') != '0':
    os.environ['PYTHONHASHSEED'] = '0'
    os.execv(sys.executable, [sys.executable] + sys.argv)
sys.path.insert(0, os.path.join(ROOT, 'src'))
warnings.simplefilter('ignore')

import numpy as np
np.seterr(all='ignore')
import mbi
from mbi import Domain, Factor, CliqueVector, FactorGraph

if not os.path.abspath(mbi.__file__).startswith(os.path.join(ROOT, 'src')):
    print('ERROR: mbi imported from %s, expected %s/src' % (mbi.__file__, ROOT))
    sys.exit(2)

DOM = Domain(['A', 'B', 'C', 'D', 'E', 'U'], [2, 3, 2, 3, 2, 1])

# (name, cliques, is_tree)
STRUCTURES = [
    ('chain',    [('A', 'B'), ('B', 'C'), ('C', 'D'), ('D', 'E')], True),
    ('star3',    [('A', 'B', 'C'), ('C', 'D'), ('C', 'E'), ('E', 'U')], True),
    ('nested',   [('A',), ('A', 'B'), ('B', 'C', 'D'), ('D',)], True),
    ('forest',   [('A', 'B'), ('C', 'D'), ('E',)], True),
    ('triangle', [('A', 'B'), ('B', 'C'), ('C', 'A'), ('C', 'D')], False),
    ('grid',     [('A', 'B'), ('B', 'D'), ('D', 'E'), ('E', 'A'), ('A', 'D')], False),
]

def potentials(cliques, regime, rs):
    pot = {}
    for k, cl in enumerate(cliques):
        shape = DOM.project(cl).shape
        z = rs.randn(*shape)
        if regime == 'unit':    v = z
        elif regime == 'wide':  v = 40.0 * z
        elif regime == 'high':  v = z + 800.0
        elif regime == 'low':   v = 5.0 * z - 900.0
        elif regime == 'mixed': v = 3.0 * z + (750.0 if k % 2 == 0 else -750.0)
        elif regime == 'peak':
            v = z.copy(); v.flat[rs.randint(v.size)] += 1500.0
        pot[cl] = Factor(DOM.project(cl), v)
    return CliqueVector(pot)

def exact(pot, total, cliques):
    f = None
    for c in pot:
        f = pot[c] if f is None else f + pot[c]
    f = f + (np.log(total) - f.logsumexp())
    p = f.exp()
    return {c: p.project(c) for c in cliques}

def main():
    failures, lines = [], []
    case = 0
    for name, cliques, is_tree in STRUCTURES:
        for regime in ['unit', 'wide', 'high', 'low', 'mixed', 'peak']:
            for total in [1.0, 250, 1.0e6]:
                case += 1
                rs = np.random.RandomState(1000 + case)
                pot = potentials(cliques, regime, rs)
                iters = len(cliques) + 2 if is_tree else 25
                fg = FactorGraph(DOM, cliques, total=total, convex=False, iters=iters)
                tag = '%s/%s/total=%g' % (name, regime, total)
                try:
                    mu = fg.belief_propagation(pot)
                    if case % 3 == 0:       # warm second call, same potentials
                        mu = fg.belief_propagation(pot)
                except Exception as e:
                    failures.append('%s: raised %s: %s' % (tag, type(e).__name__, e))
                    continue
                ok = True
                for cl in cliques:
                    x = mu[cl].values
                    if not np.isfinite(x).all():
                        failures.append('%s: marginal %s not finite' % (tag, (cl,))); ok = False; break
                    if (x < 0).any():
                        failures.append('%s: marginal %s negative' % (tag, (cl,))); ok = False; break
                    if abs(x.sum() - total) > 1e-9 * total:
                        failures.append('%s: marginal %s sums to %r, total is %r' % (tag, (cl,), float(x.sum()), total)); ok = False; break
                if ok and is_tree:
                    ex = exact(pot, total, cliques)
                    err = max(np.abs(mu[cl].project(ex[cl].domain.attrs).values - ex[cl].values).max() for cl in cliques)
                    if not err <= 1e-7 * total:
                        failures.append('%s: tree factor graph but max error vs exact marginals = %.3e' % (tag, err)); ok = False
                if ok:
                    h = hashlib.sha256()
                    for cl in cliques:
                        h.update((' '.join('%.6e' % t for t in mu[cl].values.flatten()) + '\n').encode())
                    lines.append('%-28s %s' % (tag, h.hexdigest()[:16]))
    if failures:
        print('FAIL: %d violation(s) of C16 (finite / nonnegative / sum to total / exact on trees)' % len(failures))
        for f in failures[:12]:
            print('  ' + f)
        if len(failures) > 12:
            print('  ... and %d more' % (len(failures) - 12))
        print('explanation: the factor->variable messages are normalised through exp(), which')
        print('overflows (or underflows to 0) once log-potentials leave roughly [-745, 709].')
        return 1
    print('PASS (%d cases)' % len(lines))
    for l in lines:
        print(l)
    print('digest ' + hashlib.sha256('\n'.join(lines).encode()).hexdigest())
    return 0

if __name__ == '__main__':
    sys.exit(main())

#!/usr/bin/env python
"""
C16 / round 10 / pair 2  --  RegionGraph.build_graph: the inclusive down-set `downp`
(a region together with all its descendants) used by the saturated (minimal=False)
message sets N / D / B of generalised belief propagation.

Clause exercised: "when the clique set already satisfies the running-intersection
property, generalised (region-graph) propagation returns the exact marginals" --
for ALL configurations, i.e. for minimal=True (default) AND minimal=False.
Normalisation (finite / nonnegative / sums to total) is checked as well, also on
clique sets with cycles.

exit 0 + PASS + digest : property holds on every case
exit 1 + FAIL + reasons: property violated
"""
import os, sys, hashlib, warnings

ROOT = os.path.dirname(os.path.dirname(os.path.dirname(os.path.abspath(__file__))))
if os.environ.get('PYTHONHASHSEED') != '0':
    os.environ['PYTHONHASHSEED'] = '0'      # set iteration order -> summation order
    os.execv(sys.executable, [sys.executable] + sys.argv)
sys.path.insert(0, os.path.join(ROOT, 'src'))
warnings.simplefilter('ignore')

import numpy as np
np.seterr(all='ignore')
import mbi
from mbi import Domain, Factor, CliqueVector, RegionGraph

if not os.path.abspath(mbi.__file__).startswith(os.path.join(ROOT, 'src')):
    print('ERROR: mbi imported from %s, expected %s/src' % (mbi.__file__, ROOT))
    sys.exit(2)

DOM = Domain(list('WXYZABCU'), [2, 3, 2, 3, 2, 2, 3, 1])

# (name, cliques, satisfies running intersection)
STRUCTURES = [
    ('pairchain', [('W', 'X'), ('X', 'Y'), ('Y', 'Z'), ('Z', 'A')], True),
    ('chain3',    [('W', 'X', 'Y'), ('X', 'Y', 'Z'), ('Y', 'Z', 'A'), ('Z', 'A', 'B')], True),
    ('deep4',     [('W', 'X', 'Y', 'Z'), ('X', 'Y', 'Z', 'A'), ('Y', 'Z', 'A', 'B'), ('Z', 'A', 'B', 'C')], True),
    ('star4',     [('W', 'X', 'Y', 'Z'), ('W', 'X', 'Y', 'A'), ('W', 'X', 'Z', 'B'), ('W', 'Y', 'Z', 'C')], True),
    ('forest',    [('W', 'X', 'U'), ('X', 'U', 'Y'), ('Z', 'A'), ('A', 'B'), ('C',)], True),
    ('single',    [('W', 'X', 'Y')], True),
    ('triangle',  [('W', 'X'), ('X', 'Y'), ('Y', 'W'), ('Y', 'Z')], False),
    ('loop3',     [('W', 'X', 'Y'), ('Y', 'Z', 'A'), ('A', 'B', 'W')], False),
]

def exact(pot, total, regions):
    f = None
    for c in pot:
        f = pot[c] if f is None else f + pot[c]
    f = f + (np.log(total) - f.logsumexp())
    p = f.exp()
    return {c: p.project(c) for c in regions}

def canon(r):
    return tuple(sorted(r))

def main():
    failures, lines = [], []
    case = 0
    for name, cliques, rip in STRUCTURES:
        for minimal in [True, False]:
            for total in [1.0, 40, 2500.0]:
                case += 1
                rs = np.random.RandomState(2000 + case)
                tag = '%s/minimal=%s/total=%g' % (name, minimal, total)
                try:
                    rg = RegionGraph(DOM, cliques, total=total, minimal=minimal, convex=False, iters=120)
                    regions = sorted(rg.cliques, key=lambda r: (len(r), canon(r)))
                    # potentials live on the maximal cliques; the inner regions carry zeros
                    pot = {}
                    for r in regions:
                        shape = DOM.project(r).shape
                        maximal = not any(set(r) < set(s) for s in regions)
                        pot[r] = Factor(DOM.project(r), 1.5 * rs.randn(*shape) if maximal else np.zeros(shape))
                    pot = CliqueVector(pot)
                    mu = rg.belief_propagation(pot)
                except Exception as e:
                    failures.append('%s: raised %s: %s' % (tag, type(e).__name__, e))
                    continue
                ok = True
                for r in regions:
                    x = mu[r].values
                    if not np.isfinite(x).all():
                        failures.append('%s: marginal %s not finite' % (tag, (r,))); ok = False; break
                    if (x < 0).any():
                        failures.append('%s: marginal %s negative' % (tag, (r,))); ok = False; break
                    if abs(x.sum() - total) > 1e-9 * total:
                        failures.append('%s: marginal %s sums to %r, total is %r' % (tag, (r,), float(x.sum()), total)); ok = False; break
                if ok and rip:
                    ex = exact(pot, total, regions)
                    err = max(np.abs(mu[r].project(ex[r].domain.attrs).values - ex[r].values).max() for r in regions)
                    if not err <= 1e-7 * total:
                        failures.append('%s: clique set has the running-intersection property but GBP is off by %.3e (total %g)' % (tag, err, total)); ok = False
                if ok:
                    h = hashlib.sha256()
                    for r in regions:
                        h.update((' '.join('%.6e' % t for t in mu[r].values.flatten()) + '\n').encode())
                    lines.append('%-36s regions=%-2d %s' % (tag, len(regions), h.hexdigest()[:16]))
    if failures:
        print('FAIL: %d violation(s) of C16 (normalised / exact under running intersection)' % len(failures))
        for f in failures[:14]:
            print('  ' + f)
        if len(failures) > 14:
            print('  ... and %d more' % (len(failures) - 14))
        print('explanation: with minimal=False the message sets N, D and B are cut out of the region')
        print('graph with the down-sets downp[r]; a down-set that does not contain r itself puts the')
        print("messages r -> child into r's own belief and into the wrong side of the updates.")
        return 1
    print('PASS (%d cases)' % len(lines))
    for l in lines:
        print(l)
    print('digest ' + hashlib.sha256('\n'.join(lines).encode()).hexdigest())
    return 0

if __name__ == '__main__':
    sys.exit(main())

"""C16 / round 11 / pair 1 -- belief sets B[r] of the saturated (minimal=False) region graph.

Checks, for RegionGraph(..., convex=False).belief_propagation on clique sets that satisfy
the running-intersection property:
  * normalisation: every pseudo-marginal is finite, nonnegative and sums to `total`
    (arbitrary potentials on all regions);
  * exactness: with potentials on the maximal cliques the pseudo-marginals equal the
    marginals of the explicit joint distribution.
Both region-graph configurations (minimal=True / minimal=False) are exercised on
2-level and 3+-level region graphs.
"""
import os, sys, hashlib, warnings

if os.environ.get('PYTHONHASHSEED') != '0':      # set iteration order -> summation order
    env = dict(os.environ, PYTHONHASHSEED='0')
    os.execve(sys.executable, [sys.executable] + sys.argv, env)

ROOT = os.path.dirname(os.path.dirname(os.path.dirname(os.path.abspath(__file__))))
sys.path.insert(0, os.path.join(ROOT, 'src'))
warnings.filterwarnings('ignore')
import numpy as np
from mbi import Domain, Factor, CliqueVector, RegionGraph

STRUCTURES = {
    'chain2': [('A','B'),('B','C'),('C','D')],
    'mixed':  [('A','B','C'),('B','C','D'),('D','E')],
    'chain3': [('A','B','C'),('B','C','D'),('C','D','E')],
    'nested': [('A','B','C'),('B','C','D'),('B','C'),('C','E'),('E',)],
    'star4':  [('A','B','C','D'),('A','B','C','E'),('A','B','D','F'),('A','C','D','G')],
    'chain4': [('A','B','C','D'),('B','C','D','E'),('C','D','E','F'),('D','E','F','G')],
}
TOL = 1e-8

def joint_marginals(pots, total, regions):
    logp = sum(pots[r] for r in sorted(pots))
    logp = logp + (np.log(total) - logp.logsumexp())
    p = logp.exp()
    return { r : p.project(r) for r in regions }

def run(name, cliques, total, minimal, seed, inner):
    attrs = sorted(set(a for cl in cliques for a in cl))
    dom = Domain(attrs, [2 + (i % 2) for i in range(len(attrs))])
    rg = RegionGraph(dom, cliques, total, minimal=minimal, convex=False, iters=100)
    regions = sorted(rg.cliques)
    maximal = [r for r in regions if not any(set(r) < set(s) for s in regions)]
    prng = np.random.RandomState(seed)
    pots = {}
    for r in regions:
        shape = dom.project(r).shape
        vals = prng.randn(*shape)
        if not inner and r not in maximal:
            vals = np.zeros(shape)
        pots[r] = Factor(dom.project(r), vals)
    pots = CliqueVector(pots)
    mu = rg.belief_propagation(pots)
    problems = []
    for r in regions:
        v = mu[r].values
        if not np.all(np.isfinite(v)) or v.min() < 0 or abs(v.sum() - total) > TOL*total:
            problems.append('%s: marginal on %s not normalised' % (name, ''.join(r)))
    err = None
    if not inner:
        ex = joint_marginals(pots, total, regions)
        err = max(np.abs(mu[r].transpose(r).values - ex[r].values).max() for r in regions)
        if not err <= TOL*total:
            problems.append('%s minimal=%s total=%g: GBP is not exact on a junction-tree '
                'structured clique set, max abs error %.3e' % (name, minimal, total, err))
    rows = ['%s|%s|%g|%s|%s|%s' % (name, minimal, total, inner, ''.join(r),
            ','.join('%.6f' % x for x in mu[r].transpose(r).values.flatten())) for r in regions]
    return problems, rows

def main():
    problems, rows = [], []
    for minimal in [True, False]:
        for k, (name, cliques) in enumerate(STRUCTURES.items()):
            for total in [1.0, 250.0]:
                for inner in [False, True]:
                    p, r = run(name, cliques, total, minimal, 100 + k, inner)
                    problems += p; rows += r
    if problems:
        print('FAIL')
        for p in problems: print('  ' + p)
        return 1
    print('PASS')
    print('cases', len(rows))
    print('digest', hashlib.sha256('\n'.join(rows).encode()).hexdigest())
    return 0

if __name__ == '__main__':
    sys.exit(main())

"""C16 / round 11 / pair 2 -- "skip the degenerate nodes" in FactorGraph.loopy_belief_propagation.

Checks, for FactorGraph(..., convex=False).belief_propagation on factor graphs that are
trees (forests), some of them containing factors over a single attribute (as produced by
one-way marginal measurements), attributes of size 1, structural zeros and warm messages:
  * normalisation: every pseudo-marginal is finite, nonnegative and sums to `total`;
  * exactness: the pseudo-marginals equal the marginals of the explicit joint distribution.
"""
import os, sys, hashlib, warnings

if os.environ.get('PYTHONHASHSEED') != '0':
    env = dict(os.environ, PYTHONHASHSEED='0')
    os.execve(sys.executable, [sys.executable] + sys.argv, env)

ROOT = os.path.dirname(os.path.dirname(os.path.dirname(os.path.abspath(__file__))))
sys.path.insert(0, os.path.join(ROOT, 'src'))
warnings.filterwarnings('ignore')
import numpy as np
from mbi import Domain, Factor, CliqueVector, FactorGraph

#  name : (attribute sizes, cliques)
GRAPHS = {
    'chain':      ({'A':2,'B':3,'C':2,'D':3}, [('A','B'),('B','C'),('C','D')]),
    'star':       ({'A':2,'B':3,'C':2,'D':3}, [('A','B'),('A','C'),('A','D')]),
    'triple':     ({'A':2,'B':3,'C':2,'D':3,'E':2}, [('A','B','C'),('C','D'),('D','E')]),
    'forest':     ({'A':2,'B':3,'C':2,'D':3,'E':2}, [('A','B'),('C','D'),('D','E')]),
    'size1':      ({'A':2,'B':1,'C':3}, [('A','B'),('B','C')]),
    'unary_leaf': ({'A':2,'B':3,'C':2}, [('A',),('A','B'),('B','C')]),
    'unary_mid':  ({'A':2,'B':3,'C':2}, [('A','B'),('B',),('B','C'),('C',)]),
    'unary_only': ({'A':2,'B':3}, [('A',),('B',),('A','B')]),
    'oneway_all': ({'A':2,'B':3,'C':2,'D':2}, [('A',),('B',),('C',),('D',),('A','B'),('B','C'),('B','D')]),
}
TOL = 1e-8

def joint_marginals(pots, total, cliques):
    logp = sum(pots[cl] for cl in cliques)
    logp = logp + (np.log(total) - logp.logsumexp())
    p = logp.exp()
    return { cl : p.project(cl) for cl in cliques }

def potentials(dom, cliques, prng, zeros):
    pots = {}
    for cl in cliques:
        vals = prng.randn(*dom.project(cl).shape) * 2.0
        pots[cl] = Factor(dom.project(cl), vals)
    if zeros:   # structural zero: exclude the first value of the first attribute of the first clique
        cl = cliques[0]
        pots[cl].values[0] = -np.inf
    return CliqueVector(pots)

def check(tag, fg, pots, total, cliques, problems, rows):
    mu = fg.belief_propagation(pots)
    ex = joint_marginals(pots, total, cliques)
    for cl in cliques:
        v = mu[cl].transpose(cl).values
        if not np.all(np.isfinite(v)) or v.min() < 0 or abs(v.sum() - total) > TOL*total:
            problems.append('%s: marginal on %s is not normalised' % (tag, ''.join(cl)))
        err = np.abs(v - ex[cl].values).max()
        if not err <= TOL*total:
            problems.append('%s: loopy BP is not exact on a tree factor graph, clique %s, '
                            'max abs error %.3e' % (tag, ''.join(cl), err))
        rows.append('%s|%s|%s' % (tag, ''.join(cl), ','.join('%.6f' % x for x in v.flatten())))

def main():
    problems, rows = [], []
    for k, (name, (sizes, cliques)) in enumerate(GRAPHS.items()):
        dom = Domain(list(sizes.keys()), list(sizes.values()))
        for total in [1.0, 500.0]:
            for zeros in [False, True]:
                prng = np.random.RandomState(7 + k)
                fg = FactorGraph(dom, cliques, total, convex=False, iters=len(cliques) + len(dom) + 2)
                tag = '%s|%g|%s' % (name, total, zeros)
                check(tag + '|cold', fg, potentials(dom, cliques, prng, zeros), total, cliques, problems, rows)
                # second call on the same object: warm messages, different potentials
                check(tag + '|warm', fg, potentials(dom, cliques, prng, zeros), total, cliques, problems, rows)
    if problems:
        print('FAIL')
        for p in problems: print('  ' + p)
        return 1
    print('PASS')
    print('cases', len(rows))
    print('digest', hashlib.sha256('\n'.join(rows).encode()).hexdigest())
    return 0

if __name__ == '__main__':
    sys.exit(main())

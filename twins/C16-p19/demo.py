"""C16 / round 12 / pair 1 -- region names produced by the intersection closure
in RegionGraph.build_graph.

Exactness clause: when the clique set satisfies the running-intersection
property, RegionGraph(convex=False).belief_propagation returns the exact
marginals -- for EVERY way the user spells the clique tuples (the library
accepts cliques whose attributes are in any order).
"""
import os, sys, hashlib, itertools
ROOT = os.path.dirname(os.path.dirname(os.path.dirname(os.path.abspath(__file__))))
if os.environ.get('PYTHONHASHSEED') != '0':      # set iteration order -> deterministic digest
    env = dict(os.environ, PYTHONHASHSEED='0')
    env['PYTHONPATH'] = os.path.join(ROOT, 'src') + os.pathsep + env.get('PYTHONPATH', '')
    os.execve(sys.executable, [sys.executable] + sys.argv, env)
sys.path.insert(0, os.path.join(ROOT, 'src'))
import numpy as np
from mbi import Domain, Factor, CliqueVector, RegionGraph
import mbi
assert os.path.abspath(mbi.__file__).startswith(ROOT), mbi.__file__

TOL = 1e-6

def exact(domain, pots, cliques, total):
    logp = sum(pots[cl] for cl in cliques)
    p = (logp - logp.logsumexp()).exp() * total
    return {cl: p.project(cl) for cl in cliques}

def run(name, attrs, shape, cliques, total, seed, iters=300):
    prng = np.random.RandomState(seed)
    domain = Domain(attrs, shape)
    model = RegionGraph(domain, cliques, total=total, minimal=True, convex=False, iters=iters)
    pots = CliqueVector.zeros(domain, model.cliques)
    for cl in cliques:
        pots[cl] = Factor(domain.project(cl), prng.normal(0, 1.5, domain.project(cl).shape))
    mu = model.belief_propagation(pots)
    ex = exact(domain, pots, cliques, total)
    worst, ok_norm = 0.0, True
    for cl in cliques:
        v = mu[cl].transpose(cl).values
        ok_norm &= bool(np.all(np.isfinite(v)) and np.all(v >= 0) and abs(v.sum() - total) <= 1e-8 * total)
        worst = max(worst, float(np.abs(v - ex[cl].values).max()) / total)
    names = sorted(''.join(map(str, r)) for r in model.regions)
    digest = hashlib.sha256(b''.join(np.round(mu[cl].transpose(cl).values / total, 7).tobytes()
                                     for cl in cliques)).hexdigest()[:16]
    return dict(name=name, worst=worst, norm=ok_norm, regions=names, digest=digest)

CASES = [
  # consistently (alphabetically) spelled cliques
  ('chain-sorted', 'ABCD', (2,3,2,3), [('A','B'),('B','C'),('C','D')], 1.0, 0),
  ('star-sorted', 'ABCDEF', (2,3,2,2,3,2), [('A','B','C'),('B','C','D'),('B','C','E'),('B','C','F')], 100.0, 1),
  # consistently spelled in a non-alphabetical domain order
  ('domain-order', 'XBAY', (2,3,2,3), [('X','B','A'),('B','A','Y')], 10.0, 2),
  # two-level junction tree, sorted spelling
  ('two-level-sorted', 'ABCDE', (2,2,3,2,2), [('A','B','C'),('B','C','D'),('C','E')], 50.0, 3),
  # the same star, but half of the cliques spell the separator as C,B
  ('star-mixed', 'ABCDEF', (2,3,2,2,3,2), [('A','B','C'),('B','C','E'),('C','B','D'),('C','B','F')], 100.0, 1),
  # chain of triples whose separators are spelled both ways round
  ('chain-mixed', 'ABCDEFG', (2,2,3,2,2,2,2),
     [('A','B','C'),('B','C','D'),('C','B','E'),('F','C','B'),('E','G')], 7.0, 4),
]

def main():
    bad, lines = [], []
    for case in CASES:
        r = run(*case)
        lines.append('%-17s regions=%s norm=%s exact=%s digest=%s'
                     % (r['name'], ','.join(r['regions']), r['norm'], r['worst'] <= TOL, r['digest']))
        if not r['norm']:
            bad.append('%s: pseudo-marginals not normalised' % r['name'])
        if r['worst'] > TOL:
            bad.append('%s: clique set has the running-intersection property but GBP marginals are off '
                       'by %.3g (relative to total); regions=%s' % (r['name'], r['worst'], r['regions']))
    print('\n'.join(lines))
    if bad:
        print('FAIL')
        for b in bad: print('  ' + b)
        sys.exit(1)
    print('PASS ' + hashlib.sha256('\n'.join(lines).encode()).hexdigest()[:16])

if __name__ == '__main__':
    main()

"""
Pair 2 demo -- numerical clause of the approximate-oracle property.

Property clauses exercised: pseudo-marginals of FactorGraph(convex=False) and
RegionGraph(convex=False) are finite, nonnegative and sum to the total FOR ALL potentials,
and they are the exact marginals on a tree factor graph / a running-intersection clique set.
"For all potentials" includes the large-magnitude, strongly conflicting potentials that
mirror descent produces with big totals and small noise (theta -= alpha * gradient, gradient
proportional to total / sigma^2): log-space message passing has to survive tables whose
slices differ by far more than the ~745 nats that exp() can represent.

exit 0 + PASS + digest : all checks hold
exit 1 + FAIL          : some oracle call returned wrong / non-finite marginals
"""
import os, sys

if os.environ.get('PYTHONHASHSEED') != '0':
    env = dict(os.environ, PYTHONHASHSEED='0')
    os.execve(sys.executable, [sys.executable] + sys.argv, env)

ROOT = os.path.dirname(os.path.dirname(os.path.dirname(os.path.abspath(__file__))))
sys.path.insert(0, os.path.join(ROOT, 'src'))

import warnings
warnings.filterwarnings('ignore')
import hashlib
import numpy as np
from scipy.special import logsumexp as sp_logsumexp
import mbi
from mbi import Domain, Factor, CliqueVector, RegionGraph, FactorGraph

assert os.path.abspath(mbi.__file__).startswith(os.path.abspath(ROOT)), mbi.__file__


def brute_force(domain, potentials, total):
    """ exact marginals of total * softmax(sum of potentials); numpy + scipy only, does not
        go through any mbi.Factor arithmetic """
    attrs = list(domain.attrs)
    logp = np.zeros(domain.shape)
    for cl, f in potentials.items():
        src = list(f.domain.attrs)
        order = sorted(range(len(src)), key=lambda i: attrs.index(src[i]))
        vals = np.transpose(np.asarray(f.values, dtype=float), order)
        shape = [domain.config[a] if a in src else 1 for a in attrs]
        logp = logp + vals.reshape(shape)
    out = {}
    Z = sp_logsumexp(logp)
    for cl in potentials:
        drop = tuple(i for i, a in enumerate(attrs) if a not in cl)
        m = total * np.exp(sp_logsumexp(logp, axis=drop) - Z) if drop else total * np.exp(logp - Z)
        rest = [a for a in attrs if a in cl]
        out[cl] = np.transpose(m, [rest.index(a) for a in cl])
    return out


def potentials_for(rs, domain, regions, maximal, regime, K):
    """ regime 'random'  : K * N(0,1) tables on the maximal cliques
        regime 'conflict': neighbouring cliques push their shared attribute in opposite
                           directions with strength K (plus an N(0,1) table)              """
    pot = {}
    for r in sorted(regions):
        dom = domain.project(r)
        pot[r] = Factor.zeros(dom)
    sign = 1.0
    for r in maximal:
        dom = domain.project(r)
        if regime == 'random':
            vals = K * rs.randn(*dom.shape)
        else:
            vals = rs.randn(*dom.shape)
            for ax, a in enumerate(r):
                shared = sum(1 for s in maximal if a in s) > 1
                if shared:
                    shape = [1] * len(r)
                    shape[ax] = dom.shape[ax]
                    ramp = np.arange(dom.shape[ax]).reshape(shape) / max(1, dom.shape[ax] - 1)
                    vals = vals + sign * K * ramp
            sign = -sign
        pot[r] = Factor(dom, vals)
    return CliqueVector(pot)


def check(regions, mu, ref, total):
    bad, flat, worst = [], [], 0.0
    for r in sorted(regions):
        vals = mu[r].transpose(r).values
        flat.append(vals.flatten() / total)
        if not np.all(np.isfinite(vals)):
            bad.append('non-finite')
            continue
        if vals.min() < 0: bad.append('negative')
        if abs(vals.sum() - total) > 1e-8 * total: bad.append('does not sum to total')
        worst = max(worst, np.abs(vals - ref[r]).max() / total)
    if worst > 1e-6:
        bad.append('not exact (max abs err / total = %.2e)' % worst)
    return sorted(set(bad)), np.concatenate(flat)


TREES = [   # factor graphs without cycles
    ('chain',     [('A','B'),('B','C'),('C','D')]),
    ('star',      [('A','B'),('A','C'),('A','D')]),
    ('hypertree', [('A','B','C'),('C','D'),('D','E','F')]),
    ('long',      [('A','B'),('B','C'),('C','D'),('D','E'),('E','F'),('F','G')]),
]
RIP = [     # clique sets with the running-intersection property
    ('chain2',    [('A','B'),('B','C'),('C','D')]),
    ('chain3',    [('A','B','C'),('B','C','D'),('C','D','E')]),
    ('jt2',       [('A','B','C'),('B','C','D'),('B','D','E'),('E','F')]),
]
REGIMES = [('random', 1.0), ('random', 20.0), ('conflict', 50.0), ('conflict', 300.0),
           ('conflict', 900.0), ('conflict', 4000.0), ('random', 1500.0)]

failures, lines = [], []
digest = hashlib.sha256()

def record(tag, bad, flat):
    key = np.round(np.nan_to_num(flat, nan=-1.0, posinf=-2.0, neginf=-3.0), 6) + 0.0
    digest.update(key.tobytes())
    lines.append('%-46s %s %s' % (tag, 'ok ' if not bad else 'BAD', hashlib.sha256(key.tobytes()).hexdigest()[:12]))
    if bad:
        failures.append('%s: %s' % (tag, '; '.join(bad)))

seed = 100
for oracle, sets in (('FactorGraph', TREES), ('RegionGraph', RIP)):
    for name, cliques in sets:
        attrs = sorted(set(a for c in cliques for a in c))
        sizes = [2 + (i % 3) for i in range(len(attrs))]
        domain = Domain(attrs, sizes)
        for regime, K in REGIMES:
            seed += 1
            rs = np.random.RandomState(seed)
            total = [1.0, 10.0, 500.0][seed % 3]
            if oracle == 'FactorGraph':
                model = FactorGraph(domain, cliques, total=total, convex=False, iters=30)
            else:
                model = RegionGraph(domain, cliques, total=total, convex=False, iters=90)
            regions = list(model.cliques)
            pot = potentials_for(rs, domain, regions, cliques, regime, K)
            mu = model.belief_propagation(pot)
            ref = brute_force(domain, pot, total)
            bad, flat = check(regions, mu, ref, total)
            record('%s/%s/%s K=%g' % (oracle, name, regime, K), bad, flat)

for l in lines:
    print(l)
if failures:
    print('FAIL: %d of %d oracle calls violate the property' % (len(failures), len(lines)))
    for f in failures[:14]:
        print('   ', f)
    print('Explanation: on acyclic structures the oracles must return the exact marginals for all')
    print('potentials; with large conflicting potentials whole slices of a message were flushed to')
    print('-inf (probability exactly 0) although the true marginal puts sizeable mass there.')
    sys.exit(1)
print('PASS', len(lines), 'calls checked, digest', digest.hexdigest())
sys.exit(0)

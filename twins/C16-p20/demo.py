"""C16 / round 14 / pair 1 -- FactorGraph.__init__: coercion of `total` (float vs int).

Clause checked: the pseudo-marginals returned by FactorGraph(..., convex=False).belief_propagation
are finite, nonnegative and SUM TO THE TOTAL (for every total, in particular fractional ones such
as the estimates LocalInference passes in), and are exact when the factor graph is a tree.
"""
import os, sys, hashlib, warnings
ROOT = os.path.dirname(os.path.dirname(os.path.dirname(os.path.abspath(__file__))))
sys.path.insert(0, os.path.join(ROOT, 'src'))
warnings.filterwarnings('ignore')
import numpy as np
from mbi import Domain, Factor, CliqueVector, FactorGraph

TREE = [('A', 'B'), ('B', 'C'), ('B', 'D'), ('D', 'E'), ('E',)]
LOOP = [('A', 'B'), ('B', 'C'), ('A', 'C'), ('C', 'D'), ('D', 'E')]
SHAPE = [2, 3, 2, 3, 2]
# (label, cliques, total): integral totals first, then the fractional ones the break needs
CASES = [
    ('tree/default', TREE, None),
    ('tree/int', TREE, 1000),
    ('tree/float-integral', TREE, 250.0),
    ('loop/np-int', LOOP, np.int64(40)),
    ('tree/fractional', TREE, 1234.56),
    ('tree/below-one', TREE, 0.75),
    ('loop/fractional', LOOP, np.float64(87.25)),
    ('tree/lsmr-like', TREE, max(1, 5230.4183)),
]

def exact(pots, total, cliques):
    logp = sum(pots[cl] for cl in cliques)
    p = (logp + np.log(total) - logp.logsumexp()).exp()
    return {cl: p.project(cl) for cl in cliques}

def main():
    problems, lines = [], []
    dom = Domain('ABCDE', SHAPE)
    for k, (label, cliques, total) in enumerate(CASES):
        rng = np.random.RandomState(100 + k)
        if total is None:
            fg, want = FactorGraph(dom, cliques, convex=False, iters=30), 1.0
        else:
            fg, want = FactorGraph(dom, cliques, total, convex=False, iters=30), float(total)
        pots = CliqueVector({cl: Factor(dom.project(cl), rng.randn(*dom.project(cl).shape)) for cl in cliques})
        mu = fg.belief_propagation(pots)
        for cl in cliques:
            v = mu[cl].values
            if not np.all(np.isfinite(v)) or np.any(v < 0):
                problems.append('%s %s: not finite / negative' % (label, cl))
            if abs(v.sum() - want) > 1e-9 * max(1.0, want):
                problems.append('%s %s: marginal sums to %.6f, total is %.6f' % (label, cl, v.sum(), want))
        if cliques is TREE:
            ex = exact(pots, want, cliques)
            err = max(np.abs(mu[cl].values - ex[cl].values).max() for cl in cliques)
            if err > 1e-8 * max(1.0, want):
                problems.append('%s: tree-structured but max |mu - exact| = %.3e' % (label, err))
        # projection onto one attribute goes through the same total
        pa = fg.project(('B',)).values.sum()
        if abs(pa - want) > 1e-9 * max(1.0, want):
            problems.append('%s: project(B) sums to %.6f, total is %.6f' % (label, pa, want))
        flat = np.concatenate([mu[cl].values.flatten() for cl in cliques])
        lines.append('%-20s total=%-10.4f sum=%.6f digest=%s' % (
            label, want, mu[cliques[0]].values.sum(),
            hashlib.sha256(np.round(flat, 6).tobytes()).hexdigest()[:16]))
    for ln in lines:
        print(ln)
    if problems:
        print('FAIL: FactorGraph pseudo-marginals violate "sum to the total / exact on trees":')
        for p in problems:
            print('  -', p)
        return 1
    print('PASS')
    return 0

if __name__ == '__main__':
    sys.exit(main())

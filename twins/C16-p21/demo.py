import os, sys, hashlib, itertools, warnings
if os.environ.get('PYTHONHASHSEED') != '0':   # set iteration order of region sets must be reproducible
    os.environ['PYTHONHASHSEED'] = '0'
    os.execv(sys.executable, [sys.executable] + sys.argv)
ROOT = os.path.dirname(os.path.dirname(os.path.dirname(os.path.abspath(__file__))))
sys.path.insert(0, os.path.join(ROOT, 'src'))
warnings.filterwarnings('ignore')
import numpy as np
np.seterr(all='ignore')
from mbi import Domain, Factor, CliqueVector
from mbi.region_graph import RegionGraph

def exact(domain, cliques, pots, total):
    logp = sum(pots[cl] for cl in cliques)
    logp = logp + (np.log(total) - logp.logsumexp())
    P = logp.exp()
    return {cl: P.project(cl).transpose(cl).values for cl in cliques}

def potentials(domain, cliques, regions, seed, zero=None):
    rng = np.random.RandomState(seed)
    pots = {}
    for r in regions:
        dom = domain.project(r)
        if r in cliques:
            vals = rng.normal(size=dom.shape)
            if zero is not None and zero[0] in r:
                idx = [slice(None)] * len(r)
                idx[dom.attrs.index(zero[0])] = zero[1]
                vals[tuple(idx)] = -np.inf      # structural zero: value excluded
            pots[r] = Factor(dom, vals)
        else:
            pots[r] = Factor.zeros(dom)
    return pots

CASES = [
    # name, domain shape, junction-tree-structured cliques, total, structural zero
    ('chain3', dict(A=2, B=3, C=2), [('A','B'), ('B','C')], 1.0, None),
    ('chain3-zero', dict(A=2, B=3, C=2), [('A','B'), ('B','C')], 10.0, ('B', 0)),
    ('jt-3cliques', dict(A=2, B=2, C=3, D=2, E=2),
        [('A','B','C'), ('B','C','D'), ('C','D','E')], 100.0, None),
    ('jt-3cliques-zero', dict(A=2, B=2, C=3, D=2, E=2),
        [('A','B','C'), ('B','C','D'), ('C','D','E')], 7.5, ('C', 1)),
    ('star-zero', dict(A=3, B=2, C=2, D=2),
        [('A','B'), ('A','C'), ('A','D')], 1.0, ('A', 2)),
]
CONFIGS = [dict(damping=0.5), dict(damping=0.0), dict(damping=0.9), dict(damping=1.0),
           dict(damping=0.25, minimal=False), dict(damping=0.0, minimal=False)]

lines, bad = [], []
for (name, shape, cliques, total, zero), cfg in itertools.product(CASES, CONFIGS):
    domain = Domain(list(shape), list(shape.values()))
    rg = RegionGraph(domain, cliques, total=total, convex=False, iters=60, **cfg)
    pots = potentials(domain, cliques, rg.regions, 16, zero)
    truth = exact(domain, cliques, pots, total)
    tag = '%s %s' % (name, sorted(cfg.items()))
    for call in (1, 2):                       # second call starts from warm messages
        mu = rg.belief_propagation(CliqueVector(pots))
        for cl in cliques:
            got = mu[cl].transpose(cl).values
            ok_fin = bool(np.all(np.isfinite(got)) and np.all(got >= 0))
            ok_sum = ok_fin and abs(got.sum() - total) <= 1e-8 * total
            ok_exact = ok_fin and np.allclose(got, truth[cl], rtol=0, atol=1e-6 * total)
            if not (ok_fin and ok_sum and ok_exact):
                bad.append('%s call %d clique %s: finite/nonneg=%s sum=%s exact=%s'
                           % (tag, call, cl, ok_fin, ok_sum, ok_exact))
            lines.append('%s %d %s %s' % (tag, call, cl, (np.round(got, 5) + 0.0).tolist()))

if bad:
    print('FAIL: GBP pseudo-marginals on junction-tree-structured cliques are not')
    print('finite, normalised and exact for every configuration:')
    for b in bad[:12]: print('  ' + b)
    print('  (%d violations in total)' % len(bad))
    sys.exit(1)
print('PASS %d marginals checked' % len(lines))
print('digest', hashlib.sha256('\n'.join(lines).encode()).hexdigest())

"""C16 pair1 demo: approximate oracles vs. an independent numpy oracle, with clique tuples
listed in sorted, swapped and *cyclically rotated* attribute order.

exit 0 + PASS + digest  : region-graph / factor-graph propagation is normalised and exact
exit 1 + FAIL           : some marginal is non-finite / negative / unnormalised / inexact
"""
import os, sys

ROOT = os.path.dirname(os.path.dirname(os.path.dirname(os.path.abspath(__file__))))
if os.environ.get('PYTHONHASHSEED') != '0':
    # set iteration order decides the order of floating point sums inside the library;
    # pin it so that the digest is reproducible from run to run
    env = dict(os.environ, PYTHONHASHSEED='0')
    os.execve(sys.executable, [sys.executable] + sys.argv, env)
sys.path.insert(0, os.path.join(ROOT, 'src'))

import hashlib, string, warnings
warnings.filterwarnings('ignore')
import numpy as np
import mbi
assert os.path.abspath(mbi.__file__).startswith(os.path.join(ROOT, 'src')), mbi.__file__
from mbi import Domain, Factor, CliqueVector, RegionGraph, FactorGraph

TOL = 1e-7


def oracle(attrs, shape, pots, total):
    """joint distribution by plain numpy einsum - does not touch mbi.Factor arithmetic.
    pots: {clique tuple : ndarray with axes in the order of the tuple}"""
    letter = dict(zip(attrs, string.ascii_letters))
    out = ''.join(letter[a] for a in attrs)
    shift = sum(v.max() for v in pots.values())
    ops, subs = [], []
    for cl, v in pots.items():
        ops.append(np.exp(v - v.max()))
        subs.append(''.join(letter[a] for a in cl))
    ones = [np.ones(n) for n in shape]
    joint = np.einsum(','.join(subs + [letter[a] for a in attrs]) + '->' + out, *(ops + ones))
    joint = joint * (total / joint.sum())

    def marginal(cl):
        return np.einsum(out + '->' + ''.join(letter[a] for a in cl), joint)
    return marginal


def check(name, attrs, shape, cliques, total, seed, kind, exact, lines, failures, **kw):
    dom = Domain(attrs, shape)
    if kind == 'region':
        model = RegionGraph(dom, cliques, total=total, convex=False, **kw)
        regions = sorted(model.cliques)
    else:
        model = FactorGraph(dom, cliques, total=total, convex=False, **kw)
        regions = list(cliques)
    rs = np.random.RandomState(seed)
    arrays = {}
    for r in regions:
        n = tuple(dom[a] for a in r)
        # potentials live on the cliques that were asked for; derived regions carry none
        arrays[r] = rs.normal(size=n) if r in cliques else np.zeros(n)
    pot = CliqueVector({r: Factor(dom.project(r), arrays[r].copy()) for r in regions})
    mu = model.belief_propagation(pot)
    truth = oracle(attrs, shape, {r: arrays[r] for r in regions if r in cliques}, total)

    h = hashlib.sha256()
    worst = 0.0
    for r in regions:
        got = mu[r]
        assert got.domain.attrs == tuple(r)
        v = got.values
        if not np.all(np.isfinite(v)):
            failures.append('%s: marginal on %s is not finite' % (name, repr(r)))
            continue
        if v.min() < 0:
            failures.append('%s: marginal on %s has a negative entry' % (name, repr(r)))
        if abs(v.sum() - total) > 1e-9 * total:
            failures.append('%s: marginal on %s sums to %r, not %r' % (name, repr(r), v.sum(), total))
        if exact:
            err = np.abs(v - truth(r)).max() / total
            worst = max(worst, err)
            if err > TOL:
                failures.append('%s: marginal on %s is off by %.3g (relative to total) from the '
                                'true marginal' % (name, repr(r), err))
        h.update(repr(r).encode())
        h.update(np.round(v + 0.0, 7).tobytes())
    lines.append('%-34s regions=%2d exact=%-5s ok=%s digest=%s' % (
        name, len(regions), exact, (worst <= TOL), h.hexdigest()[:16]))


def main():
    lines, failures = [], []
    S = dict(A=2, B=3, C=4, D=3, E=2, X=2, Y=3, Z=2)

    def go(name, attrs, cliques, total, seed, kind, exact=True, **kw):
        check(name, list(attrs), [S[a] for a in attrs], cliques, total, seed, kind, exact,
              lines, failures, **kw)

    for minimal in (True, False):
        tag = 'min' if minimal else 'sat'
        # 1. junction-tree chains / stars with every clique in sorted order
        go('chain sorted/' + tag, 'ABCDE', [('A','B','C'), ('B','C','D'), ('C','D','E')],
           10.0, 1, 'region', minimal=minimal, iters=120)
        go('star sorted/' + tag, 'ABCXYZ', [('A','B','C'), ('A','B','X'), ('A','C','Y'), ('B','C','Z')],
           250.0, 2, 'region', minimal=minimal, iters=120)
        # 2. pairs written "backwards"
        go('pairs swapped/' + tag, 'ABCD', [('B','A'), ('C','B'), ('D','B')],
           1.0, 3, 'region', minimal=minimal, iters=120)
        # 3. three-attribute cliques with two attributes swapped
        go('triples swapped/' + tag, 'ABCDE', [('B','A','C'), ('B','D','C'), ('C','E','D')],
           40.0, 4, 'region', minimal=minimal, iters=120)
        # 4. three-attribute cliques written in rotated order (C,A,B), (B,C,Z), ...
        go('star rotated/' + tag, 'ABCXYZ', [('C','A','B'), ('B','X','A'), ('Y','A','C'), ('C','Z','B')],
           250.0, 5, 'region', minimal=minimal, iters=120)
        go('chain rotated/' + tag, 'ABCDE', [('B','C','A'), ('D','B','C'), ('D','E','C')],
           10.0, 6, 'region', minimal=minimal, iters=120)
        go('4-clique rotated/' + tag, 'ABCDE', [('D','A','B','C'), ('B','C','D','E')],
           7.0, 7, 'region', minimal=minimal, iters=120)
    # 5. loopy clique sets: only normalisation is promised
    go('loop rotated (normalised only)', 'ABCD', [('C','A','B'), ('D','B','C'), ('A','D','C'), ('B','D','A')],
       100.0, 8, 'region', exact=False, iters=60)
    # 6. loopy BP on tree factor graphs, rotated cliques
    go('factor-graph tree rotated', 'ABCDE', [('C','A','B'), ('D','C'), ('E','C')],
       30.0, 9, 'factor', iters=30)
    go('factor-graph tree sorted', 'ABCDEX', [('A','B'), ('B','C','D'), ('D','E'), ('D','X')],
       30.0, 10, 'factor', iters=30)

    for l in lines:
        print(l)
    if failures:
        print('FAIL: %d violation(s) of C16 (normalised / exact on acyclic structures)' % len(failures))
        for f in failures[:12]:
            print('  -', f)
        if len(failures) > 12:
            print('  ... and %d more' % (len(failures) - 12))
        sys.exit(1)
    print('PASS', hashlib.sha256('\n'.join(lines).encode()).hexdigest()[:24])
    sys.exit(0)


if __name__ == '__main__':
    main()

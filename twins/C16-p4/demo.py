"""C16 pair2 demo: loopy BP on tree factor graphs must return the exact marginals of the
potentials the caller holds - on the first call, on a repeated (warm-message) call with the
same CliqueVector, and when a per-sweep callback is installed.

exit 0 + PASS + digest  : normalised everywhere, exact on every tree, every call
exit 1 + FAIL           : some marginal is non-finite / negative / unnormalised / inexact
"""
import os, sys

ROOT = os.path.dirname(os.path.dirname(os.path.dirname(os.path.abspath(__file__))))
if os.environ.get('PYTHONHASHSEED') != '0':
    env = dict(os.environ, PYTHONHASHSEED='0')
    os.execve(sys.executable, [sys.executable] + sys.argv, env)
sys.path.insert(0, os.path.join(ROOT, 'src'))

import hashlib, string, warnings
warnings.filterwarnings('ignore')
import numpy as np
import mbi
assert os.path.abspath(mbi.__file__).startswith(os.path.join(ROOT, 'src')), mbi.__file__
from mbi import Domain, Factor, CliqueVector, FactorGraph, RegionGraph

TOL = 1e-8


def oracle(attrs, shape, pots, total):
    """joint distribution by plain numpy einsum (independent of mbi.Factor arithmetic).
    pots: {clique tuple : ndarray with axes in the order of the tuple}"""
    letter = dict(zip(attrs, string.ascii_letters))
    out = ''.join(letter[a] for a in attrs)
    ops = [np.exp(v - v[np.isfinite(v)].max()) for v in pots.values()]
    subs = [''.join(letter[a] for a in cl) for cl in pots]
    ones = [np.ones(n) for n in shape]
    joint = np.einsum(','.join(subs + [letter[a] for a in attrs]) + '->' + out, *(ops + ones))
    joint = joint * (total / joint.sum())
    return lambda cl: np.einsum(out + '->' + ''.join(letter[a] for a in cl), joint)


class Report:
    def __init__(self):
        self.lines, self.failures = [], []

    def marginals(self, name, mu, cliques, total, truth):
        """check one returned CliqueVector; truth=None means 'normalisation only'"""
        h = hashlib.sha256()
        worst = 0.0
        for cl in cliques:
            v = mu[cl].values
            if not np.all(np.isfinite(v)):
                self.failures.append('%s: marginal on %r is not finite' % (name, cl))
                continue
            if v.min() < 0:
                self.failures.append('%s: marginal on %r has a negative entry' % (name, cl))
            if abs(v.sum() - total) > 1e-9 * total:
                self.failures.append('%s: marginal on %r sums to %r, not %r' % (name, cl, v.sum(), total))
            if truth is not None:
                err = np.abs(v - truth(cl)).max() / total
                worst = max(worst, err)
                if err > TOL:
                    self.failures.append('%s: marginal on %r is off by %.3g (relative to total) from '
                                         'the true marginal of the supplied potentials' % (name, cl, err))
            h.update(repr(cl).encode())
            h.update(np.round(v + 0.0, 7).tobytes())
        self.lines.append('%-44s exact=%-5s ok=%s digest=%s' % (
            name, truth is not None, worst <= TOL, h.hexdigest()[:16]))


def scenario(rep, name, attrs, shape, cliques, total, seed, tree, iters):
    attrs = list(attrs)
    dom = Domain(attrs, shape)
    rs = np.random.RandomState(seed)
    arrays1 = {cl: rs.normal(size=tuple(dom[a] for a in cl)) for cl in cliques}
    arrays2 = {cl: 2.0 * rs.normal(size=tuple(dom[a] for a in cl)) for cl in cliques}
    truth1 = oracle(attrs, shape, arrays1, total) if tree else None
    truth2 = oracle(attrs, shape, arrays2, total) if tree else None

    def theta(arrays):
        return CliqueVector({cl: Factor(dom.project(cl), arrays[cl].copy()) for cl in cliques})

    # (a) fresh model, one call
    fg = FactorGraph(dom, cliques, total=total, convex=False, iters=iters)
    th = theta(arrays1)
    rep.marginals(name + ' / first call', fg.belief_propagation(th), cliques, total, truth1)
    # (b) the caller keeps its CliqueVector and asks again (messages are warm now)
    rep.marginals(name + ' / same theta again', fg.belief_propagation(th), cliques, total, truth1)
    rep.marginals(name + ' / same theta, third', fg.belief_propagation(th), cliques, total, truth1)
    # (c) other potentials on the warm model, then the first ones once more
    rep.marginals(name + ' / new theta, warm', fg.belief_propagation(theta(arrays2)), cliques, total, truth2)
    rep.marginals(name + ' / theta after detour', fg.belief_propagation(th), cliques, total, truth1)
    drift = max(np.abs(th[cl].values - arrays1[cl]).max() for cl in cliques)
    if drift > 0:
        rep.failures.append('%s: the potentials handed to belief_propagation were modified by it '
                            '(max change %.3g)' % (name, drift))

    # (d) fresh model, a per-sweep callback that only looks at the marginals
    fg = FactorGraph(dom, cliques, total=total, convex=False, iters=iters)
    seen = []
    th = theta(arrays1)
    mu = fg.belief_propagation(th, callback=lambda mg: seen.append(float(mg[cliques[0]].values.sum())))
    rep.marginals(name + ' / with callback', mu, cliques, total, truth1)
    if len(seen) != iters or any(abs(s - total) > 1e-9 * total for s in seen):
        rep.failures.append('%s: callback saw %d sweeps / unnormalised marginals' % (name, len(seen)))


def main():
    rep = Report()
    scenario(rep, 'chain AB-BC-CD', 'ABCD', [2, 3, 4, 2],
             [('A','B'), ('B','C'), ('C','D')], 1.0, 11, True, 20)
    scenario(rep, 'star with a triple', 'ABCDE', [2, 3, 2, 3, 4],
             [('A','B','C'), ('C','D'), ('B','E')], 500.0, 12, True, 20)
    scenario(rep, 'forest + unary factor', 'ABCDE', [3, 2, 2, 3, 2],
             [('A','B'), ('B',), ('C','D'), ('D','E')], 42.0, 13, True, 20)
    scenario(rep, 'size-1 attribute', 'ABC', [2, 1, 3],
             [('A','B'), ('B','C')], 10.0, 14, True, 20)
    scenario(rep, 'triangle (normalised only)', 'ABC', [2, 3, 2],
             [('A','B'), ('B','C'), ('A','C')], 100.0, 15, False, 20)

    # region-graph propagation on a junction tree, called twice with the same potentials
    dom = Domain(list('ABCD'), [2, 3, 2, 3])
    cliques = [('A','B','C'), ('B','C','D')]
    rg = RegionGraph(dom, cliques, total=20.0, convex=False, iters=100)
    rs = np.random.RandomState(16)
    regions = sorted(rg.cliques)
    arrays = {r: (rs.normal(size=tuple(dom[a] for a in r)) if r in cliques else
                  np.zeros(tuple(dom[a] for a in r))) for r in regions}
    th = CliqueVector({r: Factor(dom.project(r), arrays[r].copy()) for r in regions})
    truth = oracle(list('ABCD'), [2, 3, 2, 3], {r: arrays[r] for r in cliques}, 20.0)
    rep.marginals('region graph ABC-BCD / first call', rg.belief_propagation(th), regions, 20.0, truth)
    rep.marginals('region graph ABC-BCD / same theta again', rg.belief_propagation(th), regions, 20.0, truth)

    for l in rep.lines:
        print(l)
    if rep.failures:
        print('FAIL: %d violation(s) of C16 (normalised / exact on acyclic structures)' % len(rep.failures))
        for f in rep.failures[:14]:
            print('  -', f)
        if len(rep.failures) > 14:
            print('  ... and %d more' % (len(rep.failures) - 14))
        sys.exit(1)
    print('PASS', hashlib.sha256('\n'.join(rep.lines).encode()).hexdigest()[:24])
    sys.exit(0)


if __name__ == '__main__':
    main()

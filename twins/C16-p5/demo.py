"""C16 / pair 1 -- RegionGraph.build_graph, pruning to a minimal region graph.

Property clause exercised: when the clique set satisfies the running-intersection
property (it is the clique set of a junction tree), generalised belief propagation
on the (minimal) region graph returns the EXACT clique marginals, and the
pseudo-marginals are always finite, nonnegative and sum to `total`.

The program builds a battery of junction-tree structured clique sets (a few
hand-written ones plus seeded random junction trees), runs
RegionGraph(..., convex=False).belief_propagation and compares against brute force.

exit 0 + "PASS" + digest  : property holds on every instance
exit 1 + "FAIL" + reasons : property violated (or the oracle raised)
"""
import os, sys

# set iteration order of the region set (tuples of str) depends on the hash seed and
# RegionGraph.build_graph iterates over that set: pin it so the run is reproducible.
if os.environ.get('PYTHONHASHSEED') != '1':
    env = dict(os.environ, PYTHONHASHSEED='1')
    os.execve(sys.executable, [sys.executable] + sys.argv, env)

ROOT = os.path.dirname(os.path.dirname(os.path.dirname(os.path.abspath(__file__))))
sys.path.insert(0, os.path.join(ROOT, 'src'))

import warnings
warnings.filterwarnings('ignore')
import hashlib
import numpy as np
import mbi
from mbi import Domain, Factor, CliqueVector, RegionGraph

if not os.path.abspath(mbi.__file__).startswith(ROOT + os.sep):
    print('ERROR: mbi imported from %s, not from %s' % (mbi.__file__, ROOT))
    sys.exit(2)

ATTRS = list('ABCDEFGH')
SIZES = [2, 3, 2, 2, 3, 2, 2, 2]
DOMAIN = Domain(ATTRS, SIZES)


def random_junction_tree(rs, ncl, maxsz=4):
    """ clique set of a random junction tree: every new clique = (part of an old clique) + fresh attributes """
    first = sorted(rs.choice(ATTRS, size=rs.randint(2, maxsz + 1), replace=False))
    cliques = [tuple(str(a) for a in first)]
    used = set(cliques[0])
    for _ in range(ncl - 1):
        fresh = [a for a in ATTRS if a not in used]
        if not fresh:
            break
        par = cliques[rs.randint(len(cliques))]
        k = rs.randint(1, len(par))
        sep = [str(a) for a in rs.choice(par, size=k, replace=False)]
        m = rs.randint(1, max(1, min(len(fresh), maxsz - k)) + 1)
        new = [str(a) for a in rs.choice(fresh, size=m, replace=False)]
        used |= set(new)
        cliques.append(tuple(sorted(sep + new)))
    return cliques


def instances():
    named = [
        ('chain',   [('A', 'B'), ('B', 'C'), ('C', 'D'), ('D', 'E')]),
        ('star',    [('A', 'B'), ('A', 'C'), ('A', 'D')]),
        ('jt3',     [('A', 'B', 'C'), ('B', 'C', 'D'), ('C', 'D', 'E')]),
        ('nested',  [('A', 'B', 'C'), ('A', 'B', 'D'), ('A', 'E'), ('A', 'F')]),
        ('deep',    [('A', 'B', 'C', 'D'), ('A', 'B', 'C', 'E'), ('A', 'B', 'F'), ('A', 'G')]),
        ('forest',  [('A', 'B'), ('C', 'D'), ('D', 'E')]),
        # separators AF, CF and A, F: the parents AF, CF of F share the ancestor ACF,
        # and AF is also a parent of A (together with AG, AD)
        ('shared1', [('A', 'B', 'F', 'H'), ('A', 'C', 'F'), ('C', 'E', 'F'), ('A', 'G'), ('A', 'D')]),
        ('shared2', [('C', 'F', 'H'), ('E', 'F', 'H'), ('A', 'B', 'F', 'H'), ('B', 'D', 'H'), ('E', 'F', 'G')]),
        ('shared3', [('D', 'F', 'G', 'H'), ('B', 'D', 'F', 'H'), ('B', 'C', 'E', 'F'), ('A', 'B', 'H')]),
    ]
    for x in named:
        yield x
    # the same three structures under other attribute labellings (other iteration orders of the region set)
    rs = np.random.RandomState(7)
    for name, cliques in named[-3:]:
        for k in range(4):
            perm = dict(zip(ATTRS, rs.permutation(ATTRS)))
            yield '%s.%d' % (name, k), [tuple(sorted(str(perm[a]) for a in cl)) for cl in cliques]
    rs = np.random.RandomState(20260516)
    for t in range(40):
        yield 'rand%02d' % t, random_junction_tree(rs, rs.randint(3, 7))


def brute_force(pots, total, cl):
    logp = sum(pots.values())
    logp = logp + np.log(total) - logp.logsumexp()
    return logp.exp().project(cl)


def check(name, cliques, seed):
    total = [1.0, 10.0, 2500.0][seed % 3]
    rg = RegionGraph(DOMAIN, cliques, total=total, convex=False, iters=150)
    rs = np.random.RandomState(seed)
    pots = {}
    for r in rg.cliques:
        dom = DOMAIN.project(r)
        if r in cliques:   # the model lives on the maximal cliques; inner regions carry no potential
            pots[r] = Factor(dom, rs.randn(*dom.shape))
        else:
            pots[r] = Factor.zeros(dom)
    pots = CliqueVector(pots)
    mu = rg.belief_propagation(pots)
    problems = []
    h = hashlib.sha256()
    worst = 0.0
    for r in sorted(mu):
        v = mu[r].project(r).datavector()
        if not np.all(np.isfinite(v)):
            problems.append('%s: non-finite marginal on %s' % (name, r))
            continue
        if v.min() < 0:
            problems.append('%s: negative marginal on %s' % (name, r))
        if abs(v.sum() - total) > 1e-9 * total:
            problems.append('%s: marginal on %s sums to %r, total is %r' % (name, r, v.sum(), total))
        ex = brute_force(pots, total, r).datavector()
        err = np.abs(v - ex).max() / total
        worst = max(worst, err)
        if err > 1e-8:
            problems.append('%s: marginal on %s is off by %.3e (relative to total) from brute force'
                            % (name, ''.join(r), err))
        h.update(repr((r, [float('%.6g' % x) for x in ex])).encode())
        h.update(repr([float('%.6g' % x) for x in np.round(v / total, 7)]).encode())
    line = '%-8s cliques=%-2d regions=%-2d edges=%-2d exact=%s %s' % (
        name, len(cliques), len(rg.regions), rg.G.number_of_edges(), worst <= 1e-8, h.hexdigest()[:16])
    return line, problems


def main():
    lines, problems = [], []
    for i, (name, cliques) in enumerate(instances()):
        try:
            line, prob = check(name, cliques, i)
        except Exception as e:   # an oracle that raises returns no marginals at all
            line, prob = '%-8s raised' % name, ['%s: %s raised %r' % (name, cliques, e)]
        lines.append(line)
        problems.extend(prob)
    if problems:
        print('FAIL: GBP on a junction-tree structured clique set is not exact / not normalised')
        for p in problems[:25]:
            print('  ' + p)
        print('  (%d problems in total)' % len(problems))
        sys.exit(1)
    print('PASS')
    for line in lines:
        print(line)
    print('digest', hashlib.sha256('\n'.join(lines).encode()).hexdigest())
    sys.exit(0)


if __name__ == '__main__':
    main()

"""C16 / pair 2 -- FactorGraph.loopy_belief_propagation, early exit from the sweep loop.

Property clause exercised: when the factor graph is a tree, loopy propagation
(FactorGraph(..., convex=False).belief_propagation) returns the EXACT marginals once
it is allowed enough sweeps -- for every tree, every potential strength, every total,
also when the sweeps are spread over several calls (messages are kept between calls)
-- and the pseudo-marginals are always finite, nonnegative and sum to `total`.

exit 0 + "PASS" + digest  : property holds on every instance
exit 1 + "FAIL" + reasons : property violated
"""
import os, sys

ROOT = os.path.dirname(os.path.dirname(os.path.dirname(os.path.abspath(__file__))))
sys.path.insert(0, os.path.join(ROOT, 'src'))

import warnings
warnings.filterwarnings('ignore')
import hashlib
import numpy as np
from scipy.special import logsumexp as lse
import mbi
from mbi import Domain, Factor, CliqueVector, FactorGraph

if not os.path.abspath(mbi.__file__).startswith(ROOT + os.sep):
    print('ERROR: mbi imported from %s, not from %s' % (mbi.__file__, ROOT))
    sys.exit(2)

TOL = 1e-9        # allowed deviation from the exact marginal, relative to `total`
problems, lines = [], []


def digest(mu):
    h = hashlib.sha256()
    for cl in sorted(mu):
        h.update(repr((cl, ['%.10g' % x for x in mu[cl].datavector()])).encode())
    return h.hexdigest()[:16]


def brute_force(pots, total):
    logp = sum(pots.values())
    logp = logp + np.log(total) - logp.logsumexp()
    p = logp.exp()
    return {cl: p.project(cl).datavector() for cl in pots}


def pairwise_tree_reference(sizes, P, total, sweeps):
    """ independent flooding sum-product in plain numpy for a tree of pairwise factors
        P: dict (u,v) -> log-potential array of shape [sizes[u], sizes[v]] """
    nb = {a: [] for a in sizes}
    for (u, v) in P:
        nb[u].append((u, v)); nb[v].append((u, v))
    n2f = {(a, f): np.zeros(sizes[a]) for a in sizes for f in nb[a]}
    for _ in range(sweeps):
        f2n = {}
        for (u, v), p in P.items():
            m = lse(p + n2f[v, (u, v)][None, :], axis=1); f2n[(u, v), u] = m - lse(m)
            m = lse(p + n2f[u, (u, v)][:, None], axis=0); f2n[(u, v), v] = m - lse(m)
        for a in sizes:
            tot = sum(f2n[f, a] for f in nb[a])
            for f in nb[a]:
                n2f[a, f] = tot - f2n[f, a]
    out = {}
    for (u, v), p in P.items():
        b = p + n2f[u, (u, v)][:, None] + n2f[v, (u, v)][None, :]
        out[u, v] = (np.exp(b - lse(b)) * total).flatten()
    return out


def judge(name, mu, ref, total, note=''):
    worst = 0.0
    for cl in sorted(mu):
        v = mu[cl].project(cl).datavector()
        if not np.all(np.isfinite(v)):
            problems.append('%s: non-finite marginal on %s' % (name, cl)); continue
        if v.min() < 0:
            problems.append('%s: negative marginal on %s' % (name, cl))
        if abs(v.sum() - total) > 1e-9 * total:
            problems.append('%s: marginal on %s sums to %r, total is %r' % (name, cl, v.sum(), total))
        if ref is not None:
            worst = max(worst, np.abs(v - ref[cl]).max() / total)
    if ref is not None and worst > TOL:
        problems.append('%s: tree factor graph, but the marginals are off by %.2e x total '
                        '(allowed %.0e; the unmodified code is at ~1e-15)' % (name, worst, TOL))
    lines.append('%-14s %-26s exact=%-5s %s' % (name, note, ref is None or worst <= TOL, digest(mu)))


# ---- 1. small trees, brute-force reference ----------------------------------------------
DOM = Domain(list('ABCDEFG'), [2, 3, 2, 4, 2, 3, 2])
SMALL = [
    ('chain',   [('A', 'B'), ('B', 'C'), ('C', 'D'), ('D', 'E')], 1.0),
    ('star',    [('D', 'A'), ('D', 'B'), ('D', 'C'), ('D', 'E')], 100.0),
    ('ternary', [('A', 'B', 'C'), ('C', 'D'), ('D', 'E'), ('A', 'F'), ('F', 'G')], 12345.0),
    ('unary',   [('A',), ('A', 'B'), ('B',), ('B', 'C'), ('C', 'D', 'E')], 7.0),
    ('forest',  [('A', 'B'), ('C', 'D'), ('D', 'E'), ('F',)], 50.0),
]
for i, (name, cliques, total) in enumerate(SMALL):
    for scale in [0.5, 4.0]:
        rs = np.random.RandomState(100 + i)
        pots = CliqueVector({cl: Factor(DOM.project(cl), scale * rs.randn(*DOM.project(cl).shape))
                             for cl in cliques})
        fg = FactorGraph(DOM, cliques, total=total, convex=False, iters=12)
        judge('%s/%g' % (name, scale), fg.belief_propagation(pots), brute_force(pots, total), total)

# ---- 2. sweeps spread over several calls (warm messages), then new potentials ------------
name, cliques, total = SMALL[2]
rs = np.random.RandomState(7)
pots1 = CliqueVector({cl: Factor(DOM.project(cl), rs.randn(*DOM.project(cl).shape)) for cl in cliques})
pots2 = CliqueVector({cl: Factor(DOM.project(cl), 3 * rs.randn(*DOM.project(cl).shape)) for cl in cliques})
fg = FactorGraph(DOM, cliques, total=total, convex=False, iters=1)
for _ in range(8):
    mu = fg.belief_propagation(pots1)
judge('warm/8x1', mu, brute_force(pots1, total), total)
fg.iters = 10
judge('warm/new-pots', fg.belief_propagation(pots2), brute_force(pots2, total), total)
fg.total = 3.0
judge('warm/new-total', fg.belief_propagation(pots2), brute_force(pots2, 3.0), 3.0)

# ---- 3. a callback sees every sweep -------------------------------------------------------
seen = []
fg = FactorGraph(DOM, cliques, total=total, convex=False, iters=15)
mu = fg.belief_propagation(pots1, callback=lambda mg: seen.append(digest(mg)))
judge('callback', mu, brute_force(pots1, total), total, note='calls=%d' % len(seen))
lines.append('callback trace ' + hashlib.sha256(' '.join(seen).encode()).hexdigest()[:16])

# ---- 4. loopy factor graph: only normalisation is promised --------------------------------
cliques = [('A', 'B'), ('B', 'C'), ('A', 'C'), ('C', 'D')]
rs = np.random.RandomState(3)
pots = CliqueVector({cl: Factor(DOM.project(cl), rs.randn(*DOM.project(cl).shape)) for cl in cliques})
fg = FactorGraph(DOM, cliques, total=40.0, convex=False, iters=30)
judge('loopy', fg.belief_propagation(pots), None, 40.0)


# ---- 5. long, strongly coupled trees (large total, as in a real data set) -----------------
def run_big(name, sizes, P, total, iters, ref_sweeps):
    attrs = sorted(sizes)
    dom = Domain(attrs, [sizes[a] for a in attrs])
    cliques = list(P)
    pots = CliqueVector({cl: Factor(dom.project(cl), P[cl]) for cl in cliques})
    fg = FactorGraph(dom, cliques, total=total, convex=False, iters=iters)
    mu = fg.belief_propagation(pots)
    ref = pairwise_tree_reference(sizes, P, total, ref_sweeps)
    judge(name, mu, ref, total, note='vars=%d sweeps=%d' % (len(attrs), iters))


# 5a. chain of 60 binary attributes, neighbouring attributes strongly correlated
n = 60
rs = np.random.RandomState(11)
sizes = {'x%03d' % i: 2 for i in range(n)}
P = {('x%03d' % i, 'x%03d' % (i + 1)): 2.0 * np.eye(2) + 0.05 * rs.randn(2, 2) for i in range(n - 1)}
P['x000', 'x001'] = P['x000', 'x001'] + np.array([[1.5], [0.0]])
run_big('chain60', sizes, P, 1e6, 3 * n, n + 2)

# 5b. caterpillar: a backbone of 24 correlated attributes with 10 leaf attributes each
nh, nl, s = 24, 10, 8
rs = np.random.RandomState(12)
sizes, P = {}, {}
for i in range(nh):
    sizes['h%02d' % i] = s
    for j in range(nl):
        sizes['l%02d_%02d' % (i, j)] = s
        P['h%02d' % i, 'l%02d_%02d' % (i, j)] = 0.3 * rs.randn(s, s)
for i in range(nh - 1):
    P['h%02d' % i, 'h%02d' % (i + 1)] = 2.0 * np.eye(s) + 0.05 * rs.randn(s, s)
P['h00', 'l00_00'] = P['h00', 'l00_00'] + 2.0 * np.eye(s)[:, :1]
run_big('caterpillar', sizes, P, 5e4, 3 * nh, nh + 3)

# the numpy reference itself is validated against brute force on a small pairwise tree
sizes = {a: DOM[a] for a in 'ABCDE'}
rs = np.random.RandomState(5)
P = {cl: rs.randn(DOM[cl[0]], DOM[cl[1]]) for cl in [('A', 'B'), ('B', 'C'), ('B', 'D'), ('D', 'E')]}
bf = brute_force(CliqueVector({cl: Factor(DOM.project(cl), P[cl]) for cl in P}), 9.0)
ref = pairwise_tree_reference(sizes, P, 9.0, 6)
assert max(np.abs(bf[cl] - ref[cl]).max() for cl in P) < 1e-12, 'reference implementation is broken'

if problems:
    print('FAIL: loopy BP on a tree factor graph does not return the exact marginals')
    for p in problems:
        print('  ' + p)
    sys.exit(1)
print('PASS')
for line in lines:
    print(line)
print('digest', hashlib.sha256('\n'.join(lines).encode()).hexdigest())
sys.exit(0)

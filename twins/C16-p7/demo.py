"""C16 / round 6 / pair 1 -- RegionGraph(convex=False) generalised BP, message sets N / D of the
fully saturated region graph (`minimal=False`).

Checks, for several junction-tree-structured (running-intersection) clique sets, both region-graph
configurations (minimal=True: Pakzad/Anantharam message sets, minimal=False: Yedidia message sets),
several totals and sweep counts:
  * every returned pseudo-marginal is finite, nonnegative and sums to the total;
  * the pseudo-marginals equal the exact marginals of P ~ exp(sum of clique potentials).
Loopy clique sets are checked for normalisation only.

exit 0 + "PASS <digest>"  : all checks hold
exit 1 + "FAIL ..."       : some check is violated
"""
import os, sys, hashlib, warnings

# set/dict iteration order over tuples of strings feeds floating-point summation order in the
# library: pin the hash seed so that the digest is reproducible run to run.
if os.environ.get('PYTHONHASHSEED') != '0':
    env = dict(os.environ, PYTHONHASHSEED='0')
    os.execve(sys.executable, [sys.executable] + sys.argv, env)

ROOT = os.path.dirname(os.path.dirname(os.path.dirname(os.path.abspath(__file__))))
sys.path.insert(0, os.path.join(ROOT, 'src'))
warnings.filterwarnings('ignore')

import numpy as np
import mbi
from mbi import Domain, Factor, CliqueVector, RegionGraph

assert os.path.abspath(mbi.__file__).startswith(ROOT), 'mbi imported from %s, not from %s' % (mbi.__file__, ROOT)

TOL = 1e-7
lines, failures = [], []


def exact_marginals(domain, potentials, total, regions):
    logp = sum(potentials[c] for c in potentials)
    logp += np.log(total) - logp.logsumexp()
    P = logp.exp()
    return {r: P.project(r) for r in regions}


def make_potentials(domain, model, cliques, rng, zeros=()):
    """random potentials on the input cliques, zero on the intersection regions; `zeros` lists
    (clique, index) cells that get a structural zero (-inf)."""
    pot = {}
    for r in model.cliques:
        dom = domain.project(r)
        if r in cliques:
            pot[r] = Factor(dom, rng.normal(size=dom.shape))
        else:
            pot[r] = Factor.zeros(dom)
    for cl, idx in zeros:
        pot[cl].values[idx] = -np.inf
    return CliqueVector(pot)


def check(name, domain, cliques, total, iters, minimal, rng, exactness=True, zeros=()):
    model = RegionGraph(domain, cliques, total=total, convex=False, iters=iters, minimal=minimal)
    pot = make_potentials(domain, model, cliques, rng, zeros)
    mu = model.belief_propagation(pot)
    tag = '%s minimal=%s total=%s iters=%d' % (name, minimal, total, iters)
    worst_norm, worst_err = 0.0, 0.0
    h = hashlib.sha256()
    ex = exact_marginals(domain, pot, total, model.cliques) if exactness else None
    for r in sorted(mu):
        v = mu[r].values
        if not np.all(np.isfinite(v)) or v.min() < 0:
            failures.append('%s: marginal %s is not finite / nonnegative' % (tag, r))
            continue
        worst_norm = max(worst_norm, abs(v.sum() - total) / total)
        if exactness:
            e = ex[r].transpose(mu[r].domain.attrs).values
            worst_err = max(worst_err, np.abs(v - e).max() / total)
        h.update(repr(r).encode())
        h.update(np.round(v / total, 7).tobytes())
    if worst_norm > 1e-9:
        failures.append('%s: marginals do not sum to the total (rel. error %.2e)' % (tag, worst_norm))
    if exactness and worst_err > TOL:
        failures.append('%s: clique set has the running-intersection property but GBP is not exact '
                        '(max abs error / total = %.2e > %.0e)' % (tag, worst_err, TOL))
    lines.append('%s regions=%d %s' % (tag, len(model.regions), h.hexdigest()[:16]))


domain = Domain(list('ABCDEXYZ'), [2, 3, 2, 3, 2, 2, 3, 2])
RIP = {
    'chain2':   [('A', 'B'), ('B', 'C')],
    'chain3':   [('A', 'B', 'C'), ('B', 'C', 'D'), ('C', 'D', 'E')],
    'star4':    [('A', 'B', 'C', 'X'), ('B', 'C', 'D', 'Y'), ('A', 'C', 'D', 'Z'), ('A', 'B', 'C', 'D')],
    'permuted': [('C', 'B', 'A'), ('D', 'C', 'B'), ('E', 'D', 'C')],
    'mixed':    [('A', 'B', 'C'), ('C', 'D'), ('C', 'E'), ('A', 'B', 'X'), ('Y',)],
    'forest':   [('A', 'B'), ('C', 'D'), ('D', 'E')],
}
LOOPY = {
    'triangle': [('A', 'B'), ('B', 'C'), ('A', 'C')],
    'grid':     [('A', 'B'), ('B', 'C'), ('C', 'D'), ('D', 'A'), ('A', 'X'), ('X', 'C')],
    'k4-3':     [('A', 'B', 'C'), ('B', 'C', 'D'), ('A', 'C', 'D'), ('A', 'B', 'D')],
}

rng = np.random.RandomState(20261004)
for minimal in (True, False):
    for name, cliques in RIP.items():
        for total, iters in ((1.0, 120), (1000, 200)):
            check(name, domain, cliques, total, iters, minimal, rng)
    # structural zeros in the potentials
    check('chain3+zeros', domain, RIP['chain3'], 50.0, 200, minimal, rng,
          zeros=[(('A', 'B', 'C'), (0, 1, 1)), (('B', 'C', 'D'), (slice(None), 0, 2))])
    for name, cliques in LOOPY.items():
        check(name, domain, cliques, 10.0, 40, minimal, rng, exactness=False)

# the same model object called repeatedly (warm messages) with few sweeps per call
for minimal in (True, False):
    cliques = RIP['star4']
    model = RegionGraph(domain, cliques, total=3.0, convex=False, iters=10, minimal=minimal)
    pot = make_potentials(domain, model, cliques, rng)
    for _ in range(15):
        mu = model.belief_propagation(pot)
    ex = exact_marginals(domain, pot, 3.0, model.cliques)
    err = max(np.abs(mu[r].values - ex[r].transpose(mu[r].domain.attrs).values).max() for r in mu) / 3.0
    if not err <= TOL:
        failures.append('star4 minimal=%s, 15 warm calls x 10 sweeps: not exact (%.2e)' % (minimal, err))
    lines.append('star4 minimal=%s warm 15x10 ok=%s' % (minimal, err <= TOL))

if failures:
    print('FAIL: %d violation(s) of C16 (normalised; exact on junction-tree-structured clique sets)' % len(failures))
    for f in failures:
        print('  - ' + f)
    sys.exit(1)

for l in lines:
    print(l)
print('PASS', hashlib.sha256('\n'.join(lines).encode()).hexdigest())
sys.exit(0)

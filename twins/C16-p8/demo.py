"""C16 / round 6 / pair 2 -- FactorGraph(convex=False) loopy BP, messages persisted between calls.

For several clique sets whose factor graph is a tree, and several ways of spending the sweeps
(one call with many sweeps; MANY calls of the same model object with 1-3 sweeps each, which is
how LocalInference drives the oracle with inner_iters=1; potentials that change between the
calls; messages saved with deepcopy and restored, as LocalInference.mirror_descent_auto does):
  * every returned pseudo-marginal is finite, nonnegative and sums to the total;
  * once the total number of sweeps done with the final potentials reaches the diameter of the
    factor graph, the pseudo-marginals equal the exact marginals of P ~ exp(sum of potentials).
Loopy factor graphs are checked for normalisation only.

exit 0 + "PASS <digest>"  : all checks hold
exit 1 + "FAIL ..."       : some check is violated
"""
import os, sys, hashlib, warnings, copy

if os.environ.get('PYTHONHASHSEED') != '0':
    env = dict(os.environ, PYTHONHASHSEED='0')
    os.execve(sys.executable, [sys.executable] + sys.argv, env)

ROOT = os.path.dirname(os.path.dirname(os.path.dirname(os.path.abspath(__file__))))
sys.path.insert(0, os.path.join(ROOT, 'src'))
warnings.filterwarnings('ignore')

import numpy as np
import mbi
from mbi import Domain, Factor, CliqueVector, FactorGraph

assert os.path.abspath(mbi.__file__).startswith(ROOT), 'mbi imported from %s, not from %s' % (mbi.__file__, ROOT)

TOL = 1e-9
lines, failures = [], []


def exact_marginals(potentials, total):
    logp = sum(potentials[c] for c in potentials)
    logp += np.log(total) - logp.logsumexp()
    P = logp.exp()
    return {c: P.project(c) for c in potentials}


def random_potentials(domain, cliques, rng, zeros=()):
    pot = {}
    for cl in cliques:
        dom = domain.project(cl)
        pot[cl] = Factor(dom, rng.normal(size=dom.shape))
    for cl, idx in zeros:
        pot[cl].values[idx] = -np.inf
    return CliqueVector(pot)


def judge(tag, mu, total, potentials=None):
    """normalisation always; exactness when `potentials` is given"""
    h = hashlib.sha256()
    worst_norm, worst_err = 0.0, 0.0
    ex = exact_marginals(potentials, total) if potentials is not None else None
    for cl in sorted(mu):
        v = mu[cl].values
        if not np.all(np.isfinite(v)) or v.min() < 0:
            failures.append('%s: marginal %s is not finite / nonnegative' % (tag, cl))
            continue
        worst_norm = max(worst_norm, abs(v.sum() - total) / total)
        if ex is not None:
            e = ex[cl].transpose(mu[cl].domain.attrs).values
            worst_err = max(worst_err, np.abs(v - e).max() / total)
        h.update(repr(cl).encode())
        h.update(np.round(v / total, 9).tobytes())
    if worst_norm > 1e-9:
        failures.append('%s: marginals do not sum to the total (rel. error %.2e)' % (tag, worst_norm))
    if ex is not None and worst_err > TOL:
        failures.append('%s: the factor graph is a tree and enough sweeps were run, but loopy BP is not exact '
                        '(max abs error / total = %.2e > %.0e)' % (tag, worst_err, TOL))
    lines.append('%s %s' % (tag, h.hexdigest()[:16]))


domain = Domain(list('ABCDEFGH'), [2, 3, 2, 3, 2, 4, 2, 3])
# clique sets whose factor graph is a tree, with (an upper bound on) the sweeps needed
TREES = {
    'chain2': ([('A', 'B'), ('B', 'C')], 2),
    'chain3': ([('A', 'B'), ('B', 'C'), ('C', 'D')], 3),
    'chain6': ([('A', 'B'), ('B', 'C'), ('C', 'D'), ('D', 'E'), ('E', 'F'), ('F', 'G')], 6),
    'star':   ([('A', 'B'), ('A', 'C'), ('A', 'D'), ('A', 'E')], 2),
    'hyper':  ([('A', 'B', 'C'), ('C', 'D', 'E'), ('E', 'F'), ('F', 'G', 'H'), ('B',), ('H',)], 5),
    'perm':   ([('B', 'A'), ('C', 'B'), ('D', 'C'), ('D', 'E')], 4),
}
LOOPY = {
    'triangle': [('A', 'B'), ('B', 'C'), ('A', 'C')],
    'shared2':  [('A', 'B', 'C'), ('B', 'C', 'D')],
    'grid':     [('A', 'B'), ('B', 'C'), ('C', 'D'), ('D', 'A'), ('A', 'E'), ('E', 'C')],
}

rng = np.random.RandomState(20261004)

for name, (cliques, need) in TREES.items():
    # (1) one call, many sweeps
    for total in (1.0, 1000):
        model = FactorGraph(domain, cliques, total=total, convex=False, iters=25)
        pot = random_potentials(domain, cliques, rng)
        judge('%s one call x25 total=%s' % (name, total), model.belief_propagation(pot), total, pot)

    # (2) the same model object, many calls with few sweeps each (warm messages)
    for per_call in (1, 2, 3):
        total = 40.0
        model = FactorGraph(domain, cliques, total=total, convex=False, iters=per_call)
        pot = random_potentials(domain, cliques, rng)
        calls = need // per_call + 2
        for _ in range(calls):
            mu = model.belief_propagation(pot)
            judge('%s warm call, %d sweep(s)' % (name, per_call), mu, total)
        judge('%s %d calls x %d sweep(s)' % (name, calls, per_call), mu, total, pot)

    # (3) potentials move for a while (mirror-descent style), then stay fixed
    total = 7.0
    model = FactorGraph(domain, cliques, total=total, convex=False, iters=1)
    pot = random_potentials(domain, cliques, rng)
    for t in range(5):
        step = random_potentials(domain, cliques, rng)
        pot = pot + 0.3 * step
        judge('%s moving potentials step %d' % (name, t), model.belief_propagation(pot), total)
    for _ in range(need + 1):
        mu = model.belief_propagation(pot)
    judge('%s moving potentials, then %d calls x 1 sweep' % (name, need + 1), mu, total, pot)

    # (4) messages saved and restored between calls, as LocalInference.mirror_descent_auto does
    total = 3.0
    model = FactorGraph(domain, cliques, total=total, convex=False, iters=1)
    pot = random_potentials(domain, cliques, rng)
    for _ in range(need):
        model.belief_propagation(pot)
    saved = copy.deepcopy(model.messages)
    other = random_potentials(domain, cliques, rng)
    model.belief_propagation(other)              # a rejected step
    model.messages = saved                       # roll back
    judge('%s restore messages, 1 call x 1 sweep' % name, model.belief_propagation(pot), total, pot)

# structural zeros, spent over several short calls
cliques, need = TREES['chain3']
pot = random_potentials(domain, cliques, rng, zeros=[(('A', 'B'), (0, 1)), (('B', 'C'), (2, slice(None)))])
model = FactorGraph(domain, cliques, total=12.0, convex=False, iters=1)
for _ in range(need + 2):
    mu = model.belief_propagation(pot)
judge('chain3+zeros %d calls x 1 sweep' % (need + 2), mu, 12.0, pot)

# loopy factor graphs: normalisation only, one long call and many short ones
for name, cliques in LOOPY.items():
    pot = random_potentials(domain, cliques, rng)
    model = FactorGraph(domain, cliques, total=10.0, convex=False, iters=30)
    judge('%s loopy one call x30' % name, model.belief_propagation(pot), 10.0)
    model = FactorGraph(domain, cliques, total=10.0, convex=False, iters=1)
    for t in range(10):
        judge('%s loopy warm call %d' % (name, t), model.belief_propagation(pot), 10.0)

if failures:
    print('FAIL: %d violation(s) of C16 (normalised; exact on tree factor graphs once enough sweeps were run)' % len(failures))
    for f in failures:
        print('  - ' + f)
    print('A sequence of k warm-started calls with s sweeps each must be as good as one call with k*s sweeps:')
    print('the variable-to-factor messages are the state that carries the sweeps already done.')
    sys.exit(1)

for l in lines:
    print(l)
print('PASS', hashlib.sha256('\n'.join(lines).encode()).hexdigest())
sys.exit(0)

#!/usr/bin/env python
"""C16 / round 7 / pair 1 -- RegionGraph(total=...) : pseudo-marginals sum to the total.

Clause exercised: "Pseudo-marginals returned by the approximate oracles are always
finite, nonnegative and sum to the total", forall clique sets, potentials and TOTALS
(including the degenerate totals 0 / 0.0 / numpy 0.0, small fractional totals and
large ones), observed at RegionGraph(..., convex=False).belief_propagation(potentials).

exit 0 + "PASS <digest>"  : every marginal of every case is finite, >= 0, sums to the
                            total that was passed to the constructor (and is exact on
                            the junction-tree-structured clique sets)
exit 1 + "FAIL ..."       : otherwise
"""
import os, sys, hashlib, warnings

if os.environ.get('PYTHONHASHSEED') != '0':           # set iteration order -> float summation order
    os.environ['PYTHONHASHSEED'] = '0'
    os.execv(sys.executable, [sys.executable] + sys.argv)

ROOT = os.path.dirname(os.path.dirname(os.path.dirname(os.path.abspath(__file__))))
sys.path.insert(0, os.path.join(ROOT, 'src'))
warnings.simplefilter('ignore')

import numpy as np
import mbi
from mbi import Domain, Factor, CliqueVector, RegionGraph

if not os.path.abspath(mbi.__file__).startswith(os.path.join(ROOT, 'src')):
    print('ERROR: mbi imported from', mbi.__file__, 'instead of', ROOT)
    sys.exit(2)


# ---- brute force reference, plain numpy (no Factor arithmetic) ---------------------
def joint(dom, pots):
    attrs = list(dom.attrs)
    logp = np.zeros(dom.shape)
    for f in pots.values():
        a = f.domain.attrs
        order = sorted(range(len(a)), key=lambda i: attrs.index(a[i]))
        v = np.transpose(f.values, order)
        logp = logp + v.reshape([dom.config[x] if x in a else 1 for x in attrs])
    p = np.exp(logp - logp.max())
    return p / p.sum()

def marginal(dom, p, out):
    attrs = list(dom.attrs)
    m = p.sum(axis=tuple(i for i, x in enumerate(attrs) if x not in out))
    rem = [x for x in attrs if x in out]
    return np.transpose(m, [rem.index(x) for x in out])


DOMAIN = Domain(list('ABCDEFG'), [2, 3, 2, 3, 2, 2, 3])

# (name, cliques, junction-tree-structured?)
STRUCTURES = [
    ('single',   [('A', 'B', 'C')], True),
    ('chain',    [('A', 'B'), ('B', 'C'), ('C', 'D')], True),
    ('jt-3lvl',  [('A', 'B', 'C', 'D'), ('A', 'B', 'E'), ('B', 'C', 'F')], True),
    ('forest',   [('A', 'B'), ('B', 'C'), ('E', 'F')], True),
    ('nested',   [('A',), ('A', 'B'), ('B', 'C', 'G'), ('C',)], True),
    ('triangle', [('A', 'B'), ('B', 'C'), ('A', 'C')], False),
    ('loopy',    [('A', 'B', 'C'), ('B', 'C', 'D'), ('C', 'D', 'E'), ('A', 'E')], False),
]

TOTALS = [0, 0.0, np.float64(0.0), 1, 1.0, 0.25, 7.25, 1000, 123456.5]


def run_case(name, cliques, exact, total, minimal, seed, lines, use_default=False):
    rng = np.random.RandomState(seed)
    if use_default:
        rg = RegionGraph(DOMAIN, cliques, minimal=minimal, convex=False, iters=40)
        total = 1.0
    else:
        rg = RegionGraph(DOMAIN, cliques, total, minimal=minimal, convex=False, iters=40)
    pots = {}
    for r in rg.cliques:
        dom = DOMAIN.project(r)
        if r in cliques and not any(set(r) < set(s) for s in cliques):
            pots[r] = Factor(dom, 1.5 * rng.normal(size=dom.shape))
        else:
            pots[r] = Factor.zeros(dom)
    pots = CliqueVector(pots)
    mu = rg.belief_propagation(pots)

    tag = '%s total=%r(%s) minimal=%s' % (name, total, type(total).__name__, minimal)
    if use_default: tag = '%s total=<default> minimal=%s' % (name, minimal)
    tol = 1e-9 * max(1.0, float(total))
    for r in sorted(mu.keys()):
        v = mu[r].values
        if not np.isfinite(v).all():
            return 'FAIL %s: marginal %s is not finite' % (tag, (r,))
        if (v < 0).any():
            return 'FAIL %s: marginal %s has negative entries' % (tag, (r,))
        if abs(v.sum() - total) > tol:
            return ('FAIL %s: marginal %s sums to %.12g, but the model was built with total=%r'
                    % (tag, (r,), v.sum(), total))
    if exact:
        sub = DOMAIN.project([a for a in DOMAIN.attrs if any(a in c for c in cliques)])
        p = joint(sub, pots) * float(total)
        for r in sorted(mu.keys()):
            err = np.abs(mu[r].values - marginal(sub, p, mu[r].domain.attrs)).max()
            if err > 1e-7 * max(1.0, float(total)):
                return 'FAIL %s: marginal %s differs from the exact marginal by %.3g' % (tag, (r,), err)
    for r in sorted(mu.keys()):
        f = mu[r]
        vals = np.round(f.transpose(tuple(sorted(f.domain.attrs))).values.flatten(), 7) + 0.0
        lines.append('%s %s %s' % (tag, ''.join(sorted(r)), ' '.join('%.7f' % x for x in vals)))
    return None


def main():
    lines = []
    seed = 0
    for name, cliques, exact in STRUCTURES:
        for minimal in (True, False):
            seed += 1
            msg = run_case(name, cliques, exact, None, minimal, seed, lines, use_default=True)
            if msg:
                print(msg); return 1
            for total in TOTALS:
                seed += 1
                try:
                    msg = run_case(name, cliques, exact, total, minimal, seed, lines)
                except Exception as e:        # a crash is a failure, too
                    msg = 'FAIL %s total=%r minimal=%s: raised %r' % (name, total, minimal, e)
                if msg:
                    print(msg)
                    print('  -> the pseudo-marginals of RegionGraph(convex=False) must be finite, nonnegative')
                    print('     and sum to the total the caller asked for, for EVERY total (also 0 / 0.0).')
                    return 1
    digest = hashlib.sha256('\n'.join(lines).encode()).hexdigest()
    print('PASS %d marginals checked, digest %s' % (len(lines), digest))
    return 0


if __name__ == '__main__':
    sys.exit(main())
